"""C20 - loading a stored error never instantiates anything but an exception class."""
import copy
import json

import common as C
import srctie

META = dict(
    id="C20",
    design_ref="DESIGN.md section 4, C20",
    technique="Coq proof (structural induction over payload trees, for every sys.modules environment) + differential "
              "correspondence with exception_to_python / TaskiqResult.model_validate(_json) on trap environments, in driver "
              "processes and in fresh interpreters that imported one list of taskiq modules each",
    level_text="Theorems C20_only_exceptions, C20_outcome (+ _plain), C20_illtyped(_iff), C20_unresolved, C20_nested (+ _refused, "
               "_gate), C20_instantiated_reachable, C20_parametric_gate_is_model hold for the Gallina transcription `load` of exception_to_python (pydantic "
               "tree validation, sys.modules lookup, split('.')/getattr walk, isinstance/issubclass gate, the general Python call "
               "cls(*args) with its `except Exception` fallback, cause-then-context recursion, get_pickled_exception/restore, "
               "the before-validator wrapping of TaskiqResult) for every environment (any finite sys.modules with arbitrary "
               "attribute trees of exception classes / classes / functions / builtins / instances / modules), every entry point "
               "and every payload tree of any depth. The model is tied to /repo on every run: the real entry points load "
               "generated payloads against trap objects planted in sys.modules, and Coq (vm_compute) compares the model's "
               "result tree and ordered observable effect list with what was observed; C20_check (proved sound and met by the "
               "model) is evaluated on every observation; a direct Python oracle transcribes the statement.",
    level_note="Reading that demands less, as decided in DESIGN.md: 'calls a function' = invoking a resolved object; what "
               "getattr itself runs (module __getattr__, properties) and objects that forge __class__/__bases__ so that Python's "
               "own isinstance/issubclass call them BaseException subclasses are not planted (recorded as observations in the "
               "evidence). Objects that are no classes but answer only PART of the class protocol ARE planted (instances "
               "answering __bases__ / __mro__ / the class dunders, transparent class proxies around an exception class, objects "
               "saying __class__ is type in front of a non-exception class; real classes with odd metaclass checks / abc "
               "registrations): what such an object is, is decided by its type and the MRO slot (driver: true_class), never by what "
               "it answers, and the statement demands SecurityError without a call for every one of them. "
               "A stored type name that type() refuses (NUL / surrogate) gives ValueError through the bare "
               "exception_to_python and ValidationError through TaskiqResult: counted as a validation error. A loaded exception "
               "class whose own constructor raises a non-Exception BaseException propagates it: excluded in C20_outcome_plain, "
               "characterised in C20_outcome. pydantic's lax-mode acceptance table (which field values are well-typed) is the "
               "harness' choice of realisations, checked by the run, not modelled. The pickle load path runs no validator "
               "(BaseModel.__setstate__), so the gate is not on it. Exception classes taskiq ships itself (every one reachable "
               "through a sys.modules key taskiq / taskiq.*, listed by the driver on every run) are declared with what the plain "
               "Python call cls(*args) does per argument count (CtorTable: accepted counts and the values the constructor adds to "
               ".args by itself, probed outside any load); their stored arguments may name trap objects (module name, class name, "
               "args, text - the shape taskiq's own wrapper class stores) and are data to the model. "
               "Names that walk through a package that is loaded towards a sub-module that is not (listed by the driver on every "
               "run from the packages' search paths, nothing imported: taskiq's own packages, a planted package, the stdlib / "
               "third-party packages a driver process has loaded) must import nothing and stay unresolved; a package that answers "
               "missing attributes itself (PEP 562 __getattr__) is used for this only when it is taskiq's own - what taskiq's "
               "own modules do on attribute lookup is taskiq's behaviour; what third-party hooks (pydantic, anyio) import when a stored "
               "name walks into them is a violation of 'never imports a module that is not already loaded' on the unchanged "
               "tree and is reported as KNOWN-FINDING `foreign_lazy_package` (D13), judged by its own replay on every run. "
               "'Already loaded' is a fact about the loading process: besides the driver processes (everything a test needs fully "
               "imported) the loads are made in fresh interpreters that have imported one list of taskiq modules each (every "
               "module file of taskiq is viewed; one process per distinct resulting sys.modules state that shows a module nobody "
               "has shown yet, plus a few others), with stored errors naming every key of that process' sys.modules. A module whose "
               "code is run during the load counts as imported even if its key was in sys.modules before (a module object "
               "registered without having been executed, importlib.util.LazyLoader, is not a loaded module); module bodies are "
               "seen through an audit hook ('exec' of a module-level code object that belongs to a file), code compiled from "
               "strings is nobody's module. Loads made while a process warms up (payloads naming builtins / os only) are not judged. "
               "Trusted: Coq kernel + vm_compute; the trap objects, the "
               "Exception.__subclasses__() / sys.modules snapshots and the canonicaliser of the driver.",
    rule="case = (environment variant, entry point, payload tree with realisation choices); generated per seed; non-trivial iff "
         "some node's name resolves to a non-exception object, or walks through a loaded package towards a sub-module that is not "
         "loaded, or the tree has nesting depth >= 1, or the load is made in a fresh interpreter that imported a given list of "
         "taskiq modules (the case then names that list); distinct by canonical JSON",
    trusted_base=["model: coq/theories/LoadGate.v (hand-written transcription of exception_to_python and its callers)",
                  "reference behaviour of the constructors of taskiq's own exception classes: the plain call cls(*args) in the "
                  "driver process, outside any load (loadgate_driver.probe_ctor)",
                  "trap objects, observation window (sys.modules difference, audit hook for executed module bodies), the boot "
                  "script of the fresh interpreters and canonicaliser: harness/drivers/loadgate_driver.py",
                  "pydantic validation of Optional[Union[BaseException, ExceptionRepr]] (exercised, summarised as well-typed / "
                  "ill-typed per field), CPython type() name check, getattr"],
    assumptions=["attribute lookup side effects (module __getattr__ of modules that are not taskiq's own, properties) are outside "
                 "the gate (DESIGN.md scope decision)",
                 "objects forging BOTH __class__ (-> type) and __bases__ (-> an exception class) are exception classes as far as "
                 "Python's isinstance + issubclass are concerned (objects forging only one of the two are planted and must be refused)"],
)

MISSING = "__missing__"
ENTRIES = ["direct", "validate", "json"]
UNLOADED = ["lg_unloaded_0", "lg_unloaded_1", "lg_unloaded_pkg", "lg_unloaded_pkg.inner", "colorsys"]
UNLOADED_TYPES = {"colorsys": ["rgb_to_hls", "nothing"]}
SEGS = ["TrapExc", "Boom", "fn", "run", "Inner", "Holder", "inst", "sub", "eval", "system", "Err", "x", "_p", "Ünï",
        "E2", "cls", "obj", "Popen", "loads", "Outer"]


# --------------------------------------------------------------------------- environments
class Ids:
    def __init__(self):
        self.h, self.u = 0, 2000

    def hooked(self):
        self.h += 1
        assert self.h < 900
        return self.h

    def unhooked(self):
        self.u += 1
        return self.u


def auto(ids, kind, **kw):
    return dict(id=ids.unhooked(), kind=kind, auto=True, attrs=[], **kw)


# objects that LOOK like classes to issubclass / isinstance / hand-written class tests without being classes (the driver's
# make_lookalike): instances answering __bases__ (class attribute / instance attribute / property / through a second such
# object / empty / raising), __mro__, every dunder of the class protocol, transparent class proxies around an exception class;
# with `__class__` answered as `type` only in front of a class that is no exception class (an object forging __class__ AND
# exception __bases__ is an exception class as far as Python's own isinstance / issubclass can tell: scope decision)
LOOKS_EXC = ["bases", "bases", "bases-and-mro", "bases-instance-attr", "bases-deep", "bases-property", "proxy", "proxy",
             "answers-class-dunders", "bases-empty", "bases-raise-attributeerror", "bases-raise", "mro-only"]
LOOKS_SPOOF = ["class-spoof", "proxy-class-spoof"]
CLASS_LOOKS = ["checks-true", "checks-false", "checks-raise", "abc-registered"]


def gen_look(r, ids, look=None):
    look = look or r.choice(LOOKS_EXC * 2 + LOOKS_SPOOF * 3)
    wraps = r.choice(["object", "dict"]) if look in LOOKS_SPOOF else \
        r.choice(["Exception", "BaseException", "ValueError", "KeyError", "SystemExit"])
    return dict(id=ids.hooked(), kind="inst", of="look", look=look, wraps=wraps, callable=True, attrs=[])


def gen_obj(r, ids, depth, kind=None):
    kind = kind or r.choice(["exc"] * 5 + ["class"] * 3 + ["func"] * 3 + ["inst"] * 4 + ["module"] * 2)
    sp = dict(id=ids.hooked(), kind=kind, attrs=[])
    nattr = 0
    if kind == "exc":
        c = r.random()
        sp["ctor"] = "any" if c < .55 else ["arity", r.randint(0, 3)] if c < .8 else "never" if c < .9 else "base"
        sp["hook"] = r.choice(["new", "meta"]) if isinstance(sp["ctor"], list) else r.choice(["new", "init", "meta"])
        sp["base"] = r.choice(["Exception", "Exception", "BaseException", "ValueError", "KeyError", "SystemExit"])
        nattr = r.choice([0, 0, 1, 2])
        if r.random() < .1:
            sp["look"] = r.choice(CLASS_LOOKS)
    elif kind == "class":
        sp["hook"] = r.choice(["new", "init", "meta"])
        nattr = r.choice([0, 1, 2, 3])
        if r.random() < .15:
            sp["look"] = r.choice(CLASS_LOOKS)
    elif kind == "func":
        nattr = r.choice([0, 0, 1])
    elif kind == "module":
        nattr = r.randint(2, 5)
    elif kind == "inst":
        of = r.choice(["plain", "callable", "callable", "exc", "method", "property", "str", "int", "none", "tuple", "dict",
                       "look", "look"])
        if of == "look":
            return gen_look(r, ids)
        sp["of"] = of
        sp["callable"] = of in ("callable", "method")
        nattr = r.choice([0, 1, 2]) if of in ("plain", "callable") else 0
        if of == "exc":
            cls = dict(id=ids.hooked(), kind="exc", auto=True, ctor="any", hook=r.choice(["new", "init", "meta"]),
                       base=r.choice(["Exception", "ValueError", "BaseException"]), attrs=[])
            sp["attrs"].append(["__class__", cls])
            if r.random() < .5:
                sp["attrs"].append(["args", auto(ids, "inst", of="tuple", callable=False)])
    if depth >= 3:
        nattr = 0
    used = {s for s, _ in sp["attrs"]}
    for _ in range(nattr):
        seg = r.choice([s for s in SEGS if s not in used])
        used.add(seg)
        ck = None
        if kind == "inst":
            ck = r.choice(["func", "exc", "class", "inst"])       # instance attributes
        child = gen_obj(r, ids, depth + 1, ck)
        if child["kind"] == "module" and kind != "module":
            child = gen_obj(r, ids, depth + 1, "func")
        sp["attrs"].append([seg, child])
    # attributes Python provides by itself
    if r.random() < .5:
        if kind == "func":
            sp["attrs"] += r.sample([["__name__", auto(ids, "inst", of="str", callable=False)],
                                     ["__call__", auto(ids, "inst", of="method-wrapper", callable=True, fresh=True)],
                                     ["__class__", auto(ids, "class")],
                                     ["__doc__", auto(ids, "inst", of="none", callable=False)]], r.randint(1, 2))
        elif kind in ("class", "exc"):
            if sp["hook"] != "init" and r.random() < .5:     # the probe's `TrapExc.__init__`: a callable that is no type
                sp["attrs"].append(["__init__", auto(ids, "inst", of="init", callable=True)])
            sp["attrs"] += r.sample([["__name__", auto(ids, "inst", of="str", callable=False)],
                                     ["__mro__", auto(ids, "inst", of="tuple", callable=False)],
                                     ["__class__", auto(ids, "class")],
                                     ["__dict__", auto(ids, "inst", of="mappingproxy", callable=False, fresh=True)]],
                                    r.randint(1, 2))
        elif kind == "module":
            sp["attrs"] += r.sample([["__name__", auto(ids, "inst", of="str", callable=False)],
                                     ["__dict__", auto(ids, "inst", of="dict", callable=False)],
                                     ["__doc__", auto(ids, "inst", of="none", callable=False)]], 1)
        elif kind == "inst" and sp["of"] in ("plain", "callable"):
            sp["attrs"].append(["__class__", auto(ids, "class")])
    return sp


def real_modules():
    """the declared view of four real modules; ids >= 1000 are untouched real objects, 900.. are replaced by traps
    for the duration of the observation window"""
    def real(i, kind, attrs=(), **kw):
        return dict(id=i, kind=kind, auto=True, attrs=[list(a) for a in attrs], **kw)
    exc_any = dict(ctor="any")
    return [
        dict(name="builtins", real_module=True, obj=real(1000, "module", [
            ("ValueError", real(1001, "exc", **exc_any)), ("KeyError", real(1002, "exc", **exc_any)),
            ("Exception", real(1003, "exc", **exc_any)), ("BaseException", real(1004, "exc", **exc_any)),
            ("SystemExit", real(1005, "exc", **exc_any)), ("KeyboardInterrupt", real(1006, "exc", **exc_any)),
            ("object", real(1007, "class")), ("type", real(1008, "class")), ("dict", real(1009, "class")),
            ("len", real(1010, "builtin")), ("repr", real(1011, "builtin")),
            ("eval", dict(id=903, kind="builtin", patch=True, attrs=[])),
            ("exec", dict(id=904, kind="builtin", patch=True, attrs=[])),
            ("True", real(1012, "inst", callable=False)), ("__name__", real(1013, "inst", callable=False)),
            ("UnicodeDecodeError", real(1014, "exc", ctor="never")),
        ])),
        dict(name="os", real_module=True, obj=real(1100, "module", [
            ("system", dict(id=900, kind="func", patch=True, attrs=[])),
            ("path", real(1101, "module", [("join", real(1102, "func")), ("sep", real(1103, "inst", callable=False))])),
            ("environ", real(1104, "inst", callable=False)),
        ])),
        dict(name="subprocess", real_module=True, obj=real(1200, "module", [
            ("Popen", dict(id=901, kind="class", patch=True, hook="new", attrs=[])),
            ("run", dict(id=902, kind="func", patch=True, attrs=[])),
            ("SubprocessError", real(1201, "exc", **exc_any)), ("PIPE", real(1202, "inst", callable=False)),
        ])),
        dict(name="json", real_module=True, obj=real(1300, "module", [
            ("decoder", real(1301, "module", [("JSONDecodeError", real(1302, "exc", ctor="never")),
                                               ("JSONDecoder", real(1303, "class"))])),
            ("loads", real(1304, "func")),
        ])),
        dict(name="os.path", real_module=True, obj=real(1101, "module", [("join", real(1102, "func"))])),
    ]


# --------------------------------------------------------------------------- what taskiq itself ships
TQ_BASE, ARG_TAB, ARG_CONST = 3000, 1000, 5000
WRAPPER_REF = ("taskiq.serialization", "_UnpickleableExceptionWrapper")


def known_real_paths():
    out = []

    def rec(mod, path, sp):
        out.append([mod, path, sp["id"]])
        for s_, c in sp["attrs"]:
            if not c.get("patch"):
                rec(mod, path + [s_], c)
    for m in real_modules():
        rec(m["name"], [], m["obj"])
    return out


def canon(v):
    return json.dumps(v, sort_keys=True)


def taskiq_view(disc):
    """the declared view of taskiq's own modules, built from the driver's discovery (object identities, Python's own
    classification, and what the plain call cls(*args) does per argument count): (mods, argconst, stats)"""
    declared = {}
    for m in real_modules():
        for _m, _p, sp in env_paths(dict(mods=[m])):
            declared.setdefault(sp["id"], sp)
    argconst, codes, stats = [], {}, dict(classes=set(), dropped=set(), paths=0)

    def code(v):
        if canon(v) not in codes:
            codes[canon(v)] = ARG_CONST + len(argconst)
            argconst.append(v)
        return codes[canon(v)]

    def spec(e):
        i = e["obj"]
        if i in declared:
            sp = {k: v for k, v in declared[i].items() if k != "attrs"}
        else:
            sp = dict(id=i, kind=e["kind"], auto=True)
            if e["kind"] == "inst":
                sp["callable"] = bool(e["callable"])
            if e["kind"] == "exc":
                rows = e["rows"]
                if any(x[0] == "skip" for x in rows):
                    stats["dropped"].add(e["label"])
                    return None
                if all(x == ["ok", []] for x in rows):
                    sp["ctor"] = "any"
                elif all(x[0] == "raises" for x in rows):
                    sp["ctor"] = "never"
                else:
                    sp["ctor"] = ["table", [[n, [code(v) for v in x[1]]] for n, x in enumerate(rows) if x[0] == "ok"]]
                stats["classes"].add(e["label"])
        sp["attrs"] = []
        for c in e["children"]:
            csp = spec(c)
            if csp is not None:
                sp["attrs"].append([c["seg"], csp])
                stats["paths"] += csp["kind"] == "exc"
        return sp
    mods = [dict(name=m["name"], real_module=True, view="taskiq",
                 obj=spec(dict(obj=m["obj"], kind="module", children=m["children"]))) for m in disc["modules"]]
    return mods, argconst, dict(classes=sorted(stats["classes"]), dropped=sorted(stats["dropped"]), exception_paths=stats["paths"])


def accepted_counts(sp):
    ct = sp.get("ctor", "any")
    if ct == "any":
        return [1, 2, 3, 4, 4, 5]
    if isinstance(ct, list):
        return [ct[1]] if ct[0] == "arity" else [n for n, _x in ct[1]]
    return []


def core_module(r, ids):
    """one object of every kind / constructor behaviour, so that every model branch is reachable in every environment"""
    def exc(ctor, **kw):
        hook = r.choice(["new", "meta"]) if isinstance(ctor, list) else r.choice(["new", "init", "meta"])
        return dict(id=ids.hooked(), kind="exc", ctor=ctor, hook=hook, attrs=[],
                    base=r.choice(["Exception", "BaseException", "ValueError"]), **kw)
    inner = exc("any")
    holder = dict(id=ids.hooked(), kind="class", hook=r.choice(["new", "init", "meta"]),
                  attrs=[["inner", inner], ["fn", dict(id=ids.hooked(), kind="func", attrs=[])],
                         ["cls", dict(id=ids.hooked(), kind="class", hook=r.choice(["new", "init", "meta"]), attrs=[])],
                         ["traced", gen_look(r, ids)]])
    ecls = dict(id=ids.hooked(), kind="exc", auto=True, ctor="any", hook=r.choice(["new", "init", "meta"]), base="Exception",
                attrs=[])
    attrs = [["TrapExc", exc("any")], ["Arity", exc(["arity", r.randint(0, 3)])], ["Never", exc("never")],
             ["Interrupts", exc("base")], ["Holder", holder],
             ["trapfn", dict(id=ids.hooked(), kind="func", attrs=[])],
             ["callme", dict(id=ids.hooked(), kind="inst", of="callable", callable=True, attrs=[])],
             ["thing", dict(id=ids.hooked(), kind="inst", of="plain", callable=False, attrs=[])],
             ["err", dict(id=ids.hooked(), kind="inst", of="exc", callable=False, attrs=[["__class__", ecls]])],
             ["part", dict(id=ids.hooked(), kind="module", attrs=[["trapfn", dict(id=ids.hooked(), kind="func", attrs=[])],
                                                                  ["Deep", exc("any")]])],
             # not classes, but they answer the class protocol: a transparent proxy around an exception class, an instance
             # that claims exception bases, one more of any variant; real classes with an odd metaclass
             ["TracedError", gen_look(r, ids, "proxy")],
             ["claims", gen_look(r, ids, r.choice(LOOKS_EXC[:9]))],
             ["lookalike", gen_look(r, ids)],
             ["OddMeta", dict(id=ids.hooked(), kind="class", hook=r.choice(["new", "init", "meta"]), look=r.choice(CLASS_LOOKS),
                              attrs=[])],
             ["OddMetaError", exc("any", look=r.choice(CLASS_LOOKS))]]
    return dict(id=ids.hooked(), kind="module", attrs=attrs)


def gen_env(r, k, view=None):
    ids = Ids()
    mods = [dict(name="lgm%d_core" % k, obj=core_module(r, ids))]
    for j in range(r.randint(2, 3)):
        name = "lgm%d_%d" % (k, j)
        mods.append(dict(name=name, obj=gen_obj(r, ids, 0, "module")))
    # a submodule registered under its dotted key; sometimes also an attribute of its parent, sometimes not
    parent = mods[1]
    sub = gen_obj(r, ids, 1, "module")
    mods.append(dict(name=parent["name"] + ".sub", obj=sub))
    if r.random() < .6 and all(s != "sub" for s, _ in parent["obj"]["attrs"]):
        parent["obj"]["attrs"].append(["sub", sub])
    if view:
        return dict(mods=mods + real_modules() + view[0], argconst=view[1])
    return dict(mods=mods + real_modules())


def env_paths(env, view=None):
    """every declared object with the (module key, attribute path) that reaches it (view: None = all modules,
    "" = all but the discovered taskiq view, "taskiq" = that view only)"""
    out = []

    def rec(mod, path, sp):
        out.append((mod, path, sp))
        for s, c in sp["attrs"]:
            rec(mod, path + [s], c)
    for m in env["mods"]:
        if view is None or m.get("view", "") == view:
            rec(m["name"], [], m["obj"])
    return out


# --------------------------------------------------------------------------- arguments that mention trap objects
class Tab:
    """the case's own argument table: JSON value <-> argument number (values the environment's constant table already
    holds keep that number)"""

    def __init__(self, argconst=()):
        self.const = {canon(v): ARG_CONST + i for i, v in enumerate(argconst)}
        self.tab, self.codes = [], {}

    def code(self, v):
        assert not (isinstance(v, str) and v.startswith("echo ")), v
        k = canon(v)
        if k in self.const:
            return self.const[k]
        if k not in self.codes:
            self.codes[k] = ARG_TAB + len(self.tab)
            self.tab.append(v)
        return self.codes[k]


PATCHED = [("subprocess", ["Popen"]), ("os", ["system"]), ("builtins", ["eval"]), ("subprocess", ["run"]), ("builtins", ["exec"])]


def trap_target(r, paths):
    """(module key, dotted attribute name) of a planted / patched object, leaning towards what a single getattr on a
    loaded module reaches and towards classes that are no exception classes"""
    tops = [p for p in paths if len(p[1]) == 1 and p[2]["id"] < 1000]
    k = r.random()
    if k < .45:
        pool = [p for p in tops if p[2]["kind"] == "class"] or tops
    elif k < .7:
        pool = [p for p in tops if p[2]["kind"] != "exc"] or tops
    elif k < .88:
        pool = [p for p in paths if p[1] and p[2]["id"] < 1000]
    else:
        pool = PATCHED
    t = r.choice(pool)
    return t[0], ".".join(t[1])


def rich_single(r, paths, depth=0):
    md, nm = trap_target(r, paths)
    k = r.randrange(7 if depth < 2 else 3)
    if k == 0:
        return md + "." + nm
    if k == 1:
        return md + ":" + nm
    if k == 2:
        return [md, nm]
    inner, text = rich_inner(r, paths, depth + 1), r.choice(["stored text", "", "boom", md + "." + nm])
    if k == 3:
        return [md, nm, inner, text]
    if k == 4:
        return dict(exc_type=nm, exc_module=md, exc_message=inner)
    if k == 5:
        return dict(exc_type=WRAPPER_REF[1], exc_module=WRAPPER_REF[0], exc_message=[md, nm, inner, text])
    return dict(exc_type="ValueError", exc_module="builtins", exc_message=["outer"],
                exc_cause=dict(exc_type=nm, exc_module=md, exc_message=inner))


def rich_inner(r, paths, depth):
    out = []
    for _ in range(r.choice([0, 1, 1, 2])):
        out.append("echo %d" % r.randint(0, 40) if depth >= 2 or r.random() < .75 else rich_single(r, paths, depth))
    return out


def rich_args(r, paths, n, tab):
    """n argument numbers whose values name trap objects the way taskiq's own wrapper stores a class:
    (module, class name, args, text) and its prefixes, then single values of every shape"""
    if n == 0:
        return []
    md, nm = trap_target(r, paths)
    text = r.choice(["stored text", "", "boom", md + "." + nm])
    vals = [rich_single(r, paths)] if n == 1 else [md, nm, rich_inner(r, paths, 1), text][:min(n, 4)]
    out = [tab.code(v) for v in vals]
    while len(out) < n:
        out.append(r.randint(0, 40) if r.random() < .5 else tab.code(rich_single(r, paths)))
    return out


# --------------------------------------------------------------------------- loaded packages, unloaded sub-modules
MADE_UP = ["NoSuchError", "zz_absent", "Boom", "main", "run", "Error"]


def lazy_targets(view):
    """flatten the driver's list (special: lazy_view) into targets: a loaded package, one first segment that Python's own
    getattr cannot resolve on it without an import (a sub-module file that is not loaded; a name its __all__ promises but
    does not bind), the ways to arrive at the package from a sys.modules key, what could follow the segment.
    A package that answers missing attributes itself (PEP 562 __getattr__, module subclass) is used only when it is
    taskiq's own: what somebody else's attribute hook does is Python's getattr (scope decision in DESIGN.md)"""
    out, skipped = [], []
    for p in view["packages"]:
        if p["hook"] and p["owner"] != "taskiq":
            skipped.append(p["pkg"])
            continue
        for u in p["unloaded"]:
            out.append(dict(pkg=p["pkg"], seg=u["name"], owner=p["owner"], roots=p["roots"], names=u["names"],
                            children=[dict(name=c["name"], names=c["names"]) for c in u["children"]], how="submodule"))
        for n in p["declared"]:
            if all(n != u["name"] for u in p["unloaded"]):
                out.append(dict(pkg=p["pkg"], seg=n, owner=p["owner"], roots=p["roots"], names=[], children=[], how="declared"))
    return out, skipped


def pick_lazy(r, lazy):
    k = r.random()
    want = "taskiq" if k < .5 else "planted" if k < .7 else "other"
    return r.choice([t for t in lazy if t["owner"] == want] or lazy)


def lazy_name(r, t):
    """(exc_module, exc_type, shape) for a target"""
    chain, names = [t["seg"]], t["names"]
    if t["children"] and r.random() < .4:
        c = r.choice(t["children"])
        chain, names = chain + [c["name"]], c["names"]
    attr = r.choice(names) if names and r.random() < .6 else r.choice(MADE_UP)
    if t["how"] == "submodule" and r.random() < .2:
        # the sub-module that is not loaded named as the module itself
        return ".".join([t["pkg"]] + chain), (attr if r.random() < .8 else attr + ".Inner"), "module-named-directly"
    root, walk = r.choice(t["roots"]) if r.random() < .5 else t["roots"][0]
    tail = chain + ([attr] if r.random() < .9 else [])
    return root, ".".join(walk + tail), ("through-an-ancestor" if walk else "package-attribute")


# --------------------------------------------------------------------------- payloads
BAD = dict(
    ty=[MISSING, 5, None, ["x"], {"a": 1}, 1.5, True],
    md=[MISSING, 7, ["os"], {}, False, 2.5],
    args=[MISSING, "abc", 5, None, {"a": 1}, True],
    sup=["maybe", None, 2, [], 1.5, {}],
)
JUNK = [0, "", "abc", [], [1], False, True, 1.5, {}, {"exc_type": "ValueError"}]
SUP_AS = {True: [True, 1, "yes", "true", "1", "on"], False: [False, 0, "no", "off", MISSING, MISSING]}


def gen_node(r, env, paths, entry, depth, cat=None, gx=None):
    """one well-formed dict node (children filled by the caller); gx = (paths of the taskiq view, the case's Tab,
    the lazy targets)"""
    tq, tab, lazy = (tuple(gx) + ([],))[:3] if gx else ([], None, [])
    cat = cat or r.choice(["exc"] * 9 + ["nonexc"] * 5 + ["unres"] * 5 + ["badname"] + (["tq"] * 2 if tq else [])
                          + (["lazy"] * 2 if lazy else []))
    excs = [p for p in paths if p[2]["kind"] == "exc" and p[1]]
    nonexc = [p for p in paths if p[2]["kind"] != "exc"]
    nargs = rich = target = None
    if cat == "lazy":
        # a walk that passes through packages that ARE loaded towards a sub-module that is NOT: nothing may get imported,
        # the name stays unresolved
        target = pick_lazy(r, lazy)
        md, ty, shape = lazy_name(r, target)
    elif cat == "tq":
        # names that resolve into what taskiq itself ships: its exception classes (constructors that do more than store
        # their arguments) through every module that exposes them, now and then its functions / classes / modules
        tqexc = [p for p in tq if p[2]["kind"] == "exc"]
        wide = [p for p in tqexc if max(accepted_counts(p[2]) or [0]) >= 2]
        k = r.random()
        mod, path, sp = r.choice(wide if k < .45 and wide else tqexc if k < .8 and tqexc else tq)
        md, ty = mod, ".".join(path)
        acc = accepted_counts(sp) if sp["kind"] == "exc" else []
        nargs = r.choice(acc) if acc and r.random() < .8 else r.choice([0, 1, 2, 3, 4, 5])
        rich = r.random() < .85
    elif cat == "exc":
        mod, path, _sp = r.choice(excs)
        md, ty = mod, ".".join(path)
    elif cat == "nonexc":
        looks = [p for p in nonexc if p[2].get("look")] if r.random() < .15 else []
        mod, path, _sp = r.choice(looks or nonexc)
        md, ty = mod, ".".join(path)          # a module itself: path = [] -> ty "" -> getattr(mod, "") fails -> synthetic
    elif cat == "unres":
        k = r.random()
        mod, path, _sp = r.choice(paths)
        if k < .2:
            md, ty = None, r.choice(["Synth", "a.b", "", "ValueError", "system"])
        elif k < .45:
            md = r.choice(["lg_absent_mod", "", mod + ".Holder", "os.nothing", "builtins.ValueError", mod.upper()] + UNLOADED)
            ty = r.choice(UNLOADED_TYPES.get(md, ["Boom", "fn", "Thing", "ValueError", "inner.Boom", "inner"]))
        else:
            junk = r.choice(["zz_absent", "", "zz_absent.fn", "__zz__"])
            cut = r.randint(0, len(path))
            segs = path[:cut] + [junk] + (path[cut:] if r.random() < .3 else [])
            md, ty = mod, ".".join(segs)
    else:
        bad = "\x00" if entry == "json" or r.random() < .5 else "\ud800"
        md, ty = r.choice([None, "lg_absent_mod", r.choice(paths)[0]]), r.choice(["A%sB", "%s", "a.%s"]) % bad
    if nargs is None:
        nargs = r.choice([0, 1, 1, 2, 2, 3, 5])
        rich = tab is not None and r.random() < .06     # any class / synthetic class / refused object with such arguments
        if rich and r.random() < .5:
            nargs = r.choice([3, 4, 4])
    args = rich_args(r, paths, nargs, tab) if rich and tab is not None else [r.randint(0, 40) for _ in range(nargs)]
    sup = r.random() < .5
    node = dict(k="dict", ty=dict(ok=ty), md=dict(ok=md), args=dict(ok=args), sup=dict(ok=sup, **{"as": r.choice(SUP_AS[sup])}),
                cause=dict(k="none"), ctx=dict(k="none"))
    if entry != "json":
        if r.random() < .05 and ty.isascii():
            node["ty"]["bytes"] = True
        if r.random() < .05 and md is not None and md.isascii():
            node["md"]["bytes"] = True
        if r.random() < .3:
            node["args"]["tuple"] = True
    if r.random() < .15:
        node["extra"] = r.choice([{"exc_extra": 1}, {"__class__": "os.system"}, {"exc_traceback": ["x"]}, {"cls": "eval"}])
    if target is not None:
        node["lazy"] = dict(pkg=target["pkg"], seg=target["seg"], owner=target["owner"], how=target["how"], shape=shape)
    return node


def gen_inst(r, ids, paths=None, gx=None):
    if r.random() < .45:
        bad = r.random() < .12
        nm = r.choice(["Wrapped", "a.b", "", "N\x00m" if bad else "Nm", "Ü"])
        md = r.choice(["mm", "some.module", "builtins", ""])
        args = [r.randint(0, 40) for _ in range(r.randint(0, 2))]
        if gx and paths and r.random() < .4:            # a stored wrapper instance that names a loaded trap object
            md, nm = trap_target(r, paths)
            if r.random() < .4:
                args = rich_args(r, paths, r.randint(1, 3), gx[1])
        return dict(k="inst", i=dict(wrapper=[nm, md, args]))
    ids[0] += 1
    return dict(k="inst", i=dict(plain=ids[0], cls=r.choice(["ValueError", "KeyError", "KeyboardInterrupt", "Exception"]),
                                 chain=r.random() < .3))


def gen_tree(r, env, paths, entry, depth, ids, top=True, gx=None):
    if not top:
        k = r.random()
        if k < .08 and entry != "json":
            return gen_inst(r, ids, paths, gx)
    # nested nodes lean towards loadable names so that deep trees are actually walked
    cat = None if top or r.random() < .45 else r.choice(["exc", "exc", "unres"])
    node = gen_node(r, env, paths, entry, depth, cat, gx)
    if depth > 0:
        if r.random() < .7:
            node["cause"] = gen_tree(r, env, paths, entry, depth - 1, ids, False, gx)
        if r.random() < .5:
            node["ctx"] = gen_tree(r, env, paths, entry, depth - 1, ids, False, gx)
        if node["cause"]["k"] == "none" and node["ctx"]["k"] == "none":
            node[r.choice(["cause", "ctx"])] = gen_tree(r, env, paths, entry, depth - 1, ids, False, gx)
    for key in ("cause", "ctx"):
        if node[key]["k"] == "none":
            node[key]["omit"] = r.random() < .6
    return node


def nodes_of(raw, path=()):
    yield path, raw
    if raw["k"] == "dict":
        yield from nodes_of(raw["cause"], path + ("cause",))
        yield from nodes_of(raw["ctx"], path + ("ctx",))


def malform(r, raw, entry):
    """make one node of the tree ill-typed"""
    raw = copy.deepcopy(raw)
    cands = [(p, n) for p, n in nodes_of(raw) if n["k"] in ("dict", "none")]
    p, n = r.choice(cands)
    junk = [j for j in JUNK]
    if n["k"] == "none" or r.random() < .3:
        new = dict(k="junk", v=r.choice(junk))
        if not p:
            return new
        parent = raw
        for key in p[:-1]:
            parent = parent[key]
        parent[p[-1]] = new
        return raw
    f = r.choice(["ty", "md", "args", "sup"])
    n[f] = dict(bad=r.choice(BAD[f]))
    return raw


def wellformed(raw):
    if raw["k"] == "junk":
        return False
    if raw["k"] == "dict":
        return all("ok" in raw[f] for f in ("ty", "md", "args", "sup")) and wellformed(raw["cause"]) and wellformed(raw["ctx"])
    return True


def mark_as_obj(r, raw):
    """realise some well-formed sub-trees as ExceptionRepr objects instead of dicts (never for the JSON entry)"""
    if raw["k"] == "dict":
        if wellformed(raw) and r.random() < .12 and not has_bad_name(raw):
            raw["as_obj"] = True
            return
        mark_as_obj(r, raw["cause"])
        mark_as_obj(r, raw["ctx"])


def has_bad_name(raw):
    return any(n["k"] == "dict" and "ok" in n["ty"] and isinstance(n["ty"]["ok"], str) and not name_ok(n["ty"]["ok"])
               for _, n in nodes_of(raw))


def gen_case(r, envs):
    k = r.randrange(len(envs))
    env, paths, tq = envs[k][:3]
    gx = (tq, Tab(env.get("argconst", ())), envs[k][3] if len(envs[k]) > 3 else [])
    entry = r.choice(ENTRIES)
    d = r.random()
    depth = 0 if d < .3 else 1 if d < .6 else 2 if d < .8 else 3 if d < .92 else 4
    t = r.random()
    ids = [0]
    if t < .02:
        raw = dict(k="none")
    elif t < .06 and entry != "json":
        raw = gen_inst(r, ids, paths, gx)
    else:
        raw = gen_tree(r, env, paths, entry, depth, ids, gx=gx)
        if r.random() < .15:
            raw = malform(r, raw, entry)
        if entry != "json":
            mark_as_obj(r, raw)
    return dict(env_id=k, env=env, entry=entry, raw=raw, argtab=gx[1].tab, lazy=lazy_of(raw))


def lazy_nodes(raw):
    return [(p, n) for p, n in nodes_of(raw) if n["k"] == "dict" and "lazy" in n]


def lazy_of(raw):
    """the sub-modules the driver must find (or make) unloaded while it loads this payload"""
    return sorted({(n["lazy"]["pkg"], n["lazy"]["seg"]) for _p, n in lazy_nodes(raw)})


# --------------------------------------------------------------------------- direct oracle (independent of the model)
def name_ok(s):
    return all(ord(c) != 0 and not 0xD800 <= ord(c) <= 0xDFFF for c in s)


def py_resolve(env, md, ty):
    """literal reading of 'the name resolves to ...' over the declared environment"""
    if md is None:
        return "nomodule", None
    mods = {m["name"]: m["obj"] for m in env["mods"]}
    if md not in mods:
        return "absent", None
    sp = mods[md]
    for seg in ty.split("."):
        nxt = [c for s, c in sp["attrs"] if s == seg]
        if not nxt:
            return "missing", None
        sp = nxt[0]
    return "found", sp


def all_specs(env):
    return {sp["id"]: sp for _m, _p, sp in env_paths(env)}


def depth_of(raw):
    return 0 if raw["k"] != "dict" else 1 + max(depth_of(raw["cause"]), depth_of(raw["ctx"]))


def res_at(tree, path):
    for d in path:
        if not (isinstance(tree, list) and tree and tree[0] == "new"):
            return "nopath"
        tree = tree[3 + d]
    return tree


def oracle(case, obs):
    """list of (what, sig) for every clause of the statement this observation breaks"""
    out = []
    env, raw, entry = case["env"], case["raw"], case["entry"]
    specs = all_specs(env)
    res = obs["res"]
    kind = res[0]
    # "never calls a function or instantiates a class that is not a BaseException subclass"
    for e in obs["eff"]:
        if e[0] == "call":
            out.append(("load called a resolved object that is not an exception class", dict(clause="call", kind=specs[e[1]]["kind"])))
        elif e[0] == "inst" and specs[e[1]]["kind"] != "exc":
            out.append(("load instantiated a class that is not a BaseException subclass", dict(clause="instantiate")))
    # "never imports a module that is not already loaded"
    imported = imported_by(obs)
    if imported:
        out.append(("load imported a module that was not loaded", dict(clause="import", modules=imported[:3])))
    # "either yields an exception instance or fails with a security/validation error"
    if kind == "ok":
        if (res[1] is None) != (raw["k"] == "none"):
            out.append(("load returned None for a stored error / an exception for None", dict(clause="outcome")))
    elif kind in ("security", "validation"):
        pass
    elif kind == "valueerror":
        names = [n["ty"]["ok"] for _, n in nodes_of(raw) if n["k"] == "dict" and "ok" in n["ty"]]
        names += [n["i"]["wrapper"][0] for _, n in nodes_of(raw) if n["k"] == "inst" and "wrapper" in n["i"]]
        if entry != "direct" or all(name_ok(x) for x in names if isinstance(x, str)):
            out.append(("load failed with a ValueError that is no validation error", dict(clause="outcome")))
    elif kind == "propagated":
        sp = specs.get(res[1])
        if not (sp and sp["kind"] == "exc" and sp.get("ctor") == "base"):
            out.append(("a BaseException escaped the load", dict(clause="outcome")))
    else:
        out.append(("load neither yields an exception instance nor fails with a security/validation error",
                    dict(clause="outcome", detail=str(res[1])[:80])))
    # "a type that cannot be resolved yields a synthetic exception class of that name" (every node of a loaded tree)
    if kind == "ok" and res[1] is not None:
        def walk(n, t):
            if n["k"] != "dict" or not (isinstance(t, list) and t[0] == "new"):
                return
            how, _sp = py_resolve(env, n["md"]["ok"], n["ty"]["ok"] if isinstance(n["ty"]["ok"], str) else "")
            if how != "found":
                want = ["synth", n["ty"]["ok"], "ser" if how == "nomodule" else "exc"]
                if t[1] != want:
                    out.append(("an unresolvable type did not yield a synthetic exception class of that name",
                                dict(clause="unresolved")))
            walk(n["cause"], t[3])
            walk(n["ctx"], t[4])
        walk(raw, res[1])
    # "at any nesting level": a nested payload is treated as the same payload at top level
    for path, r2, m2 in obs.get("nested", []):
        if m2:
            out.append(("load imported a module that was not loaded", dict(clause="import", modules=m2[:3])))
        if kind == "ok":
            if r2[0] != "ok" or res_at(res[1], path) != r2[1]:
                out.append(("a nested payload was not treated as the same payload at top level", dict(clause="nested")))
    return out


def imported_by(obs):
    """new keys of sys.modules, and modules whose code was run during the load although their key was there already (a
    module object registered without having been executed is not a loaded module)"""
    return [m for m in obs.get("executed", []) if m not in obs["newmods"]] + obs["newmods"]


def rich_nodes(raw):
    """nodes one of whose arguments is a value of the case's own table (it names a trap object)"""
    out = []
    for _, n in nodes_of(raw):
        a = n["args"].get("ok", []) if n["k"] == "dict" else n["i"]["wrapper"][2] if n["k"] == "inst" and "wrapper" in n["i"] else []
        if any(isinstance(x, int) and x >= ARG_TAB for x in a):
            out.append(n)
    return out


def nontrivial(case):
    if case.get("fresh"):
        return True
    if depth_of(case["raw"]) >= 2 or rich_nodes(case["raw"]) or lazy_nodes(case["raw"]):
        return True
    for _, n in nodes_of(case["raw"]):
        if n["k"] == "dict" and "ok" in n["ty"] and "ok" in n["md"] and isinstance(n["ty"]["ok"], str):
            how, sp = py_resolve(case["env"], n["md"]["ok"], n["ty"]["ok"])
            if how == "found" and sp["kind"] != "exc":
                return True
    return False


# --------------------------------------------------------------------------- Coq literals
def cname(s):
    if isinstance(s, bytes):
        s = s.decode()
    return "[" + "; ".join(str(ord(c)) for c in s) + "]"


def ckind(sp):
    k = sp["kind"]
    if k == "exc":
        c = sp.get("ctor", "any")
        if isinstance(c, list) and c[0] == "table":
            return "(KExc (CtorTable [%s]))" % "; ".join("(%d%%nat, %s)" % (n, cargs(x)) for n, x in c[1])
        return "(KExc %s)" % ("(CtorArity %d%%nat)" % c[1] if isinstance(c, list) else
                              {"any": "CtorAny", "never": "CtorNever", "base": "CtorRaisesBase"}[c])
    if k == "inst":
        return "(KInst %s)" % C.cb(sp.get("callable"))
    return {"class": "KClass", "func": "KFunc", "builtin": "KBuiltin", "module": "KModule"}[k]


def cobj(sp):
    return "(Obj %d %s [%s])" % (sp["id"], ckind(sp), "; ".join("(%s, %s)" % (cname(s), cobj(c)) for s, c in sp["attrs"]))


def cenv(env, shared=None):
    """shared: dict filled with the definitions of the discovered taskiq view (the same in every environment of a run),
    so that its literal is written once per Coq file"""
    own = [m for m in env["mods"] if shared is None or not m.get("view")]
    lit = "[" + ";\n  ".join("(%s, %s)" % (cname(m["name"]), cobj(m["obj"])) for m in own) + "]"
    view = [m for m in env["mods"] if m.get("view")] if shared is not None else []
    if view:
        key = canon(view)
        if key not in shared:
            shared[key] = ("tq_view_%d" % len(shared), cenv(dict(mods=view)))
        lit = "(%s ++ %s)" % (lit, shared[key][0])
    return lit


def cfld(f, pr):
    return "(FOk %s)" % pr(f["ok"]) if "ok" in f else "FBad"


def cargs(a):
    return "[" + "; ".join(str(x) for x in a) + "]"


def craw(r):
    k = r["k"]
    if k == "none":
        return "RNone"
    if k == "junk":
        return "RJunk"
    if k == "inst":
        i = r["i"]
        if "wrapper" in i:
            return "(RInst (IWrapper %s %s %s))" % (cname(i["wrapper"][0]), cname(i["wrapper"][1]), cargs(i["wrapper"][2]))
        return "(RInst (IPlain %d))" % i["plain"]
    return "(RDict %s %s %s %s %s %s)" % (
        cfld(r["ty"], cname), cfld(r["md"], lambda m: C.copt(m, cname)), cfld(r["args"], cargs),
        cfld(r["sup"], C.cb), craw(r["cause"]), craw(r["ctx"]))


def csmod(m):
    return {"ser": "SMSer", "exc": "SMExc"}[m] if isinstance(m, str) else "(SMNamed %s)" % cname(m[1])


def cexn(t):
    if t is None:
        return "None"
    if t[0] == "old":
        return "(Some (XOld %d))" % t[1]
    ref = t[1]
    cr = "(CEnv %d)" % ref[1] if ref[0] == "env" else "CFallback" if ref[0] == "fallback" else \
        "(CSynth %s %s)" % (cname(ref[1]), csmod(ref[2]))
    return "(Some (XNew %s %s %s %s %s))" % (cr, cargs(t[2]), cexn(t[3]), cexn(t[4]), C.cb(t[5]))


def cres(res):
    k = res[0]
    if k == "ok":
        return "(ROk %s)" % cexn(res[1])
    if k == "propagated":
        return "(RPropagated %d)" % res[1]
    return {"security": "RSecurity", "validation": "RValidation", "valueerror": "RValueError"}.get(k, "RWeird")


def ceff(obs):
    out = []
    for e in obs["eff"]:
        if e[0] == "inst":
            out.append("(OInst %d)" % e[1])
        elif e[0] == "call":
            out.append("(OCall %d)" % e[1])
        else:
            out.append("(OSynth %s %s)" % (cname(e[1]), csmod(e[2])))
    out += ["(OImport %s)" % cname(m) for m in imported_by(obs)]
    return "[" + "; ".join(out) + "]" if out else "(@nil oeffect)"


COQ_HEADER = """From Coq Require Import List NArith Bool. Import ListNotations.
From TQ Require Import LoadGate.
Open Scope N_scope.
"""
COQ_BODY = """Fixpoint bad (i : nat) (l : list (entry * env * raw * result * list oeffect)) : list nat :=
  match l with [] => [] | (en, e, r, res, obs) :: t =>
    if andb (corr_ok en e r res obs) (C20_check en e r res obs) then bad (S i) t else i :: bad (S i) t end.
Eval vm_compute in bad 0%nat cases."""
CENTRY = {"direct": "EDirect", "validate": "EValidate", "json": "EJson"}


# --------------------------------------------------------------------------- run
def driver_case(c):
    d = dict(env=c["env"], entry=c["entry"], raw=c["raw"])
    if c.get("argtab"):
        d["argtab"] = c["argtab"]
    if c.get("lazy"):
        d["lazy"] = [list(x) for x in c["lazy"]]
    if c.get("fresh"):
        d["fresh"] = c["fresh"]
    return d


def explore(ctx, rep, cases, label, obs=None, shard=300):
    """cases carry their environment inline; environments are emitted once per Coq file (obs: observations that were
    made already - the fresh-process batches)"""
    if obs is None:
        obs = C.run_driver(ctx, "loadgate_driver", [driver_case(c) for c in cases])
    envs, lits, keep = {}, [], []
    for c, o in zip(cases, obs):
        rep.case(driver_case(c), nontrivial(c))
        rep.count("entry:" + c["entry"])
        rep.count("depth:%d" % depth_of(c["raw"]))
        if "_crash" in o:
            rep.fail("driver crashed on a load", driver_case(c), observed=o["_crash"][-600:], sig=dict(clause="crash"))
            continue
        rep.count("outcome:" + o["res"][0])
        coverage(rep, c, o)
        fails = oracle(c, o)
        for what, sig in fails[:1]:
            rep.fail(what, driver_case(c), observed=dict(res=o["res"], eff=o["eff"], newmods=o["newmods"],
                                                         executed=o.get("executed", []), asked=o.get("asked", [])),
                     expected="exception instance | SecurityError | ValidationError; only exception classes instantiated; "
                              "no call; no import; unresolved -> synthetic class; nested = top level", sig=sig)
        key = json.dumps(c["env"], sort_keys=True)
        if key not in envs:
            envs[key] = (len(envs), c["env"])
        lits.append("(%s, env_%d, %s, %s, %s)" % (CENTRY[c["entry"]], envs[key][0], craw(c["raw"]), cres(o["res"]), ceff(o)))
        keep.append(c)
    shared = {}
    defs = "".join("Definition env_%d : env :=\n  %s.\n" % (i, cenv(e, shared)) for i, e in envs.values())
    header = COQ_HEADER + "".join("Definition %s : env :=\n  %s.\n" % nv for nv in shared.values()) + defs
    bad, sfails, _ = C.coq_eval(ctx, label, header, lits, COQ_BODY, shard=shard)
    rep.corr(label, len(lits), bad, sfails, lambda i: driver_case(keep[i]))
    rep.traces += len(lits) - len(bad)
    return bad or sfails


def coverage(rep, c, o):
    """which branches of the model this case exercised (read off the payload and the declared environment)"""
    if not wellformed(c["raw"]):
        rep.count("branch:validate=ill-typed")
        return
    for _, n in nodes_of(c["raw"]):
        if n["k"] == "inst":
            rep.count("branch:restore=" + ("wrapper" if "wrapper" in n["i"] else "plain"))
        if n["k"] != "dict":
            continue
        ty = n["ty"]["ok"]
        how, sp = py_resolve(c["env"], n["md"]["ok"], ty)
        rep.count("branch:resolve=" + how)
        if how != "found":
            rep.count("branch:synth_name=" + ("ok" if name_ok(ty) else "refused"))
        else:
            rep.count("branch:gate=" + ("pass" if sp["kind"] == "exc" else "not-exception-class" if sp["kind"] == "class"
                                        else "not-a-type:" + sp["kind"] + (":callable" if sp.get("callable") else "")))
            if sp["kind"] == "exc":
                ct = sp.get("ctor", "any")
                if isinstance(ct, list) and ct[0] == "table":
                    hit = [x for k, x in ct[1] if k == len(n["args"]["ok"])]
                    rep.count("branch:ctor=table-" + ("miss" if not hit else "hit+extra" if hit[0] else "hit"))
                else:
                    rep.count("branch:ctor=" + ("arity-" + ("match" if len(n["args"]["ok"]) == ct[1] else "mismatch")
                                                if isinstance(ct, list) else ct))
            if sp.get("look"):
                what = "class" if sp["kind"] in ("class", "exc") else "not-a-class"
                rep.count("lookalike:" + what)
                rep.count("lookalike:%s:%s%s" % (what, sp["look"], ":in-front-of-" + sp["wraps"] if "wraps" in sp else
                                                 ":exception-class" if sp["kind"] == "exc" else ""))
                rep.count("lookalike:at=" + ("top" if n is c["raw"] else "nested"))
            if sp["id"] >= TQ_BASE or (n["md"]["ok"] or "").split(".")[0] == "taskiq":
                rep.count("kind:taskiq-own:" + sp["kind"])
                if (n["md"]["ok"], ty.split(".")[-1]) == WRAPPER_REF or ty.split(".")[-1] == WRAPPER_REF[1]:
                    rep.count("kind:taskiq-own:wrapper-class")
            if "." in ty:
                rep.count("branch:dotted-path")
    for n in rich_nodes(c["raw"]):
        rep.count("args:name-a-trap")
        if n["k"] == "inst":
            rep.count("args:name-a-trap:stored-wrapper-instance")
        else:
            how, sp = py_resolve(c["env"], n["md"]["ok"], n["ty"]["ok"])
            rep.count("args:name-a-trap:" + ("unresolved" if how != "found" else "taskiq-own-class" if sp["id"] >= TQ_BASE
                                             and sp["kind"] == "exc" else sp["kind"]))
    for _, n in nodes_of(c["raw"]):
        if n["k"] == "inst" and "wrapper" in n["i"] and py_resolve(c["env"], n["i"]["wrapper"][1], n["i"]["wrapper"][0])[0] == "found":
            rep.count("branch:restore=wrapper-naming-a-loaded-object")
    for p, n in lazy_nodes(c["raw"]):
        z = n["lazy"]
        rep.count("lazy:loaded-package-to-unloaded-submodule")
        rep.count("lazy:owner=" + z.get("owner", "?"))
        rep.count("lazy:first-segment=" + z.get("how", "?"))
        rep.count("lazy:shape=" + z.get("shape", "?"))
        rep.count("lazy:at=" + ("top" if not p else "nested"))
    if o.get("lazy_pre"):
        rep.count("lazy:driver-had-loaded-the-target-and-removed-it-for-the-case")
    for e in o["eff"]:
        rep.count("effect:" + e[0])


def grid_cases(env):
    """thorough tier: every (top, cause, context) combination of one representative node per model branch, all entries"""
    core = env["mods"][0]
    m = core["name"]
    ar = [c for s_, c in core["obj"]["attrs"] if s_ == "Arity"][0]["ctor"][1]
    reps = [(m, "TrapExc", 1), (m, "Arity", ar), (m, "Arity", ar + 1), (m, "Never", 1), (m, "Interrupts", 0),
            (m, "Holder", 1), (m, "Holder.inner", 2), (m, "Holder.fn", 1), (m, "trapfn", 1), (m, "callme", 1), (m, "thing", 0),
            (m, "err", 0), (m, "err.__class__", 1), (m, "part", 0), (m, "part.Deep", 1), ("builtins", "eval", 1),
            ("os", "system", 1), ("builtins", "ValueError", 1), ("lg_absent_mod", "Boom", 1), ("lg_unloaded_0", "Boom", 1),
            (m, "zz_absent", 1), (m, "TrapExc.", 0), (None, "Synth", 1), (None, "A\x00B", 0)]
    tab = Tab(env.get("argconst", ()))
    if any(mm["name"] == WRAPPER_REF[0] for mm in env["mods"]):
        # taskiq's own wrapper class told to stand for the planted non-exception class; a template class of taskiq.exceptions
        reps += [WRAPPER_REF + ([tab.code(v) for v in (m, "Holder", ["echo 1"], "boom")],), ("taskiq.exceptions", "TaskiqError", 0)]

    def node(rep, tag):
        md, ty, n = rep
        if isinstance(n, list):
            return dict(k="dict", ty=dict(ok=ty), md=dict(ok=md), args=dict(ok=list(n)),
                        sup=dict(ok=bool(tag % 2), **{"as": bool(tag % 2)}), cause=dict(k="none", omit=True),
                        ctx=dict(k="none", omit=True))
        return dict(k="dict", ty=dict(ok=ty), md=dict(ok=md), args=dict(ok=[tag + i for i in range(n)]),
                    sup=dict(ok=bool(tag % 2), **{"as": bool(tag % 2)}), cause=dict(k="none", omit=True),
                    ctx=dict(k="none", omit=True))
    out = []
    for entry in ENTRIES:
        for a in reps:
            for b in [None] + reps:
                for c in [None] + reps:
                    raw = node(a, 1)
                    if b:
                        raw["cause"] = node(b, 10)
                    if c:
                        raw["ctx"] = node(c, 20)
                    out.append(dict(env=env, entry=entry, raw=raw, argtab=tab.tab))
    return out


# --------------------------------------------------------------------------- fresh processes
# "a module that is not already loaded" is a fact about the PROCESS that loads the stored error.  A driver process has
# everything fully imported; an application that embeds taskiq.api, a worker, a scheduler have each imported their own part
# of taskiq and its dependencies - and what sits in their sys.modules need not be an executed module (importlib.util.
# LazyLoader registers the module object at once and runs its code on the first attribute access, i.e. inside the getattr
# walk of the load).  So: fresh interpreters that import one list of taskiq modules each, and stored errors that name every
# key of THEIR sys.modules - top level and as cause / context, with a made-up type name that Python's getattr cannot
# resolve - plus names that walk THROUGH a bound attribute of one of taskiq's own modules, plus ordinary trap cases.
FRESH_BASE = 7000
BLIND_TYPES = ["LgNoSuchError", "LgNoSuchError", "lg_absent.Err", "LgNo.Such.Err"]
PROBE_NAME = "LgNoSuchError"


def builtins_min():
    m = real_modules()[0]
    keep = ("ValueError", "KeyError", "Exception")
    return dict(name="builtins", real_module=True, obj=dict(m["obj"], attrs=[a for a in m["obj"]["attrs"] if a[0] in keep]))


def leaf(r, md, ty):
    sup = r.random() < .5
    return dict(k="dict", ty=dict(ok=ty), md=dict(ok=md), args=dict(ok=[r.randint(0, 40) for _ in range(r.choice([0, 1, 1, 2]))]),
                sup=dict(ok=sup, **{"as": sup}), cause=dict(k="none", omit=r.random() < .6), ctx=dict(k="none", omit=r.random() < .6))


def link(r, nodes, max_depth=4):
    """one tree out of the nodes: node 0 on top, every other one cause or context of an earlier one"""
    depth = [0]
    for i in range(1, len(nodes)):
        free = [(j, k) for j in range(i) if depth[j] < max_depth for k in ("cause", "ctx") if nodes[j][k]["k"] == "none"]
        j, k = r.choice(free)
        nodes[j][k] = nodes[i]
        depth.append(depth[j] + 1)
    return nodes[0]


def snapshot_spec(d, i, attrs=()):
    sp = dict(id=FRESH_BASE + i, kind=d["kind"], auto=True, attrs=[list(a) for a in attrs])
    if d["kind"] == "inst":
        sp["callable"] = bool(d.get("callable"))
    return dict(name=d["name"], real_module=True, obj=sp)


def blind_case(r, group, fresh):
    """one payload tree naming every module of the group (each in its own node), sometimes below a builtin error"""
    nodes = [leaf(r, d["name"], r.choice(BLIND_TYPES)) for d in group]
    if r.random() < .3:
        nodes.insert(0, leaf(r, "builtins", r.choice(["ValueError", "KeyError", "Exception"])))
    raw = link(r, nodes)
    env = dict(mods=[snapshot_spec(d, i) for i, d in enumerate(group) if d["name"] != "builtins"] + [builtins_min()])
    return dict(env=env, entry=r.choice(ENTRIES), raw=raw, fresh=fresh, fresh_kind="blind",
                fresh_named=[[d["name"], d["owner"], d["type"]] for d in group])


def walk_case(r, w, fresh):
    """`module:attr.<made-up>` (unresolvable: checked by the view) or, for what is no exception class, `module:attr` itself"""
    child = dict(id=FRESH_BASE + 500, kind=w["kind"], auto=True, attrs=[])
    if w["kind"] == "inst":
        child["callable"] = bool(w.get("callable"))
    if w["kind"] == "exc":
        child["ctor"] = "any"
    alone = w["kind"] != "exc" and r.random() < .3
    node = leaf(r, w["module"], w["attr"] if alone else w["attr"] + "." + r.choice([PROBE_NAME, PROBE_NAME + ".Inner"]))
    nodes = [node]
    if w["kind"] != "exc" and not alone and r.random() < .4:
        nodes.insert(0, leaf(r, "builtins", "ValueError"))
    env = dict(mods=[snapshot_spec(dict(name=w["module"], kind="module"), 0, [[w["attr"], child]]), builtins_min()])
    return dict(env=env, entry=r.choice(ENTRIES), raw=link(r, nodes), fresh=fresh, fresh_kind="walk",
                fresh_walk=[w["kind"], w.get("type", ""), "alone" if alone else "through"])


def cover(views):
    """import lists grouped by what the process then has in sys.modules (names and types of the module objects), in greedy
    set-cover order: first the class that shows most (name, type) pairs nobody has shown yet"""
    classes = {}
    for fr, v in views:
        sig = tuple(sorted((d["name"], d["type"]) for d in v["snapshot"]))
        classes.setdefault(sig, []).append((fr, v))
    left, seen, order = dict(classes), set(), []
    while left:
        sig = max(left, key=lambda s_: (len(set(s_) - seen), -len(s_), [m[0]["imports"] for m in left[s_]]))
        order.append((left.pop(sig), set(sig) - seen))
        seen |= set(sig)
    return order


def fresh_family(ctx, rep, envs):
    r = ctx.sub_rng("fresh")
    ent = C.run_driver(ctx, "loadgate_driver", [dict(special="fresh_entries")], nproc=1)[0]
    if "_crash" in ent:
        rep.fail("driver crashed while listing taskiq's module files", dict(special="fresh_entries"),
                 observed=ent["_crash"][-600:], sig=dict(clause="crash"))
        return False
    names = ent["modules"]
    # import lists: every module file of taskiq on its own; a few in pairs / triples in some order; a few after the process
    # has already run a task through an InMemoryBroker
    plans = [dict(imports=[n]) for n in names]
    for _ in range(ctx.n(3, 16)):
        plans.append(dict(imports=r.sample(names, r.choice([2, 2, 3]))))
    for _ in range(ctx.n(3, 12)):
        plans.append(dict(imports=r.sample(names, r.choice([1, 1, 2])), prelude="inmemory"))
    n_walks = ctx.n(2, 12)
    reqs = [dict(pl, seed=r.randrange(10**6), walks=n_walks) for pl in plans]
    chunk = -(-len(reqs) // min(C.NPROC, 8))
    parts = [reqs[i:i + chunk] for i in range(0, len(reqs), chunk)]
    got = C.run_driver(ctx, "loadgate_driver", [dict(fresh_views=p_) for p_ in parts])
    views, errors, warm = [], {}, set()
    for part, g in zip(parts, got):
        for q, v in zip(part, g.get("views") or [dict(_crash=g.get("_crash", "no views"))] * len(part)):
            fr = {k: q[k] for k in ("imports", "prelude") if k in q}
            if "_crash" in v:
                rep.fail("a fresh interpreter that imports taskiq modules and lists sys.modules crashed", dict(fresh_views=[q]),
                         observed=v["_crash"][-600:], sig=dict(clause="crash"))
                continue
            for n, e in v["errors"]:
                errors[n] = e
            warm |= set(v["warm_imported"])
            views.append((fr, v))
    order = cover(views)
    frac, cap = (.1, 4) if ctx.quick else (1.0, 400)
    n_traps = ctx.n(4, 30)
    trap_envs = [(e, p_, t, []) for e, p_, t, _lz in (r.sample(envs, 2) if ctx.quick else envs)]
    batches, info = [], []
    # quick tier: the states that show something no earlier one has shown, and a few of the others
    chosen = [x for x in order if x[1]]
    rest = [x for x in order if not x[1]]
    chosen += r.sample(rest, min(len(rest), cap))
    for members, news in chosen:
        fr, v = r.choice(members)
        byname = {d["name"]: d for d in v["snapshot"] if d["kind"] in ("module", "class", "inst")}
        new = sorted(n for n, _t in news if n in byname)
        old = sorted(set(byname) - set(new))
        odd = [n for n in old if byname[n]["type"] != "module"]      # a module object of another type: named wherever it is
        old = [n for n in old if byname[n]["type"] == "module"]
        named = [byname[n] for n in new + odd + r.sample(old, min(len(old), int(len(old) * frac) + 1))]
        r.shuffle(named)
        cases, i = [], 0
        while i < len(named):
            k = r.choice([3, 5, 7]) if named[i]["owner"] == "stdlib" else r.choice([1, 1, 2, 3])
            cases.append(blind_case(r, named[i:i + k], fr))
            i += k
        cases += [walk_case(r, w, fr) for w in v["walks"]]
        for _ in range(n_traps):
            cases.append(dict(gen_case(r, trap_envs), fresh=fr, fresh_kind="trap"))
        batches.append((fr, cases))
        info.append(dict(fr, same_state_after=[m[0]["imports"] for m in members if m[0] is not fr][:8] or None,
                         sys_modules=len(v["snapshot"]), named=len(named), first_shown_here=len(new), cases=len(cases),
                         module_objects_of_another_type=sorted({d["type"] for d in v["snapshot"] if d["type"] != "module"})))
    got = C.run_driver(ctx, "loadgate_driver", [dict(fresh=fr, cases=[driver_case(dict(c, fresh=None)) for c in cases])
                                                for fr, cases in batches], nproc=min(C.NPROC, max(1, len(batches))))
    flat, obs = [], []
    for (fr, cases), b in zip(batches, got):
        rep.count("fresh:process")
        rep.count("fresh:prelude=" + str(fr.get("prelude")))
        rep.count("fresh:imports=%d" % len(fr["imports"]))
        outs = b["batch"] if "batch" in b else [dict(_crash=b.get("_crash", "no batch"))] * len(cases)
        for c, o in zip(cases, outs):
            flat.append(c)
            obs.append(o)
            rep.count("fresh:case=" + c["fresh_kind"])
            for _n, owner, ty in c.get("fresh_named", []):
                rep.count("fresh:named-module:owner=" + owner)
                if ty != "module":
                    rep.count("fresh:named-module:object-type=" + ty)
            if c["fresh_kind"] == "blind":
                rep.count("fresh:blind:modules-in-one-payload=%d" % len(c["fresh_named"]))
            if c["fresh_kind"] == "walk":
                rep.count("fresh:walk:%s:%s" % (c["fresh_walk"][0], c["fresh_walk"][2]))
    rep.extra["fresh_processes"] = dict(
        taskiq_module_files=len(names), import_lists_viewed=len(views), distinct_states=len(order), processes=info,
        modules_seen_in_some_process=len({d["name"] for _f, v in views for d in v["snapshot"]}),
        imports_that_failed=errors, imported_by_the_warm_up_loads=sorted(warm))
    return explore(ctx, rep, flat, "fresh", obs, shard=160)


SPECIALS = [dict(special="lazy_getattr"), dict(special="forged_class"), dict(special="pickle_path"),
            dict(special="foreign_lazy_package")]


def make_envs(ctx, n, view=None, lazy=()):
    r = ctx.sub_rng("env")
    out = []
    for k in range(n):
        e = gen_env(r, k, view)
        out.append((e, env_paths(e, ""), env_paths(e, "taskiq"), list(lazy)))
    return out


def discover_lazy(ctx, rep):
    """ask the implementation side which packages are loaded in a driver process and which of their sub-modules (files on
    the package's search path, listed without importing anything) are not"""
    d = C.run_driver(ctx, "loadgate_driver", [dict(special="lazy_view")], nproc=1)[0]
    if "_crash" in d:
        rep.fail("driver crashed while listing loaded packages and their unloaded sub-modules", dict(special="lazy_view"),
                 observed=d["_crash"][-600:], sig=dict(clause="crash"))
        return []
    lazy, skipped = lazy_targets(d)
    rep.extra["lazy_view"] = dict(
        targets=len(lazy),
        packages={o: sorted({t["pkg"] for t in lazy if t["owner"] == o}) for o in ("taskiq", "planted", "other")},
        taskiq_submodules_not_loaded_in_the_driver=sorted(t["pkg"] + "." + t["seg"] for t in lazy
                                                          if t["owner"] == "taskiq" and t["how"] == "submodule"),
        taskiq_packages_with_an_attribute_hook=sorted(p["pkg"] for p in d["packages"] if p["hook"] and p["owner"] == "taskiq"),
        not_used_because_the_package_answers_missing_attributes_itself=skipped)
    return lazy


def discover_view(ctx, rep):
    """ask the implementation side what taskiq ships (exception classes under sys.modules keys taskiq.*, the attributes of
    the modules the load path lives in) and how the plain call cls(*args) behaves for each of those classes"""
    d = C.run_driver(ctx, "loadgate_driver", [dict(special="discover", known=known_real_paths(), base=TQ_BASE)], nproc=1)[0]
    if "_crash" in d:
        rep.fail("driver crashed while listing taskiq's own exception classes", dict(special="discover"),
                 observed=d["_crash"][-600:], sig=dict(clause="crash"))
        return None
    mods, argconst, stats = taskiq_view(d)
    rep.extra["taskiq_view"] = dict(modules=len(mods), exception_classes=stats["classes"], exception_paths=stats["exception_paths"],
                                    dropped_because_the_plain_call_is_not_a_function_of_the_count=stats["dropped"],
                                    constants_added_by_constructors=argconst)
    return mods, argconst


def run(ctx):
    rep = C.Report(ctx, META)
    rep.add_obligations(C.proof_obligations("C20"))
    # source tie: exception_to_python and what it calls re-translated from the source text; srcproofs/Src_load_gate_C20.v re-checked
    src_obs, src_info = srctie.obligations(ctx, "load_gate", "C20")
    rep.add_obligations(src_obs)
    rep.extra["source_tie"] = src_info
    corpus = [c for _name, c in C.load_corpus("C20")]
    if corpus:
        explore(ctx, rep, corpus, "corpus")
    view = discover_view(ctx, rep)
    lazy = discover_lazy(ctx, rep)
    envs = make_envs(ctx, ctx.n(8, 40), view, lazy)
    r = ctx.sub_rng("gen")
    cases = [gen_case(r, envs) for _ in range(ctx.n(2400, 30000))]
    broken = explore(ctx, rep, cases, "main")
    broken = fresh_family(ctx, rep, envs) or broken
    if not ctx.quick:
        grid = grid_cases(envs[0][0])
        broken = explore(ctx, rep, grid, "grid") or broken
        rep.extra["small_scope_exhaustive"] = ("%d cases: every (top, cause, context) combination of 26 representative nodes "
                                               "(one per model branch, taskiq's own wrapper class naming a planted class, a "
                                               "template class of taskiq.exceptions) x 3 entry points on environment 0" % len(grid))
    sp = C.run_driver(ctx, "loadgate_driver", SPECIALS, nproc=1)
    rep.extra["observations_outside_scope"] = sp
    for o in sp:
        # known finding D13 (signature foreign_lazy_package): the statement says "never imports a module that is not already
        # loaded"; a stored name that walks through a loaded third-party package with its own module-level __getattr__
        # makes that package import a sub-module.  Reported through the known-findings file, not silently scoped out.
        if isinstance(o, dict) and o.get("special") == "foreign_lazy_package" and o.get("observed"):
            rep.fail("load imported a module that was not loaded (through a third-party package's own attribute hook)",
                     dict(special="foreign_lazy_package"), observed=o["observed"],
                     expected="sys.modules does not grow", sig=dict(clause="foreign_lazy_package"))
    if (broken or any(not o["ok"] for o in rep.obligations)) and not [f for f in rep.failures if not is_foreign_lazy(f)]:
        r2 = ctx.sub_rng("search")
        envs2 = make_envs(ctx, 12, view, lazy)
        explore(ctx, rep, [gen_case(r2, envs2) for _ in range(ctx.n(12000, 60000))], "search")
    return rep.finish({"foreign_lazy_package": is_foreign_lazy})


def is_foreign_lazy(f):
    return f.get("sig", {}).get("clause") == "foreign_lazy_package"


def replay(ctx, path):
    rec = json.load(open(path))
    c = rec["case"] if "case" in rec else rec
    if c.get("special"):
        o = C.run_driver(ctx, "loadgate_driver", [dict(special=c["special"])], nproc=1)[0]
        print("implementation:", json.dumps(o, indent=1)[:3000])
        bad = bool(o.get("observed")) or "_crash" in o
        print("VIOLATED (known finding %s)" % c["special"] if bad else "holds")
        return 1 if bad else 0
    if c.get("fresh_views"):
        o = C.run_driver(ctx, "loadgate_driver", [c], nproc=1)[0]
        bad = "_crash" in o or any("_crash" in v for v in o["views"])
        print("implementation:", json.dumps(o)[:3000])
        print("VIOLATED (a fresh interpreter importing %r crashed)" % [q["imports"] for q in c["fresh_views"]] if bad else "holds")
        return 1 if bad else 0
    o = C.run_driver(ctx, "loadgate_driver", [c], nproc=1)[0]
    if c.get("fresh"):
        print("loaded in a fresh interpreter that imported %r (prelude: %s)" % (c["fresh"]["imports"], c["fresh"].get("prelude")))
    print("entry:", c["entry"])
    print("payload:", json.dumps(c["raw"])[:1500])
    print("implementation:", json.dumps(o)[:1500])
    if "_crash" in o:
        print("VIOLATED (driver crash)")
        return 1
    fails = oracle(c, o)
    header = COQ_HEADER + "Definition env_0 : env :=\n  %s.\n" % cenv(c["env"])
    lit = "(%s, env_0, %s, %s, %s)" % (CENTRY[c["entry"]], craw(c["raw"]), cres(o["res"]), ceff(o))
    body = "Eval vm_compute in (let '(en, e, r, _, _) := hd (EDirect, [], RNone, RWeird, []) cases in load en e r).\n" + COQ_BODY
    rc, out = C.coq_eval_raw(ctx, "replay", header + "Definition cases := [\n" + lit + "\n].\n" + body)
    print("model:", " ".join(out.split())[:1500])
    for what, sig in fails:
        print("statement broken:", what, sig)
    print("holds" if not fails else "VIOLATED")
    return 0 if not fails else 1
