"""C17 - the process manager keeps exactly one live worker per slot."""
import common as C
import pm_shared as P

META = dict(
    id="C17",
    design_ref="DESIGN.md section 4, C17 / C18",
    technique="Coq proof (induction over event histories of an executable model of ProcessManager.start()) + "
              "differential correspondence: whole effect trace, return value and final state of the real start() "
              "run against process/OS fakes vs. the model folded over the same scripted history",
    level_text="TBD",
    level_note="TBD",
    rule="TBD",
    trusted_base=["model: coq/theories/ProcMan.v (hand-written transcription of process_manager.py)",
                  "process / queue / os.kill / signal fakes in harness/drivers/pm_driver.py "
                  "(multiprocessing.Process life cycle new/live/zombie/reaped, POSIX kill on a reaped pid)"],
    assumptions=[],
)


def run(ctx):
    return P.run(ctx, "C17", META)


def replay(ctx, path):
    return P.replay(ctx, "C17", path)
