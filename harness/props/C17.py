"""C17 - the process manager keeps exactly one live worker per slot."""
import pm_shared as P

META = dict(
    id="C17",
    design_ref="DESIGN.md section 4, C17 / C18",
    technique="Coq proof (invariants + induction over the drain loop and over event histories of an executable model of "
              "ProcessManager.start()) + differential correspondence: per-tick effect trace, return value, final worker "
              "states and final queue of the real start() run against process/OS fakes must equal the model folded over "
              "the same scripted history",
    level_text="Over the Gallina transcription ProcMan.tick / ProcMan.run of prepare_workers, start(), ReloadAllAction.handle, "
               "ReloadOneAction.handle, the shutdown branch and the liveness scan, for EVERY worker count, every max_fails : Z, "
               "every first pid >= 1 and every history of any length (events inside the sleep, inside the drain loop's "
               "empty() calls and between two is_alive() calls): C17_slots_constant (the workers list keeps its length), "
               "C17_one_live_per_slot (at every prefix of the effect trace each slot has at most one process started and "
               "not joined; every Start of a slot is immediately preceded by Terminate q; Join q of its previous occupant "
               "q) with C17_olps_check_is_statement giving the Boolean checker its meaning, C17_replaced_next_tick / "
               "C17_scan_detects / C17_replaced_within_two (a worker not Live at a tick boundary is started again within the "
               "next two ticks unless one of them exits; Example C17_two_ticks_tight shows two is reached). All closed "
               "under the global context. The model is tied to /repo on every run by evaluating ProcMan.run in Coq "
               "(vm_compute) on the scripted histories the real start() just ran against the fakes.",
    level_note="'replaces every worker that died within two supervision ticks' is read at tick boundaries: a worker that is "
               "dead (zombie or reaped) when a sleep begins is started again during that tick or the following one, unless "
               "the manager exits in one of them (shutdown or exhausted budget) - the reading that demands less (a death "
               "after the scan looked at the worker cannot be seen before the next scan). 'Two live processes' is judged both "
               "from the fake processes' own states at each start() and from the Terminate/Join/Start order of the trace; "
               "the oracle demands Terminate and Join of the previous occupant somewhere before the Start, the theorem "
               "proves immediate adjacency. Trusted: Coq kernel + vm_compute; the fakes' rendering of the "
               "multiprocessing.Process life cycle (is_alive()/join() reap; a terminated fake dies at once) and of POSIX kill; "
               "the synchronous fake queue (FIFO, bounded by maxsize exactly as multiprocessing.Queue: <= 0 = unbounded; a blocking put() "
               "on a full queue by the manager's own thread never returns - it is the only consumer). The process the manager "
               "runs in (MainProcess / a multiprocessing child / renamed) is varied; the statement does not depend on it. Not exhibited: join() blocking on a worker that ignores SIGTERM; "
               "multiprocessing.Queue feeder-thread latency (an action put during tick k may become visible one tick later).",
    rule="case = (workers 1..5, max_fails in {-1,0,1,2,3,5}, first pid, manager process = MainProcess | child started by "
         "multiprocessing | renamed top-level process, history of <= 40 ticks (7 % with a burst of 2-6 reload requests in one "
         "tick); per tick: events in the sleep, "
         "in the k-th empty() call, before the j-th is_alive() call of start()); events: worker death, SIGHUP, SIGINT, SIGTERM, "
         "file change; 9 % of the histories also script events INSIDE prepare_workers (worker exits at startup - also every "
         "worker -, signals, file changes, inside Process.start() / the poll / the Event.wait of a startup wait) and 7 % inside "
         "the startup window of a replacement; 4 % of the deaths are polled at once (DieS); 45 % build the manager from a varied "
         "configuration (reload on / off, observer None / recording stand-in with the real FileWatcher scheduled and file changes "
         "dispatched through it, reload extra importable / missing, no_gitignore, a .gitignore in the working directory, further "
         "WorkerArgs fields, WorkerArgs built directly / by from_cli). Non-trivial iff some tick carries >= 2 events or a death is followed by its reload in a later tick; "
         "distinct by the whole case. Thorough: exhaustive sleep-event histories (workers 1,2: depth 4; 3: depth 3; "
         "max_fails in {-1,0,1,2,3}), single mid-tick injections (depth 2,2,1), every combination of startup exits inside prepare_workers "
         "(depth 3,2,1) and 50000 random long histories.",
    trusted_base=["model: coq/theories/ProcMan.v (hand-written transcription of taskiq/cli/worker/process_manager.py)",
                  "process / queue / os.kill / signal / sleep fakes in harness/drivers/pm_driver.py (multiprocessing.Process "
                  "life cycle new/live/zombie/reaped, POSIX kill on a reaped pid, synchronous FIFO queue with multiprocessing.Queue's "
                  "maxsize semantics, current_process/parent_process/active_children; any other multiprocessing name held by "
                  "the module is a stub that fails closed)",
                  "stand-ins for the third-party packages watchdog (event classes) and gitignore-parser (parse_gitignore), which are "
                  "not installed here, so that the real taskiq.cli.watcher.FileWatcher can be scheduled and dispatched to; a "
                  "recording stand-in for watchdog's Observer"],
    assumptions=["join() returns (the worker dies on SIGTERM)",
                 "queue.put() is visible to the next empty()/get() (no feeder-thread latency)",
                 "asynchronous events (signals, watchdog callback, worker deaths) happen at the fakes' delivery points: "
                 "inside sleep(), inside action_queue.empty(), inside is_alive() called by start(), and inside the startup "
                 "windows of prepare_workers / ReloadOneAction.handle (Process.start(), the is_alive() and the Event.wait() of "
                 "_wait_for_worker_startup)"],
)


def run(ctx):
    return P.run(ctx, "C17", META)


def replay(ctx, path):
    return P.replay(ctx, "C17", path)
