"""C10 - middleware hooks fire in the documented order, once per message."""
import common as C
import pipeline_lib as L
import srctie

META = dict(
    id="C10",
    design_ref="DESIGN.md section 4, C10",
    technique="Coq proof over the operational Gallina models of AsyncKicker.kiq and Receiver.callback/run_task (Pipeline.v) "
              "+ per-message effect-sequence correspondence with the real kiq / receiver.callback under concurrency",
    level_text="C10_send_order / C10_send_failed / C10_send_once (pre_send in registration order, each applied to its "
               "predecessor's output, dumps + kick of the folded message, post_send iff the kick succeeded, SendTaskError "
               "otherwise), C10_exec_explicit (the whole run as an explicit list), C10_exec_order (every run, raising hooks "
               "included, is sorted by phase) and C10_once (each overridden hook exactly once in registration order, "
               "non-overridden never, on_error iff raised, post_save iff stored) are proved for stacks of any length, any "
               "override mask and any hook functions, and lifted to any interleaving (C10_concurrent). The models are tied "
               "to /repo on every run: 1-6 concurrent kiq() calls and 1-6 concurrent receiver.callback() calls with 0-3 "
               "recording middlewares (random masks, sync/async, message-replacing, instance-attribute hooks, hooks inherited from "
               "base classes / mixins / re-overridden by a subclass, two instances of one class, distinct instances that compare "
               "equal - @dataclass middlewares, hand-written / always-true / raising __eq__, unhashable, __bool__ false, "
               "__len__ 0 - registered in one or in several add_middlewares / with_middlewares calls, hooks that are plain "
               "functions returning a Future / Task / object with __await__), a quarter of the send cases being 2-4 consecutive "
               "sends on ONE kicker object re-pointed with with_broker / with_labels or whose broker gets more middlewares in "
               "between (each send compared with kiq over the stack its broker has at that send), a fifth of the receive cases "
               "giving the broker its backend / middlewares / formatter / tasks only after the Receiver was constructed, a fifth of all "
               "cases putting the broker OBJECT (a minimal AsyncBroker subclass, or one overriding startup / shutdown around super()) "
               "through its life cycle - startup / shutdown / startup before the first message, shutdown() while messages are being "
               "executed / sent, between two sends on one kicker, middlewares with startup / shutdown hooks of their own -, a seventh of the send cases being sequential scenarios through a SHARED task of taskiq.async_shared_broker (1-3 real brokers; kickers obtained from the task before / after default_broker(B), kept and used again, re-pointed with with_broker, task.kiq(); the default broker set, changed and unset between sends: a send goes through the pre_send / post_send hooks of the broker its kicker is bound to, a kicker bound to the shared broker itself cannot send: SendTaskError, no broker reached), a tenth of the sends failing with one of the exception shapes real "
               "clients raise from kick / dumps (errno-style OSError family, KeyError(int), no / bytes / tuple / None args, non-ASCII text, "
               "UnicodeEncodeError, exception groups, classes with raising __str__ / __eq__, falsy, unhashable, with cause chains), sends "
               "made while the caller handles another exception, and a seventh of the receive cases holding the SimpleRetryMiddleware "
               "taskiq ships (its on_error hook printed as the function of the result it was observed to be; retry-control labels "
               "arriving as bool / int / float / str / absent in every wire form), must produce a "
               "global log that is an interleaving of the model's sequences (compared in Coq); a Python oracle re-checks the "
               "statement on the real log.",
    level_note="Hooks that raise abort kiq / callback (FCrash) - modelled and covered by the correspondence; the once/order "
               "theorems assume non-raising hooks (the statement's quantifier), C10_exec_order holds regardless. Whether a hook "
               "is sync or async does not appear in the model: the same prediction must match both (checked). Base-class "
               "hooks of TaskiqMiddleware are replaced by logging ones in the driver process, so a non-overridden hook that "
               "fires is observed. Known finding sync_generator_exit (D10) also affects this property.",
    rule="case = (send) 1-6 kiq (concurrent, or consecutive steps on one reused kicker over 1-3 brokers) x stack x kick result, or (recv) 1-6 concurrent messages x stack x outcome; "
         "non-trivial iff >= 2 middlewares with different override masks, or a failing kick, or a no-result outcome / "
         "backend failure; distinct by canonical case",
    trusted_base=["model: coq/theories/Pipeline.v (hand-written transcription of AsyncKicker.kiq, Receiver.callback / run_task)",
                  "recording middlewares, scripted broker and formatter of harness/drivers/pipeline_driver.py"],
    assumptions=["user hooks are arbitrary functions of their message / result argument; on_error, post_execute and post_save "
                 "hooks do not replace the message object they are given",
                 "a kick / dumps failure is an Exception (a BaseException from the broker propagates unwrapped)"],
)


def mask(s):
    return tuple(L.own_hooks(s))


def nontrivial(case):
    masks = {mask(s) for s in case["mws"]}
    if len(case["mws"]) >= 2 and len(masks) >= 2:
        return True
    if case["type"] == "send":
        return any(S.get("kick", "ok") != "ok" for S in case["sends"])
    return any(M["kind"] == "ok" and (M["out"] == {"raise": 0} or not M.get("save_ok", True)) for M in case["msgs"])


ORACLES = [L.oracle_c10_recv]


def run(ctx):
    rep = C.Report(ctx, META)
    rep.add_obligations(C.proof_obligations("C10"))
    # source tie: Receiver.callback re-translated from the source text; srcproofs/Src_callback_*.v re-checked against it
    src_obs, src_info = srctie.obligations(ctx, "callback", "C10")
    rep.add_obligations(src_obs)
    rep.extra["source_tie"] = src_info
    # source tie, send side: AsyncKicker.kiq re-translated from the source text; srcproofs/Src_kiq_C10.v re-checked
    kiq_obs, kiq_info = srctie.obligations(ctx, "kiq", "C10")
    rep.add_obligations(kiq_obs)
    rep.extra["source_tie_kiq"] = kiq_info
    corpus = L.load_corpus_cases("C10")
    L.explore(ctx, rep, "C10", [c for c in corpus if c["type"] == "recv"], "corpus-recv", ORACLES, nontrivial)
    L.explore(ctx, rep, "C10", [c for c in corpus if c["type"] == "send"], "corpus-send", ORACLES, nontrivial)
    r = ctx.sub_rng("gen")
    b1 = L.explore(ctx, rep, "C10", [L.gen_send(r) for _ in range(ctx.n(600, 8000))], "send", ORACLES, nontrivial)
    b2 = L.explore(ctx, rep, "C10", [L.gen_recv(r, "c10") for _ in range(ctx.n(700, 14000))], "recv", ORACLES, nontrivial)
    if (b1 or b2 or any(not o["ok"] for o in rep.obligations)) and not rep.failures:
        r2 = ctx.sub_rng("search")
        L.explore(ctx, rep, "C10", [L.gen_send(r2) for _ in range(ctx.n(3000, 30000))], "search-send", ORACLES, nontrivial)
        L.explore(ctx, rep, "C10", [L.gen_recv(r2, "c10") for _ in range(ctx.n(4000, 40000))], "search-recv", ORACLES,
                  nontrivial)
    return L.finish(rep, "C10")


def replay(ctx, path):
    return L.replay(ctx, path, ORACLES)
