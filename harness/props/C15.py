"""C15 - the scheduler loop sends each due schedule once per occurrence, minute after minute."""
import datetime as dt
import importlib.util
import json
import os
import zoneinfo

import common as C
import srctie

US = 10**6
MIN = 60 * US
META = dict(
    id="C15",
    design_ref="DESIGN.md section 4, C15 (+ section 5 D7)",
    technique="Coq proof (induction over the poll sequence, lia over Z microseconds) over a Gallina transcription of "
              "run_scheduler_loop / get_all_schedules / delayed_send and a system model with removing sources + differential "
              "correspondence with the real loop on an exact virtual-time event loop",
    level_text="Theorems C15_poll_instants, C15_cron_per_minute, C15_oneshot_timing, C15_isolation, C15_oneshot_once_partial hold "
               "for the model coq/theories/SchedLoop.v for every start instant, latency assignment, schedule set and failure set; "
               "C15_oneshot_once_refuted exhibits the double send of defect D7 in the model (the witness is the corpus replay). "
               "The model is tied to /repo on every run: the real run_scheduler_loop is driven for 5-60 virtual minutes (and, in a "
               "family of long runs with hourly / n-hourly / daily crons, for 2-5 h and for about 26 h) and, inside "
               "Coq (vm_compute), (a) the code-shaped iteration body is evaluated on every observed poll (spawned set, delays, "
               "get_task_delay answers, sleep length) and (b) the system model predicts the whole run from the scenario alone (poll "
               "instants, listings, sends, attempt numbers, kick instants and outcomes).",
    level_note="cron_due is a Section variable (C13 / Cron.v); its values are supplied per (expression, cron_offset, minute) by an "
               "independent matcher for the simple expressions generated here, read on the wall clock of the schedule's "
               "cron_offset (UTC / UTC + timedelta / the named zone, by CPython datetime + zoneinfo over pytz's bundled files). One-shot exactly-once is claimed for removing sources only "
               "(label source, scripted source deleting on post_send): a source that keeps listing a past one-shot has it "
               "re-sent every minute - that is the source's contract, not the loop's. Known finding D7: a one-shot still in flight "
               "(spawned, post_send not yet run) when a later poll lists it is sent again. Known finding "
               "label_equal_times_wrong_entry: the label source identifies a one-shot trigger by task + time; of two one-shots of one "
               "task with equal times, the later-listed one's post_send removes the earlier-listed one's trigger when that one's send "
               "failed or is still in flight, and the later-listed one is sent again (the system model identifies entries by schedule "
               "id: runs in which a post_send was OBSERVED to remove another equal-time member's trigger are judged by the oracle "
               "alone). Listing latencies are assumed below "
               "the distance to the next minute boundary for the 'every boundary' clause (a slower gather skips a boundary). "
               "asyncio.sleep never waking early w.r.t. the wall clock is assumed (one shared virtual clock).",
    rule="case = loop run (start instant, 1-3 sources static/removing/label, cron + one-shot + unparsable schedules with presence "
         "windows, listing latencies, kick latencies, failing listings / kicks; 4 % of the runs are long: 2-5 h or ~26 h with crons "
         "that recur on the same minute-of-hour / hour-of-day; 11 % carry groups of cron schedules that share one expression string and "
         "differ in cron_offset - none / zone names / timedeltas - aimed so that the answers differ inside a group in one poll; 8 % vary the "
         "shape of the schedule payloads - args as list / tuple / deque / left out, nested values, kwargs / labels left out / empty / filled, "
         "unknown label keys, cron_offset and aware / subclass datetimes on one-shots, one-shots with equal times, one label dict shared "
         "by two tasks - with a label-source one-shot that fires >= 4 min before the end; 5 % carry groups of 2-4 one-shots with equal times "
         "in ONE task of the label source whose earlier-listed members' sends fail / are still in flight at later polls / complete after "
         "the later-listed ones', with controls: no fault, naive next to aware times, the group in a scripted removing source; 6 % have "
         "sources that write get_schedules / pre_send / post_send as plain def / async def / plain def returning a coroutine, Task, Future, "
         "done Future, __await__-only object, generator-based coroutine, gather, shield - methods of the class or bound on the instance "
         "after the scheduler was built - every style in every check, with a one-shot that fires >= 4 min before the end; 5 % run on a "
         "host whose time zone is not UTC - POSIX strings and IANA names, east / west, 30 / 45 / 20 / 1 minute offsets, with and without "
         "daylight saving, a fifth with the host's own offset change inside the run - installed with TZ + time.tzset() in the driver, the "
         "controlled clock answering now() without tz with the host's wall clock, with naive and aware (UTC / fixed offset / host-local) "
         "one-shots in the future, in the past and where a local reading would land in the run; 1 in 14 of the plain runs on such a host too; "
         "5 % give 60 % of their schedules (and the tasks of a label source) labels whose values are members of a str-mixin Enum / IntEnum, "
         "instances of plain subclasses of str / int / float / bytes, values of non-primitive types (Decimal, date, UUID, tuple, None ...), "
         "strs with lone surrogates / non-BMP / NUL / thousands of characters, or plain primitives; 1 in 14 of the plain runs likewise; "
         "neither the oracle nor the model sees the host zone); non-trivial iff it crosses >= 3 minute boundaries "
         "with a cron both due and not due, >= 1 one-shot, >= 1 injected failure; distinct by canonical JSON",
    trusted_base=["model: coq/theories/SchedLoop.v (hand-written transcription of taskiq/cli/scheduler/run.py loop + system model)",
                  "exact virtual-time loop and datetime shim in harness/drivers/sched_driver.py (one clock for wall and monotonic time; "
                  "now() without tz = the C library's local time of the installed host zone)",
                  "independent cron matcher in harness/props/C15.py for `*`, `*/n`, `a`, `a,b` minute/hour fields and `*`, `a`, `a,b` day / "
                  "month / weekday fields, on the wall clock of the schedule's cron_offset (CPython datetime; zones by stdlib zoneinfo "
                  "reading pytz's own bundled TZif files)",
                  "SchedDelay.delay (C14) for one-shot due-ness"],
    assumptions=["asyncio.sleep does not wake early w.r.t. the wall clock", "sources of one scheduler are distinct objects",
                 "schedule ids are unique within a source", "no two relevant timers tie (listing snapshots at even, removals and "
                 "script events at odd microseconds)"],
)

CRONS = ["* * * * *", "*/2 * * * *", "*/3 * * * *", "*/5 * * * *"]
BAD = ["* * * *", "bad cron", "* * * * * *"]
NZONES = (48, 1000), (4, 60)             # runs with same-expression / different-offset groups: (short, 2-5 h) x (quick, thorough)
NLONG_Q, NLONG_T = (13, 3), (300, 40)      # long runs per check: (2-5 h runs, ~26 h runs) quick / thorough


# ------------------------------------------------------------------ independent cron matcher (simple forms)
EP = dt.datetime(1970, 1, 1, tzinfo=dt.timezone.utc)
_ZI = {}


def zi(zone):
    """stdlib TZif reader applied to pytz's OWN bundled data (the system tzdata differs for future dates); no pytz code runs"""
    z = _ZI.get(zone)
    if z is None:
        d = os.path.join(importlib.util.find_spec("pytz").submodule_search_locations[0], "zoneinfo")
        with open(os.path.join(d, zone), "rb") as f:
            z = _ZI[zone] = zoneinfo.ZoneInfo.from_file(f, key=zone)
    return z


def wall(t_us, off):
    """the wall clock the expression of a schedule with cron_offset `off` is read on at the UTC instant t_us: UTC when there is
    no offset, UTC + the timedelta, local time of the named zone (CPython datetime / zoneinfo arithmetic)"""
    t = EP + dt.timedelta(microseconds=t_us)
    if not off:
        return t
    if off["kind"] == "td":
        return t + dt.timedelta(microseconds=off["us"])
    return t.astimezone(zi(off["zone"]))


def shift_us(t_us, off):
    if not off:
        return 0
    if off["kind"] == "td":
        return off["us"]
    d = wall(t_us, off).utcoffset()
    return (d.days * 86400 + d.seconds) * US + d.microseconds


def field_match(f, v):
    if f == "*":
        return True
    if f.startswith("*/"):
        return v % int(f[2:]) == 0
    return v in [int(x) for x in f.split(",")]


def fields_match(expr, w):
    """does the expression match the minute shown by the wall clock w (minute hour day-of-month month day-of-week, 0 = Sunday;
    when both day fields are restricted either may match)"""
    mi, ho, dom, mon, dow = expr.split(" ")
    assert not any(x.startswith("*/") for x in (dom, mon, dow))    # `*/n` counts from the field's minimum there: not generated
    d1, d2 = field_match(dom, w.day), field_match(dow, w.isoweekday() % 7)
    day = (d1 or d2) if dom != "*" and dow != "*" else (d1 and d2)
    return field_match(mi, w.minute) and field_match(ho, w.hour) and field_match(mon, w.month) and day


def cron_due(e, t_us):
    """the statement's 'its expression matches that minute' for cron entry e at the instant t_us"""
    return fields_match(e["cron"], wall(t_us, e.get("off")))


def cron_matches(expr, minute_index, off=None):
    return fields_match(expr, wall(minute_index * MIN, off))


def off_key(off):
    return json.dumps(off or None, sort_keys=True)


def off_kind(off):
    if not off:
        return "none"
    if off["kind"] == "zone":
        return "zone"
    return "timedelta" + (":sub-minute" if off["us"] % MIN else "") + (":negative" if off["us"] < 0 else "") + \
        (":zero" if off["us"] == 0 else "")


# ------------------------------------------------------------------ generator
def odd(x):
    return x | 1


def even(x):
    return x & ~1


def gen_case(r, long=False, base_at=None):
    base = r.choice([1_900_000_020, 1_700_000_040, 1_800_003_600, 2_000_000_040 + 86400 - 600]) * US
    base += r.randrange(0, 3000) * MIN
    if base_at is not None:
        base = base_at
    assert base % MIN == 0
    start = base + even(r.choice([0, 0, 2, 500_000, 999_998, 59_000_000, 59_999_998, r.randrange(MIN), r.randrange(MIN)]))
    H = r.randint(30, 60) if long else r.randint(4, 10)
    end = odd(base + H * MIN + r.randrange(MIN))
    m0, m1 = start // MIN, end // MIN
    nsrc = r.choice([1, 1, 2, 2, 3])
    kinds = [r.choice(["static", "removing", "removing", "label"]) for _ in range(nsrc)]
    while kinds.count("label") > 1:
        kinds[kinds.index("label")] = "removing"
    sid = [0]
    used_T = set()

    def window():
        add = dele = None
        if r.random() < .3:
            add = odd(r.randrange(start, end))
        if r.random() < .2:
            dele = odd(r.randrange(add or start, end))
            if add is not None and dele <= add:
                dele = add + 2
        return add, dele

    def entry(kind):
        sid[0] += 1
        add, dele = window()
        e = dict(sid=sid[0], add=add, **{"del": dele})
        k = r.random()
        one_p = .1 if kind == "static" else .5
        if k < one_p:
            mm = r.randrange(m0 - 1, m1 + 2) * MIN
            T = r.choice([mm, mm + 500_000, mm + US, mm + US + 1, mm - 1, mm + 1, mm + US - 1, mm - 500_000,
                          mm + r.randrange(MIN), mm + r.randrange(MIN), (add or start) - r.randrange(1, 5 * MIN),
                          mm + r.randrange(US)])
            while T in used_T:
                T += 1
            used_T.add(T)
            e.update(kind="one", T=T)
        elif k < one_p + .08:
            e.update(kind="bad", cron=r.choice(BAD))
        else:
            q = r.random()
            if q < .55:
                cr = r.choice(CRONS)
            else:
                m = r.randrange(m0, m1 + 1)
                if q < .75:
                    cr = "%d %d * * *" % (m % 60, (m // 60) % 24)
                elif q < .9:
                    cr = "%d * * * *" % (m % 60)
                else:
                    cr = "%d,%d * * * *" % (m % 60, (m + r.randint(1, 3)) % 60)
            e.update(kind="cron", cron=cr)
        if kind == "label":
            e["task"] = r.choice(["t0", "t1"])
        return e

    sources = []
    for kd in kinds:
        ents = [entry(kd) for _ in range(r.randint(1, 5))]
        if kd == "label":
            # the real lists are per task: initial entries in order, then the added ones by add instant
            ents.sort(key=lambda e: (e["task"], e["add"] is not None, e["add"] or 0))
        else:
            ents.sort(key=lambda e: (e["add"] is not None, e["add"] or 0))
        sources.append(dict(kind=kd, entries=ents))
    npoll = H + 3
    lat = []
    for k in range(npoll):
        row = []
        for _ in range(nsrc):
            q = r.random()
            v = 0 if q < .5 else r.randrange(0, 2000) if q < .8 else r.randrange(0, 3 * US) if q < .97 else r.randrange(0, 50 * US)
            row.append(even(v))
        lat.append(row)
    if r.random() < .9:   # keep the first gather inside the starting minute (the other case is exercised too)
        room = max(0, base + (start - base) // MIN * MIN + MIN - start - 2)
        lat[0] = [even(min(v, room)) for v in lat[0]]
    lfail = [[k, i] for k in range(npoll) for i in range(nsrc) if r.random() < .07]
    klat, kfail = {}, []
    for s in sources:
        i = sources.index(s)
        for e in s["entries"]:
            for n in range(4):
                q = r.random()
                if q < .3:
                    klat["%d:%d:%d" % (i, e["sid"], n)] = odd(r.randrange(0, 2 * US) if q < .27 else r.randrange(0, 70 * US))
                if r.random() < .07:
                    kfail.append([i, e["sid"], n])
    return dict(start=start, end=end, api=r.random() < .3, sources=sources, lat=lat, lfail=lfail, klat=klat, kfail=kfail)


DAY = 1440


def gen_long(r, day=False, base_at=None):
    """LONG runs: 2-5 virtual hours (a third of them placed across midnight UTC), or - day=True - about 26 hours, with few
    schedules whose consecutive occurrences are an hour / some hours / a day apart (`M * * * *`, `M */2 * * *`, `M H * * *`,
    `M H,H' * * *`, ...) next to a few that recur within the hour.  What the loop (or a source) remembers from one
    occurrence of a schedule to the next - same minute-of-hour, same hour-of-day, same schedule id an hour later - is only
    exercised by such runs; virtual time makes them cheap because nearly all polls have nothing to send."""
    H = r.randint(24 * 60 + 30, 27 * 60) if day else r.randint(120, 300)
    base = r.choice([1_900_000_020, 1_700_000_040, 1_800_003_600, 2_000_000_040 + 86400 - 600]) * US
    base += r.randrange(0, 3000) * MIN
    if not day and r.random() < .34:       # midnight UTC inside the run
        base = (base // (DAY * MIN) + 1) * DAY * MIN - r.randrange(20, H - 20) * MIN
    if base_at is not None:
        base = base_at
    assert base % MIN == 0
    start = base + even(r.choice([0, 0, 2, 500_000, 59_999_998, r.randrange(MIN), r.randrange(MIN)]))
    end = odd(base + H * MIN + r.randrange(MIN))
    m0, m1 = start // MIN, end // MIN
    nsrc = r.choice([1, 2, 2])
    # stable schedule ids (static / removing scripted sources) are the point; the label source mints fresh ids per listing
    kinds = [r.choice(["static", "static", "removing", "removing", "label"]) for _ in range(nsrc)]
    while kinds.count("label") > 1 or "label" in kinds and nsrc == 1:    # at least one source with stable ids
        kinds[kinds.index("label")] = "static"
    sid = [0]
    used_T = set()

    def recurring():
        # one whose consecutive occurrences in this run share the minute-of-hour (and, in a day run, the hour-of-day)
        if not day:
            return r.choice(["%d * * * *" % r.randrange(60), "%d * * * *" % r.randrange(60), "0 * * * *",
                             "%d */2 * * *" % r.randrange(60)])
        m = r.randrange(m0 + 1, m1 - DAY)
        return "%d %d * * *" % (m % 60, (m // 60) % 24)

    def cron():
        m = r.randrange(m0, m1 + 1)
        if day and r.random() < .6:        # a minute whose hour-of-day comes round again before the end of the run
            m = r.randrange(m0, max(m0 + 1, m1 - DAY + 1))
        mi, ho = m % 60, (m // 60) % 24
        q = r.random()
        if q < .3:
            return "%d * * * *" % mi if not day or r.random() < .3 else "%d */%d * * *" % (mi, r.choice([3, 4, 6]))
        if q < .4:
            return "0 * * * *" if not day else "0 */%d * * *" % r.choice([4, 6, 8])
        if q < .55:
            return "%d */%d * * *" % (mi, r.choice([2, 2, 3]) if not day else r.choice([2, 3, 4, 6]))
        if q < .7:
            return "%d %d * * *" % (mi, ho)
        if q < .8:
            return "%d %d,%d * * *" % (mi, ho, (ho + r.randint(1, 3)) % 24)
        if q < .88:
            return "%d,%d * * * *" % (mi, (mi + r.choice([1, 2, 30, r.randrange(1, 60)])) % 60) if not day else \
                   "%d,%d %d * * *" % (mi, (mi + r.randint(1, 3)) % 60, ho)
        if q < .97 or day:
            return r.choice(["*/30 * * * *", "*/20 * * * *", "*/15 * * * *"]) if not day else \
                   r.choice(["*/30 */2 * * *", "0 * * * *", "*/30 %d * * *" % ho])
        return r.choice(["* * * * *", "*/7 * * * *", "*/2 * * * *"])

    def entry(kind):
        sid[0] += 1
        add = dele = None
        if r.random() < .12:
            add = odd(r.randrange(start, end))
        if r.random() < .08:
            dele = odd(r.randrange(add or start, end))
            if add is not None and dele <= add:
                dele = add + 2
        e = dict(sid=sid[0], add=add, **{"del": dele})
        k = r.random()
        if k < (.08 if kind == "static" else .2):
            mm = r.randrange(m0 - 1, m1 + 2) * MIN
            T = r.choice([mm, mm + 500_000, mm + US, mm - 1, mm + 1, mm + r.randrange(MIN), mm + r.randrange(MIN),
                          (add or start) - r.randrange(1, 5 * MIN)])
            while T in used_T:
                T += 1
            used_T.add(T)
            e.update(kind="one", T=T)
        elif k < (.08 if kind == "static" else .2) + .04:
            e.update(kind="bad", cron=r.choice(BAD))
        else:
            e.update(kind="cron", cron=cron())
        if kind == "label":
            e["task"] = r.choice(["t0", "t1"])
        return e

    sources = []
    for kd in kinds:
        ents = [entry(kd) for _ in range(r.randint(2, 3 if day else 4))]
        if kd != "label" and not any(s["kind"] != "label" for s in sources):
            e = entry(kd)
            e.pop("T", None)
            e.update(kind="cron", cron=recurring())
            ents.append(e)
        if kd == "label":
            ents.sort(key=lambda e: (e["task"], e["add"] is not None, e["add"] or 0))
        else:
            ents.sort(key=lambda e: (e["add"] is not None, e["add"] or 0))
        sources.append(dict(kind=kd, entries=ents))
    npoll = H + 3
    lat = []
    z = .96 if day else .85
    for k in range(npoll):
        row = []
        for _ in range(nsrc):
            q = r.random()
            v = 0 if q < z else r.randrange(0, 2000) if q < z + .6 * (1 - z) else r.randrange(0, 3 * US) if q < .995 else \
                r.randrange(0, 50 * US)
            row.append(even(v))
        lat.append(row)
    if r.random() < .9:
        room = max(0, base + (start - base) // MIN * MIN + MIN - start - 2)
        lat[0] = [even(min(v, room)) for v in lat[0]]
    pf = .003 if day else .012
    lfail = [[k, i] for k in range(npoll) for i in range(nsrc) if r.random() < pf]
    klat, kfail = {}, []
    for i, s in enumerate(sources):
        for e in s["entries"]:
            for n in range(8):
                q = r.random()
                if q < .3:
                    klat["%d:%d:%d" % (i, e["sid"], n)] = odd(r.randrange(0, 2 * US) if q < .27 else r.randrange(0, 70 * US))
                if r.random() < .05:
                    kfail.append([i, e["sid"], n])
    return dict(start=start, end=end, api=r.random() < .3, sources=sources, lat=lat, lfail=lfail, klat=klat, kfail=kfail,
                family="long-day" if day else "long-hours")


# ------------------------------------------------------------------ several schedules, ONE expression, different cron_offset
TZ_ZONES = ["Europe/Berlin", "America/New_York", "Asia/Kolkata", "Asia/Kathmandu", "Australia/Lord_Howe", "America/St_Johns",
            "Pacific/Chatham", "Pacific/Kiritimati", "Etc/GMT+12", "Africa/Casablanca", "Asia/Tokyo", "Europe/London", "UTC",
            "America/Sao_Paulo", "Asia/Tehran"]
TZ_DST = ["Europe/Berlin", "America/New_York", "Australia/Lord_Howe", "Pacific/Chatham", "Europe/London", "America/St_Johns"]
_TR = {}


def transitions(zone, year):
    """UTC instants (us, whole minutes) in `year` at which the zone's offset changes, by scanning the oracle's reader"""
    if (zone, year) not in _TR:
        t, end = dt.datetime(year, 1, 1, tzinfo=dt.timezone.utc), dt.datetime(year + 1, 1, 1, tzinfo=dt.timezone.utc)
        us = lambda x: round((x - EP).total_seconds()) * US
        out, prev = [], shift_us(us(t), {"kind": "zone", "zone": zone})
        while t < end:
            n = t + dt.timedelta(hours=6)
            if shift_us(us(n), {"kind": "zone", "zone": zone}) != prev:
                lo, hi = us(t) // MIN, us(n) // MIN
                while hi - lo > 1:
                    mid = (lo + hi) // 2
                    if shift_us(mid * MIN, {"kind": "zone", "zone": zone}) == prev:
                        lo = mid
                    else:
                        hi = mid
                out.append(hi * MIN)
                prev = shift_us(us(n), {"kind": "zone", "zone": zone})
            t = n
        _TR[zone, year] = out
    return _TR[zone, year]


def zonify(r, c, zfirst=()):
    """What ONE scheduler process sees when schedules differ only in cron_offset: groups of 2-4 cron schedules that share one
    expression STRING and are read on different wall clocks - no offset (UTC), IANA zone names, timedeltas (whole hours, odd
    minutes, below a minute, negative, zero, and the timedelta equal to a zone's current shift = the same wall clock by the
    other route) - inside one source or spread over the sources, in any listing order.  The expression is aimed at the
    hour / weekday / day that ONE member's wall clock shows in some minute of the run, so in that poll the correct answers
    differ inside the group.  Whatever the loop keeps per expression, per instant or per poll (a memoised verdict, a reused
    `now`) shows as a schedule sent in a minute it does not match or not sent in one it matches.  Existing crons of the run
    get an offset now and then as well.  Applied to a run produced by gen_case / gen_long (everything else stays as it was)."""
    start, end = c["start"], c["end"]
    m0, m1 = start // MIN, end // MIN
    zs = list(zfirst) + r.sample([z for z in TZ_ZONES if z not in zfirst], max(1, r.choice([1, 2, 2, 3]) - len(zfirst)))
    zoffs = [{"kind": "zone", "zone": z} for z in zs]
    offs = list(zoffs)
    if r.random() < .75:
        offs.append(None)
    for _ in range(r.choice([0, 1, 1, 2])):
        k = r.random()
        if k < .4:       # a zone's shift at some instant of the run, as a timedelta
            us = shift_us(r.randrange(start, end), r.choice(zoffs))
        elif k < .48:
            us = 0
        elif k < .7:
            us = r.randrange(-26 * 60, 26 * 60 + 1) * MIN
        elif k < .9:
            us = r.choice([-1, 1]) * r.choice([1, 1, 2, 3, 5, 12, 24]) * 60 * MIN
        else:
            us = r.randrange(-26 * 3600, 26 * 3600 + 1) * US + r.choice([0, 500_000, r.randrange(US)])
        offs.append({"kind": "td", "us": us})
    offs = [o for i, o in enumerate(offs) if o not in offs[:i]]
    if len(offs) < 2:
        offs.append(None if None not in offs else {"kind": "td", "us": r.choice([-1, 1]) * r.randint(1, 12) * 60 * MIN})
    for s in c["sources"]:
        for e in s["entries"]:
            if e["kind"] == "cron" and r.random() < .3:
                e["off"] = r.choice(offs)
    sid = max(e["sid"] for s in c["sources"] for e in s["entries"])
    nsrc = len(c["sources"])
    hours = (end - start) // (60 * MIN) >= 2
    for _ in range(r.choice([1, 1, 2])):
        m = r.randrange(min(m0 + 1, m1), m1 + 1)
        aim = r.choice(offs)
        w = wall(m * MIN, aim)
        mi, ho, dom, mon, dow = w.minute, w.hour, w.day, w.month, w.isoweekday() % 7
        q = r.random()
        if q < .3:
            expr = "%d %d * * *" % (mi, ho)
        elif q < .5:
            expr = ("* %d * * *" if not hours else "*/10 %d * * *") % ho
        elif q < .6:
            expr = "*/2 %d * * *" % ho if not hours else "%d,%d %d * * *" % (mi, (mi + 30) % 60, ho)
        elif q < .7:
            expr = "%d %d,%d * * *" % (mi, ho, (ho + r.choice([1, 2, 5, 12])) % 24)
        elif q < .8:
            expr = "%d %d * * %d" % (mi, ho, dow)
        elif q < .85:
            expr = ("* %d * * %d" if not hours else "*/15 %d * * %d") % (ho, dow)
        elif q < .9:
            expr = "* * * * %d" % dow if not hours else "%d * * * %d" % (mi, dow)
        elif q < .95:
            expr = "%d %d %d * *" % (mi, ho, dom)
        else:
            expr = "%d %d %d %d %d" % (mi, ho, dom, mon, (dow + r.choice([0, 3])) % 7)
        others = [o for o in offs if o != aim]
        r.shuffle(others)
        members = [aim] + others[:r.choice([1, 1, 2, 3])]
        if r.random() < .15:
            members.append(r.choice(members))       # two schedules with the same expression AND the same offset
        r.shuffle(members)
        one_source = r.randrange(nsrc) if r.random() < .5 else None
        for o in members:
            i = one_source if one_source is not None else r.randrange(nsrc)
            s = c["sources"][i]
            sid += 1
            add = dele = None
            if r.random() < .1:
                add = odd(r.randrange(start, end))
            if r.random() < .07:
                dele = odd(r.randrange(add or start, end))
                if add is not None and dele <= add:
                    dele = add + 2
            e = dict(sid=sid, add=add, **{"del": dele}, kind="cron", cron=expr, off=o)
            if s["kind"] == "label":
                e["task"] = r.choice(["t0", "t1"])
            s["entries"].insert(r.randrange(len(s["entries"]) + 1), e)
            for n in range(4):
                k = r.random()
                if k < .2:
                    c["klat"]["%d:%d:%d" % (i, sid, n)] = odd(r.randrange(0, 2 * US) if k < .18 else r.randrange(0, 70 * US))
                if r.random() < .04:
                    c["kfail"].append([i, sid, n])
    for s in c["sources"]:       # the order in which the real sources list (see gen_case); the sort is stable
        if s["kind"] == "label":
            s["entries"].sort(key=lambda e: (e["task"], e["add"] is not None, e["add"] or 0))
        else:
            s["entries"].sort(key=lambda e: (e["add"] is not None, e["add"] or 0))
    c["family"] = "zones-hours" if hours else "zones"
    return c


def gen_zones(r, hours=False):
    base_at, zfirst = None, ()
    if r.random() < .3:      # a daylight-saving change of one of the zones inside the run
        z = r.choice(TZ_DST)
        T = r.choice(transitions(z, r.choice([2024, 2026, 2027, 2029, 2031])))
        base_at, zfirst = T - (r.randrange(20, 110) if hours else r.randint(1, 4)) * MIN, (z,)
    c = gen_long(r, base_at=base_at) if hours else gen_case(r, long=r.random() < .1, base_at=base_at)
    return zonify(r, c, zfirst)


# ------------------------------------------------------------------ payload shapes of the schedule entries
NPAY = (40, 800)                          # runs whose entries vary the shape of the schedule payload: quick, thorough
XVALS = [None, True, 0, -1, 2.5, "", "x", [], [1, [2, {"k": [3]}]], {"a": {"b": [1, 2]}}, {}, [[]], "2", 10**12]
XKW = [{}, {}, {"k": 1}, {"k": [1, 2], "z": {"y": None}}, {"flag": False}, {"n": 0, "m": ""}]
XLAB = [None, None, None, {}, {"x": 1}, {"prio": "high", "n": [1, 2]}, {"queue": ""}]
XEXTRA = [{}, {}, {}, {"every": 60}, {"note": "x", "nested": {"a": [1]}}, {"enabled": True}, {"interval": None}]
XNOISE = [{}, {"args": [1]}, {"every": 60}, {"labels": {"x": 1}}, {"kwargs": {"k": 1}, "cron_offset": "UTC"}]
XTZ = [0, 120, -330, 345, 840, -720, 1]


def gen_pay(r, src_kind, kind, carrier=None):
    """the shape in which one schedule gives its payload.  The entry's number (how the driver recognises the schedule in
    get_task_delay / delayed_send / kick) travels in args[0], kwargs["sid"] or labels["sid"] - or nowhere, when `carrier` is
    "task" (the entry is alone in its task) - so that args / kwargs / labels can each be missing, empty, or nested."""
    label = src_kind == "label"
    car = carrier or r.choice(["args", "args", "args", "kwargs", "labels"])
    shapes = ["list", "tuple", "tuple", "tuple", "deque"] + (["missing", "missing"] if label and car != "args" else [])
    p = dict(carrier=car, args=r.choice(shapes))
    p["xargs"] = [] if p["args"] == "missing" else [r.choice(XVALS) for _ in range(r.choice([0, 0, 0, 1, 2]))]
    if car == "task" and r.random() < .5 and p["args"] != "missing":
        p["xargs"] = [r.choice(XVALS[4:])] + p["xargs"]
    p["kwargs"] = r.choice(([None, None] if label else []) + XKW)
    p["labels"] = r.choice(XLAB)
    p["extra"] = r.choice(XEXTRA) if label else {}
    if kind == "one":
        if r.random() < .25:
            p["tz"] = r.choice(XTZ)
        if r.random() < .15:
            p["tcls"] = True
    return p


def payloadify(r, c):
    """What the schedule ENTRIES look like, beyond their trigger: every loop run so far gave each schedule args = [n] (a list),
    kwargs = {}, no labels of its own, and distinct one-shot times.  Here the entries of all sources carry varied payloads -
    args as list / tuple / deque / left out, extra nested values, kwargs left out / empty / nested, a `labels` dict or none,
    unknown keys, cron_offset on one-shots, aware times and datetime subclasses - the label source gets dicts that it skips
    (neither cron nor time) between the real ones, several one-shots with EQUAL times (in different tasks; in one task under
    the conditions in which 'remove the first trigger with this time' is right), and one dict object shared by the schedule
    lists of two tasks.  One source of the run is a label source, and at least one of its one-shots with a payload that
    pydantic coerces fires early enough for >= 3 later polls to show whether it is still there.  Applied to a gen_case run."""
    start, end = c["start"], c["end"]
    m0, m1 = start // MIN, end // MIN
    srcs = c["sources"]
    if not any(s["kind"] == "label" for s in srcs):      # one source becomes the label source
        cand = [s for s in srcs if s["kind"] == "removing"] or srcs
        s = r.choice(cand)
        s["kind"] = "label"
        for e in s["entries"]:
            e["task"] = r.choice(["t0", "t1"])
    li = [i for i, s in enumerate(srcs) if s["kind"] == "label"][0]
    lab = srcs[li]
    used_T = {e["T"] for s in srcs for e in s["entries"] if e["kind"] == "one"}
    sid = [max(e["sid"] for s in srcs for e in s["entries"])]

    def fresh_T(early):
        hi = max(m0 + 1, m1 - 4) if early else m1 + 1
        mm = r.randrange(m0, hi) * MIN
        T = r.choice([mm, mm + 500_000, mm + US, mm - 1, mm + 1, mm + r.randrange(MIN), mm + r.randrange(MIN),
                      start - r.randrange(1, 5 * MIN)])
        while T in used_T:
            T += 1
        used_T.add(T)
        return T

    def window(p_add=.15, p_del=.1):
        add = dele = None
        if r.random() < p_add:
            add = odd(r.randrange(start, end))
        if r.random() < p_del:
            dele = odd(r.randrange(add or start, end))
            if add is not None and dele <= add:
                dele = add + 2
        return add, dele

    def one(T, i, task=None, win=None, **kw):
        sid[0] += 1
        add, dele = win if win is not None else window()
        e = dict(sid=sid[0], add=add, **{"del": dele}, kind="one", T=T)
        if srcs[i]["kind"] == "label":
            e["task"] = task or r.choice(["t0", "t1"])
        e["pay"] = gen_pay(r, srcs[i]["kind"], "one", **kw)
        srcs[i]["entries"].append(e)
        return e

    def kicks(i, e, p=.2, pf=.05):
        for n in range(4):
            k = r.random()
            if k < p:
                c["klat"]["%d:%d:%d" % (i, e["sid"], n)] = odd(r.randrange(0, 2 * US) if k < .9 * p else r.randrange(0, 70 * US))
            if r.random() < pf:
                c["kfail"].append([i, e["sid"], n])

    # 1. existing entries: most get a payload shape
    for i, s in enumerate(srcs):
        for e in s["entries"]:
            if r.random() < .7:
                e["pay"] = gen_pay(r, s["kind"], e["kind"])
            if e["kind"] == "one" and r.random() < .2:
                e["off"] = r.choice([{"kind": "zone", "zone": r.choice(TZ_ZONES)}, {"kind": "td", "us": r.randrange(-600, 600) * MIN}])
    # 2. one-shots of the label source that fire early in the run, payload in a shape that is not what ScheduledTask stores
    for j in range(r.choice([1, 1, 2, 3])):
        e = one(fresh_T(True), li, win=(None, None) if j == 0 else None)
        if j == 0:
            e["pay"]["args"] = r.choice(["tuple", "tuple", "deque"])
            if e["pay"]["carrier"] != "args" and not e["pay"]["xargs"] and r.random() < .7:
                e["pay"]["xargs"] = [r.choice(XVALS)]
        kicks(li, e, pf=0 if j == 0 else .05)
    # a few more anywhere
    for _ in range(r.choice([0, 1, 2])):
        i = r.randrange(len(srcs))
        kicks(i, one(fresh_T(False), i))
    # 3. an entry that carries no number at all (alone in its task)
    if r.random() < .5:
        i = r.randrange(len(srcs))
        sid[0] += 1
        add, dele = window()
        if r.random() < .6:
            e = dict(sid=sid[0], add=add, **{"del": dele}, kind="one", T=fresh_T(True))
        else:
            e = dict(sid=sid[0], add=add, **{"del": dele}, kind="cron", cron=r.choice(CRONS))
        e["task"] = "solo%d" % e["sid"]
        e["pay"] = gen_pay(r, srcs[i]["kind"], e["kind"], carrier="task")
        srcs[i]["entries"].append(e)
        kicks(i, e)
    # 4. one-shots with EQUAL times
    if r.random() < .55:
        T = fresh_T(r.random() < .8)
        G = r.choice([2, 2, 3])
        if r.random() < .5:
            # ... in ONE task of the label source.  The source removes "the first trigger of the task with this time", which is
            # the sent one as long as the members are listed together, no send of theirs fails and their sends complete in
            # list order - that is what is generated (a common presence window, kicks of a few microseconds in list order);
            # other constellations are a matter of the label source's trigger identity, not of the loop (see notes/C15.md)
            task, win = r.choice(["t0", "t1"]), window(.2, .1)
            for j in range(G):
                e = one(T, li, task=task, win=win, carrier=r.choice(["args", "args", "kwargs", "labels"]))
                e["eq"] = "task"
                for n in range(6):
                    c["klat"]["%d:%d:%d" % (li, e["sid"], n)] = 1 + 2 * (n * G + j)
        else:
            # ... in different tasks / sources: no constraint
            tasks = ["t0", "t1", "t2"]
            r.shuffle(tasks)
            for j in range(G):
                i = li if j < 2 and r.random() < .7 else r.randrange(len(srcs))
                e = one(T, i, task=tasks[j])
                e["eq"] = "apart"
                kicks(i, e, p=.4, pf=.1)
    # 5. ONE dict object in the schedule lists of two tasks (each alone in its task: the dict cannot name both)
    if r.random() < .4:
        kind = "one" if r.random() < .7 else "cron"
        trig = dict(T=fresh_T(True)) if kind == "one" else dict(cron=r.choice(CRONS))
        pay = gen_pay(r, "label", kind, carrier="task")
        pay["share"] = sid[0] + 1
        for _ in range(2):
            sid[0] += 1
            add, dele = window(.1, .1)
            e = dict(sid=sid[0], add=add, **{"del": dele}, kind=kind, task="solo%d" % sid[0], pay=dict(pay), **trig)
            lab["entries"].append(e)
            kicks(li, e)
    # 6. dicts the label source skips, somewhere in the lists
    if r.random() < .5:
        names = sorted({e["task"] for e in lab["entries"]})
        lab["noise"] = [[r.choice(names), r.randrange(4), r.choice(XNOISE)] for _ in range(r.choice([1, 2, 3]))]
    for s in srcs:
        if s["kind"] == "label":
            s["entries"].sort(key=lambda e: (e["task"], e["add"] is not None, e["add"] or 0))
        else:
            s["entries"].sort(key=lambda e: (e["add"] is not None, e["add"] or 0))
    c["family"] = "payload"
    return c


def gen_payload(r):
    return payloadify(r, gen_case(r, long=r.random() < .05))


def count_payload(rep, c, o):
    """evidence distribution of the payload shapes"""
    E = c["end"]
    for i, s in enumerate(c["sources"]):
        lab = ":label-source" if s["kind"] == "label" else ""
        if s.get("noise"):
            rep.count("payload:label-list-holds-dicts-without-cron-or-time", len(s["noise"]))
        for e in s["entries"]:
            p = e.get("pay")
            if e["kind"] == "one" and e.get("off"):
                rep.count("payload:one-shot-with-cron_offset" + lab)
            if e.get("eq"):
                rep.count("payload:one-shots-with-equal-times:" + ("same-task" if e["eq"] == "task" else "different-tasks-or-sources"))
            if not p:
                continue
            rep.count("payload:args:" + p["args"] + lab)
            if p["xargs"]:
                rep.count("payload:args:extra-nested-values" + lab)
            rep.count("payload:kwargs:" + ("missing" if p["kwargs"] is None else "empty" if not p["kwargs"] else "values") + lab)
            rep.count("payload:labels:" + ("absent" if p["labels"] is None else "empty" if not p["labels"] else "values") + lab)
            rep.count("payload:number-travels-in:" + p["carrier"] + lab)
            if p.get("extra"):
                rep.count("payload:unknown-keys" + lab)
            if p.get("tz") is not None:
                rep.count("payload:one-shot-time:" + ("aware-host-local" if p["tz"] == "host" else "aware-fixed-offset") + lab)
            if p.get("tcls"):
                rep.count("payload:one-shot-time:datetime-subclass" + lab)
            if p.get("share") is not None:
                rep.count("payload:dict-shared-by-two-tasks:members")
            if e["kind"] == "one" and s["kind"] != "static":
                # polls that ran after the first completed send of this one-shot: only they can show a trigger that was not removed
                done = [x[0] for x in o["posts"] if x[1] == i and x[2] == e["sid"]]
                if done:
                    later = sum(1 for q in o["polls"] if q["snaps"][i] is not None and q["snaps"][i] > min(done))
                    coerced = p["args"] in ("tuple", "deque") or p.get("tcls")
                    rep.count("payload:one-shot-sent:%s:later-polls-%s" % ("coerced-payload" if coerced else "payload-as-stored",
                                                                           ">=3" if later >= 3 else "<3") + lab)


# ------------------------------------------------------------------ label VALUES of the schedules (round 11)
NLAB = (24, 600)                          # runs whose schedules carry labels with values of varied types: quick, thorough
LKEYS = ["queue", "prio", "kind", "tag", "ratio"]


def FL(x):
    return {"__float__": float(x).hex()}


# spelled the way the C16 cases spell values that are not JSON natives (source_driver.dec builds them in the driver; the classes
# live there): members of a str-mixin Enum / of IntEnums, instances of plain subclasses of str / int / float / bytes ...
LV_SUBCLASS = [{"__enum__": ["Kind", "A"]}, {"__enum__": ["Kind", "B"]}, {"__enum__": ["Prio", "P0"]}, {"__enum__": ["Prio", "P2"]},
               {"__enum__": ["Sw", "ON"]}, {"__enum__": ["Sw", "OFF"]}, {"__sub__": ["str", "high"]}, {"__sub__": ["str", ""]},
               {"__sub__": ["int", 7]}, {"__sub__": ["int", 0]}, {"__sub__": ["float", FL(2.5)]}, {"__sub__": ["bytes", {"__bytes__": "6162"}]}]
# ... values of types that are no primitive at all (they travel as text) ...
LV_OTHER = [{"__enum__": ["Mode", "FULL"]}, {"__enum__": ["Level", "HIGH"]}, {"__enum__": ["Perm", 3]}, {"__dec__": "1.50"},
            {"__frac__": [1, 3]}, {"__date__": [2024, 2, 29]}, {"__uuid__": "%032x" % 5}, {"__tuple__": [1, "a"]}, {"__fset__": [1]},
            {"__bytes__": "00ff"}, {"__bytearray__": "6162"}, {"__path__": "/x/y"}, {"__td__": 5_000_000}, None, [1, 2], {"k": [1]}]
# ... str values with unusual content (what the unchanged tree sends through the default formatter / serializer: notes/C08.md
# "Round 10") ...
LV_TEXT = ["caf\udce9.csv", "\ud800", "a\udc80b", "\U0001F600", "a\x00b", "caf\u00e9", "\ufeff", "\\ud83d", "x" * 6000, "ab\udce9" * 700]
# ... and the primitives themselves
LV_PLAIN = ["high", "", 0, -1, 7, True, False, 2.5, 1e300, {"__bytes__": "6162"}]


def lv_kind(v):
    """what kind of label value this is (evidence; `subclass` = an instance of a proper subclass of a primitive type)"""
    if isinstance(v, dict) and len(v) == 1:
        k, x = next(iter(v.items()))
        if k == "__enum__":
            return {"Kind": "subclass:str-mixin Enum member", "Prio": "subclass:IntEnum member", "Sw": "subclass:IntEnum member",
                    "Perm": "Flag member"}.get(x[0], "Enum member")
        if k == "__sub__":
            return "subclass:instance of a %s subclass" % x[0]
        if k.startswith("__") and k.endswith("__"):
            return {"dec": "Decimal", "frac": "Fraction", "fset": "frozenset", "td": "timedelta"}.get(k.strip("_"), k.strip("_"))
    if isinstance(v, str):
        if any(0xD800 <= ord(ch) <= 0xDFFF for ch in v):
            return "str with a lone surrogate"
        return "str, long" if len(v) >= 5000 else "str, non-ASCII / NUL" if any(ord(ch) > 126 or ch == "\x00" for ch in v) else "str"
    return "None" if v is None else type(v).__name__


def labelify(r, c, aimed=True):
    """The VALUES of the schedules' labels, which every loop run so far held to a handful of plain strs / small ints (and most
    schedules had no labels of their own at all): here about 60 % of the run's schedules - cron, one-shot, any source kind -
    get 1-3 labels whose values are, half of them, instances of SUBCLASSES of the primitive label types (str-mixin Enum and
    IntEnum members - the usual way to spell a queue or a priority -, plain subclasses of str / int / float / bytes), the rest
    values of other types (plain Enum / Flag members, Decimal, date, UUID, tuple, bytes, None, lists), strs with unusual but
    valid content (lone surrogates of a surrogateescape-decoded file name, non-BMP, NUL, long) and the primitives themselves;
    the tasks of a label source get such labels of their own half of the time (the source merges them into every schedule).
    The unchanged kicker sends all of them (prepare_label: exact primitives keep their type, everything else travels as text),
    so the statement and the model demand what they always did: every due schedule sent once per occurrence.  aimed: at least
    one schedule of the run carries a subclass value.  Applied to a run of any family (everything else stays as it was)."""
    def lv():
        q = r.random()
        return r.choice(LV_SUBCLASS if q < .5 else LV_OTHER if q < .7 else LV_TEXT if q < .85 else LV_PLAIN)

    ents = [e for s in c["sources"] for e in s["entries"]]
    chosen = [e for e in ents if r.random() < .6]
    if aimed and not chosen:
        chosen = [r.choice(ents)]
    for n, e in enumerate(chosen):
        L = {k: lv() for k in r.sample(LKEYS, r.choice([1, 1, 2, 3]))}
        if aimed and n == 0 and not any(lv_kind(v).startswith("subclass") for v in L.values()):
            L[r.choice(LKEYS)] = r.choice(LV_SUBCLASS)
        p = e.get("pay")
        if not p:
            p = e["pay"] = dict(carrier="args", args="list", xargs=[], kwargs={}, labels=None, extra={})
        p["labels"] = dict(p.get("labels") or {}, **L)
    for s in c["sources"]:
        if s["kind"] == "label" and r.random() < .5:
            names = sorted({e["task"] for e in s["entries"]})
            s["tlabels"] = {n: {k: lv() for k in r.sample(LKEYS, r.choice([1, 2]))} for n in names if r.random() < .7}
    c["labelled"] = True
    return c


def gen_labelled(r):
    q = r.random()
    c = gen_payload(r) if q < .2 else gen_zones(r) if q < .3 else stylize(r, gen_case(r)) if q < .4 else gen_case(r, long=q > .97)
    labelify(r, c)
    c["family"] = "label-values"
    return c


def count_labels(rep, c, o):
    """evidence distribution of the label values, and of the sends of schedules that carry a subclass-of-primitive value"""
    if not c.get("labelled"):
        return
    rep.count("label-values:runs")
    sub = set()
    for i, s in enumerate(c["sources"]):
        tl = s.get("tlabels") or {}
        for n, L in sorted(tl.items()):
            for v in L.values():
                rep.count("label-values:task-label:" + lv_kind(v))
        for e in s["entries"]:
            L = dict((e.get("pay") or {}).get("labels") or {})
            L.pop("sid", None)
            vals = list(L.values()) + list((tl.get(e.get("task")) or {}).values())
            for v in L.values():
                rep.count("label-values:" + lv_kind(v) + (":label-source" if s["kind"] == "label" else ""))
            if vals:
                rep.count("label-values:schedules-with-such-labels:" + e["kind"])
            if any(lv_kind(v).startswith("subclass") for v in vals):
                sub.add((i, e["sid"]))
    if sub:
        rep.count("label-values:runs-with-a-subclass-of-primitive-value")
    rep.count("label-values:sends-of-schedules-with-a-subclass-of-primitive-value", sum(1 for k in o["kicks"] if (k[0], k[1]) in sub))


# ------------------------------------------------------------------ equal times in ONE task, with failing / slow earlier sends
NEQ = (28, 600)                           # runs with same-task equal-time groups under send faults: quick, thorough


def equalize(r, c):
    """One-shots that a source may not be able to tell apart, under the faults that make it matter: 1-2 groups of 2-4 one-shots
    with EQUAL times in ONE task of the label source, where the send of an earlier-listed member fails, is still in flight at
    the next poll(s), or merely completes after a later-listed member's (reverse order, everything done before the next poll);
    faults on later attempts and on the last member too; a common presence window or individual additions / deletions; times
    naive, aware (one instant at equal or different offsets) or - control - naive next to aware (not equal for the source);
    further controls: the same group in a scripted removing source (identity = schedule id), a group without any fault.
    The unchanged label source removes 'the first trigger of the task with this time' - the known finding
    label_equal_times_wrong_entry; everything else that repeats a send here is a violation.  Applied to a gen_case run."""
    start, end = c["start"], c["end"]
    m0, m1 = start // MIN, end // MIN
    srcs = c["sources"]
    if not any(s["kind"] == "label" for s in srcs):
        s = r.choice([s for s in srcs if s["kind"] == "removing"] or srcs)
        s["kind"] = "label"
        for e in s["entries"]:
            e["task"] = r.choice(["t0", "t1"])
    li = [i for i, s in enumerate(srcs) if s["kind"] == "label"][0]
    used_T = {e["T"] for s in srcs for e in s["entries"] if e["kind"] == "one"}
    sid = max(e["sid"] for s in srcs for e in s["entries"])
    c["eqgroups"] = []
    for g in range(r.choice([1, 1, 2])):
        rem = [i for i, s in enumerate(srcs) if s["kind"] == "removing"]
        i = r.choice(rem) if rem and r.random() < .15 else li
        mm = r.randrange(m0, max(m0 + 1, m1 - 3)) * MIN
        T = r.choice([mm, mm + 500_000, mm + US, mm - 1, mm + 1, mm + r.randrange(MIN), mm + r.randrange(MIN), mm + r.randrange(MIN),
                      start - r.randrange(1, 5 * MIN)])
        while T in used_T:
            T += 1
        used_T.add(T)
        G = r.choice([2, 2, 2, 3, 3, 4])
        task = r.choice(["t0", "t1", "t2"])
        shape = r.choice(["naive"] * 7 + ["aware", "aware-offsets", "mixed"])
        common = None
        if r.random() < .7:
            common = (None, None) if r.random() < .7 else (odd(r.randrange(start, max(start + 1, min(T, end)))), None)
        plan = r.choice(["fail", "fail", "fail", "slow", "slow", "reverse", "mix", "none"])
        lat_small = r.sample(range(G * 8 + 8), G * 8)
        members = []
        for j in range(G):
            sid += 1
            add, dele = common if common is not None else (
                odd(r.randrange(start, end)) if r.random() < .4 else None, None)
            if r.random() < .08:
                dele = odd(r.randrange(max(add or start, min(T, end - 1)), end))
            e = dict(sid=sid, add=add, **{"del": dele}, kind="one", T=T, eqf=g)
            if srcs[i]["kind"] == "label":
                e["task"] = task
            if r.random() < .35 or shape != "naive":
                e["pay"] = gen_pay(r, srcs[i]["kind"], "one", carrier=r.choice(["args", "args", "kwargs", "labels"]))
                e["pay"].pop("tz", None)
                if shape == "aware":
                    e["pay"]["tz"] = XTZ[g]
                elif shape == "aware-offsets":
                    e["pay"]["tz"] = r.choice(XTZ)
                elif shape == "mixed" and j % 2 == 1:
                    e["pay"]["tz"] = r.choice(XTZ)
            last = j == G - 1
            for n in range(8):
                key = "%d:%d:%d" % (i, sid, n)
                c["klat"][key] = 1 + 2 * lat_small[j * 8 + n]        # distinct within the group: completions do not tie
                fault = plan if plan != "mix" else r.choice(["fail", "slow", "reverse", "none"])
                p = (.75 if n == 0 else .2) if not last else .1
                if fault == "none" or r.random() >= p:
                    continue
                if fault == "fail":
                    c["kfail"].append([i, sid, n])
                elif fault == "slow":        # beyond the next poll, or the next few
                    c["klat"][key] = odd(r.choice([r.randrange(US, 70 * US), r.randrange(55 * US, 200 * US)]))
                else:                        # done before the next poll, but after the later-listed members
                    c["klat"][key] = odd(r.randrange(100, 3000) + 2 * G * 8)
            members.append(e)
            srcs[i]["entries"].append(e)
        c["eqgroups"].append(dict(source=i, kind=srcs[i]["kind"], plan=plan, shape=shape, sids=[e["sid"] for e in members]))
    for s in srcs:
        if s["kind"] == "label":
            s["entries"].sort(key=lambda e: (e["task"], e["add"] is not None, e["add"] or 0))
        else:
            s["entries"].sort(key=lambda e: (e["add"] is not None, e["add"] or 0))
    c["family"] = "equal-times-faults"
    return c


def gen_eqfaults(r):
    c = gen_case(r)
    if r.random() < .3:
        c = payloadify(r, c)
    return equalize(r, c)


def count_equal(rep, c, o):
    """evidence distribution of the equal-time groups and of what post_send was seen to remove"""
    for g in c.get("eqgroups", []):
        where = "one-task-of-label-source" if g["kind"] == "label" else "control:scripted-removing-source"
        rep.count("equal-times-faults:group:" + where)
        rep.count("equal-times-faults:group:members", len(g["sids"]))
        rep.count("equal-times-faults:group:earlier-sends:" + {"fail": "fail", "slow": "still-in-flight-at-later-polls",
                                                               "reverse": "complete-after-the-later-listed-ones", "mix": "mixed",
                                                               "none": "control:no-fault"}[g["plan"]])
        rep.count("equal-times-faults:group:times:" + ("control:naive-next-to-aware" if g["shape"] == "mixed" else g["shape"]))
    info = kind_of(c)
    for at, i, sid, n, removed in o["posts"]:
        if c["sources"][i]["kind"] != "label" or info[(i, sid)]["kind"] != "one":
            continue
        before, after = indistinguishable(c, i, info[(i, sid)])
        if not before and not after:
            continue
        b, a = {x["sid"] for x in before}, {x["sid"] for x in after}
        for x in removed or [None]:
            rep.count("equal-times:post_send-of-a-group-member-removed:" + (
                "nothing" if x is None else "its-own-trigger" if x == sid else "trigger-of-an-earlier-listed-member" if x in b
                else "trigger-of-a-later-listed-member" if x in a else "ANOTHER-TRIGGER"))


# ------------------------------------------------------------------ how the sources' callbacks are written
NCB = (30, 800)                           # runs whose sources write get_schedules / pre_send / post_send in varied styles
LIST_STYLES = ["async", "coro", "task", "future", "awaitobj", "gencoro", "shield"]
CB_STYLES = ["sync", "async", "coro", "task", "future", "done_future", "awaitobj", "gencoro", "gather", "shield"]
CB_BINDS = ["class", "class", "class", "instance", "callable", "partial"]


def gen_cb(r, k=None):
    """how ONE source writes its callbacks (see sched_driver.styled): k given = the k-th run of the family, whose aimed source
    walks through the styles so that every style of every callback occurs in every check"""
    if k is None:
        return dict(list=r.choice(LIST_STYLES), pre=r.choice([None, None] + CB_STYLES), post=r.choice(CB_STYLES),
                    bind=r.choice(CB_BINDS))
    return dict(list=LIST_STYLES[(k // 2) % len(LIST_STYLES)], pre=([None] + CB_STYLES)[(k // 3) % (len(CB_STYLES) + 1)],
                post=CB_STYLES[k % len(CB_STYLES)], bind=CB_BINDS[2:][(k // len(CB_STYLES) + k) % 4])


def stylize(r, c, k=None):
    """How the SOURCES are written, which every loop run so far held constant: `async def get_schedules`, no pre_send of
    their own, post_send a plain def that does the removal itself.  The scheduler takes whatever a callback hands back
    (taskiq.utils.maybe_awaitable, `await source.get_schedules()`), so here each source of the run writes each of the three
    as: plain def doing the work / `async def` / plain def returning a coroutine object, a Task, a bare Future resolved by work
    running elsewhere, a Future already done, an object that is awaitable through __await__ only (a lazy query object: the
    removal runs when it is awaited, and only then), a generator-based coroutine, asyncio.gather(...) / asyncio.shield(...) -
    as methods of the class or bound on the instance after the scheduler was built (bound method, callable object,
    functools.partial).  The work and its virtual instants are unchanged, so the statement and the model demand what they
    always did; a callback whose awaitable is dropped shows as a one-shot that stays listed and is sent again after its send
    had completed (post_send), or as a send that never happens (a callback raising on it).  With k (the family's own runs) one
    removing / label source is aimed: its style is the k-th of the walk and it gets a one-shot without presence window or
    kick fault that fires >= 4 minutes before the end.  Applied to a run of any family (everything else stays as it was)."""
    srcs = c["sources"]
    for s in srcs:
        s["cb"] = gen_cb(r)
    if k is None:
        return c
    start, end = c["start"], c["end"]
    m0, m1 = start // MIN, end // MIN
    cand = [i for i, s in enumerate(srcs) if s["kind"] != "static"]
    if not cand:
        i = r.randrange(len(srcs))
        srcs[i]["kind"] = "removing"
        cand = [i]
    i = r.choice(cand)
    s = srcs[i]
    s["cb"] = gen_cb(r, k)
    used_T = {e["T"] for x in srcs for e in x["entries"] if e["kind"] == "one"}
    mm = r.randrange(m0, max(m0 + 1, m1 - 4)) * MIN
    T = r.choice([mm, mm + 500_000, mm + US, mm - 1, mm + 1, mm + r.randrange(MIN), mm + r.randrange(MIN), start - r.randrange(1, 5 * MIN)])
    while T in used_T:
        T += 1
    sid = max(e["sid"] for x in srcs for e in x["entries"]) + 1
    e = dict(sid=sid, add=None, **{"del": None}, kind="one", T=T, aimed=True)
    if s["kind"] == "label":
        e["task"] = r.choice(["t0", "t1", "t2"])
    s["entries"].append(e)
    c["kfail"] = [x for x in c["kfail"] if not (x[0] == i and x[1] == sid)]
    for n in range(8):
        c["klat"]["%d:%d:%d" % (i, sid, n)] = odd(r.randrange(0, 2 * US) if r.random() < .9 else r.randrange(0, 70 * US))
    if s["kind"] == "label":
        s["entries"].sort(key=lambda e: (e["task"], e["add"] is not None, e["add"] or 0))
    else:
        s["entries"].sort(key=lambda e: (e["add"] is not None, e["add"] or 0))
    c["family"] = "callback-styles"
    return c


def gen_callbacks(r, k):
    q = r.random()
    c = gen_payload(r) if q < .12 else gen_zones(r) if q < .2 else gen_case(r, long=q > .96)
    return stylize(r, c, k)


def count_callbacks(rep, c, o):
    """evidence distribution of the callback styles, and of the one-shots whose removal by a post_send of each style later polls
    could have contradicted"""
    for i, s in enumerate(c["sources"]):
        cb = s.get("cb")
        if not cb:
            continue
        lab = ":label-source" if s["kind"] == "label" else ""
        rep.count("callbacks:sources-with-written-callbacks")
        rep.count("callbacks:get_schedules:" + cb["list"] + lab)
        rep.count("callbacks:pre_send:" + (cb["pre"] or "inherited") + lab)
        rep.count("callbacks:post_send:" + cb["post"] + lab)
        rep.count("callbacks:found-by-the-scheduler-as:" + {"class": "method-of-the-class", "instance": "bound-method-set-on-the-instance",
                                                            "callable": "callable-object-set-on-the-instance",
                                                            "partial": "functools.partial-set-on-the-instance"}[cb["bind"]])
        if cb["pre"]:
            rep.count("callbacks:pre_send:calls:" + cb["pre"], sum(1 for x in o.get("pres", []) if x[1] == i))
        rep.count("callbacks:post_send:calls:" + cb["post"], sum(1 for x in o["posts"] if x[1] == i))
        if s["kind"] == "static":
            continue
        for e in s["entries"]:
            if e["kind"] != "one":
                continue
            done = [k[7] for k in o["kicks"] if k[0] == i and k[1] == e["sid"] and k[4] is True and k[7] is not None]
            if done:
                later = sum(1 for q in o["polls"] if q["snaps"][i] is not None and q["snaps"][i] > min(done))
                rep.count("callbacks:one-shot-sent:post_send-%s:later-polls-%s" % (cb["post"], ">=3" if later >= 3 else "1-2" if later else "0") + lab)


# ------------------------------------------------------------------ the time zone of the HOST the scheduler runs on
NHOST = (30, 800)                         # runs on a host whose zone is not UTC: quick, thorough
# POSIX TZ strings (no zone database needed; (string, standard offset, DST offset) in minutes east of UTC) and IANA names resolved
# by the C library.  Whole-minute offsets only: the loop sleeps to the next minute of the host's wall clock, and the statement's
# "minute boundary" is the same instant on every such host.  The offsets are used to AIM one-shot times only - neither the
# oracle nor the model ever sees the host zone.
HOSTS_POSIX = [("MSK-3", 180, 180), ("EST5EDT", -300, -240), ("EST5", -300, -300), ("IST-5:30", 330, 330),
               ("NPT-5:45", 345, 345), ("NZST-12NZDT", 720, 780), ("<+14>-14", 840, 840), ("<-12>12", -720, -720),
               ("NST3:30NDT", -210, -150), ("AEST-10AEDT,M10.1.0,M4.1.0/3", 600, 660), ("CET-1CEST", 60, 120),
               ("GMT0BST", 0, 60), ("PST8PDT", -480, -420), ("<+0020>-0:20", 20, 20), ("<-0001>0:01", -1, -1), ("UTC0", 0, 0)]
HOSTS_IANA = [z for z in TZ_ZONES if z != "UTC"] + ["America/Los_Angeles", "Australia/Adelaide", "Asia/Kabul", "Pacific/Honolulu"]


def host_offsets(host, t_us):
    """the UTC offsets (us) the host zone may show around t_us - used only to aim times"""
    for h, a, b in HOSTS_POSIX:
        if h == host:
            return sorted({a * MIN, b * MIN})
    z = {"kind": "zone", "zone": host.lstrip(":")}
    return sorted({shift_us(t_us, z), shift_us(t_us + 200 * DAY * MIN, z)})


def hostify(r, c, host, hostkind, aimed=True):
    """The machine the scheduler process runs on, which every loop run so far held constant (TZ = UTC, the container): here the
    run happens on a host in another zone - east / west of UTC, half-hour / 45 / 20 / 1 minute offsets, with and without
    daylight saving, POSIX strings and IANA names, a part of them with the host's OWN offset change inside the run.  The
    statement does not mention the host: a naive one-shot time is a UTC wall clock (taskiq's convention), an aware one an
    instant, a cron without cron_offset is read on UTC, one with it on that offset's wall clock - so the case, the oracle and
    the model are what they are without `host`; only the process environment of the driver differs (TZ + tzset, and the
    controlled clock's now() without tz showing the host's wall clock).  A loop that reads anything in local time - a naive
    one-shot time, `now` for a cron, the minute boundary - sends at instants shifted by the host's offset.  With `aimed`, a
    removing / label source also gets, free of presence windows and kick faults: a naive one-shot in the future of the start
    (east of UTC a local reading sends it at the first poll, early), a naive one already past (west of UTC a local reading
    never sends it), a naive one whose LOCAL reading falls inside the run (its true instant mostly lies outside it), and aware
    ones of the same kinds (UTC, fixed offsets, the host's own zone as CPython spells it).  Applied to a run of any family."""
    c["host"], c["hostkind"] = host, hostkind
    if not aimed:
        return c
    start, end = c["start"], c["end"]
    m0, m1 = start // MIN, end // MIN
    srcs = c["sources"]
    cand = [i for i, s in enumerate(srcs) if s["kind"] != "static"]
    if not cand:
        i = r.randrange(len(srcs))
        srcs[i]["kind"] = "removing"
        cand = [i]
    used_T = {e["T"] for s in srcs for e in s["entries"] if e["kind"] == "one"}
    sid = [max(e["sid"] for s in srcs for e in s["entries"])]
    offs = [x for x in host_offsets(host, start) if x] or [0]

    def one(T, spell):
        while T in used_T:
            T += 1
        used_T.add(T)
        i = r.choice(cand)
        sid[0] += 1
        e = dict(sid=sid[0], add=None, **{"del": None}, kind="one", T=T, hostaim=spell)
        if srcs[i]["kind"] == "label":
            e["task"] = r.choice(["t0", "t1", "t2"])
        if spell == "aware-utc":
            e["naive"] = False
        elif spell != "naive":
            e["pay"] = gen_pay(r, srcs[i]["kind"], "one", carrier="args")
            e["pay"].pop("tcls", None)
            e["pay"]["tz"] = "host" if spell == "aware-host-local" else r.choice(XTZ)
        elif r.random() < .15:
            e["pay"] = gen_pay(r, srcs[i]["kind"], "one", carrier="args")
            e["pay"].pop("tz", None)
        srcs[i]["entries"].append(e)
        c["kfail"] = [x for x in c["kfail"] if not (x[0] == i and x[1] == e["sid"])]
        for n in range(8):
            c["klat"]["%d:%d:%d" % (i, e["sid"], n)] = odd(r.randrange(0, 2 * US) if r.random() < .9 else r.randrange(0, 70 * US))
        return e

    def future():
        mm = r.randrange(m0 + 1, max(m0 + 2, m1 - 1)) * MIN
        return r.choice([mm, mm + 500_000, mm + US, mm - 1, mm + 1, mm + r.randrange(MIN), mm + r.randrange(MIN)])

    def past():
        return start - r.choice([1, 500_000, US, r.randrange(1, MIN), r.randrange(1, 5 * MIN), r.randrange(1, 5 * MIN)])

    def local_reading():
        # the instant whose local (mis)reading - shifted by the host's offset either way - is a moment of the run
        return (future() if r.random() < .7 else past()) + r.choice(offs) * r.choice([1, 1, -1])

    aware = ["aware-utc", "aware-fixed-offset", "aware-host-local", "aware-host-local"]
    one(future(), "naive")
    if r.random() < .7:
        one(past(), "naive")
    if r.random() < .4:
        one(local_reading(), "naive")
    if r.random() < .3:
        one(future(), "naive")
    for f, p in ((future, .6), (past, .3), (local_reading, .25)):
        if r.random() < p:
            one(f(), r.choice(aware))
    if r.random() < .2:           # a naive and an aware one-shot of ONE instant, side by side
        T = future()
        a = one(T, "naive")
        used_T.discard(a["T"])
        one(a["T"], r.choice(aware))
    for s in srcs:
        if s["kind"] == "label":
            s["entries"].sort(key=lambda e: (e["task"], e["add"] is not None, e["add"] or 0))
        else:
            s["entries"].sort(key=lambda e: (e["add"] is not None, e["add"] or 0))
    c["family"] = "host-zone"
    return c


def pick_host(r):
    if r.random() < .45:
        return r.choice(HOSTS_POSIX[:-1])[0], "posix"
    return (":" if r.random() < .1 else "") + r.choice(HOSTS_IANA), "iana"      # ":name" = glibc's explicit file form


def gen_hosts(r, k):
    """the k-th run of the host-zone family (k walks through the host zones so that every check has east, west, half-hour and
    daylight-saving hosts); a fifth: an IANA host with daylight saving whose own offset changes inside the run"""
    q = r.random()
    if k % 5 == 4:
        z = r.choice(TZ_DST)
        T = r.choice(transitions(z, r.choice([2024, 2025, 2026, 2027, 2029])))
        c = gen_case(r, long=r.random() < .1, base_at=T - r.randint(1, 4) * MIN)
        return hostify(r, c, z, "iana-at-own-transition")
    c = gen_payload(r) if q < .1 else gen_zones(r) if q < .3 else gen_case(r, long=q > .95)
    hosts = [(h, "posix") for h, _, _ in HOSTS_POSIX[:-1]] + [(h, "iana") for h in HOSTS_IANA]
    host, kind = hosts[(k * 7) % len(hosts)]
    if kind == "iana" and r.random() < .1:
        host = ":" + host
    return hostify(r, c, host, kind)


def count_host(rep, c, o):
    """evidence distribution of the host zones and of the one-shots a local reading would move"""
    h = o.get("host") or {}
    rep.count("host-zone:runs")
    rep.count("host-zone:kind:" + c.get("hostkind", "?"))
    a, b = h.get("off_start_us"), h.get("off_end_us")
    if a is None:
        return
    rep.count("host-zone:offset-at-start:" + ("east-of-UTC" if a > 0 else "west-of-UTC" if a < 0 else "zero"))
    if a % (60 * MIN):
        rep.count("host-zone:offset-at-start:not-whole-hours")
    if a != b:
        rep.count("host-zone:own-offset-change-inside-the-run")
    if any(e["kind"] == "cron" and e.get("off") for s in c["sources"] for e in s["entries"]):
        rep.count("host-zone:runs-with-cron_offset-schedules")
    if any(e["kind"] == "cron" and not e.get("off") and any(ch.isdigit() for ch in e["cron"].split(" ")[1])
           for s in c["sources"] for e in s["entries"]):
        rep.count("host-zone:runs-with-hour-bound-cron-without-offset")
    for i, s in enumerate(c["sources"]):
        for e in s["entries"]:
            if e["kind"] != "one":
                continue
            p = e.get("pay") or {}
            spell = "aware-host-local" if p.get("tz") == "host" else "aware" if is_aware(e) else "naive"
            rep.count("host-zone:one-shot:" + spell)
            if a and e.get("hostaim"):
                sent = any(k[0] == i and k[1] == e["sid"] for k in o["kicks"])
                inside = c["start"] <= e["T"] < c["end"]
                rep.count("host-zone:aimed-one-shot:%s:%s:%s" % (spell, "time-in-run" if inside else "time-before-start"
                          if e["T"] < c["start"] else "time-after-end", "sent" if sent else "not-sent"))
                if spell == "naive" and (e["T"] < c["end"] or e["T"] - a < c["end"]):
                    rep.count("host-zone:aimed-naive-one-shot-that-a-local-reading-would-send-elsewhere")


def same_expr_groups(c):
    """groups of cron entries that share the expression string but not the cron_offset: [(expr, [(source, entry), ...])]"""
    by = {}
    for i, s in enumerate(c["sources"]):
        for e in s["entries"]:
            if e["kind"] == "cron":
                by.setdefault(e["cron"], []).append((i, e))
    return [(x, l) for x, l in sorted(by.items()) if len({off_key(e.get("off")) for _, e in l}) >= 2]


def recurrences(c):
    """per cron entry: (number of matching minutes in the run, does a later match fall on the minute-of-hour of the previous
    one, does one fall on the same hour-of-day and minute a day later) - for the evidence distribution only"""
    out = []
    mins = range(c["start"] // MIN, c["end"] // MIN + 1)
    for i, s in enumerate(c["sources"]):
        for e in s["entries"]:
            if e["kind"] != "cron":
                continue
            ms = [m for m in mins if cron_matches(e["cron"], m, e.get("off"))]
            same_min = any(b % 60 == a % 60 for a, b in zip(ms, ms[1:]))
            same_hm = any(b % DAY == a % DAY for a, b in zip(ms, ms[1:]))
            out.append((s["kind"], len(ms), same_min, same_hm))
    return out


def kind_of(c):
    return {(i, e["sid"]): e for i, s in enumerate(c["sources"]) for e in s["entries"]}


def nontrivial(c):
    if (c["end"] // MIN) - (c["start"] // MIN) < 3:
        return False
    ents = [e for s in c["sources"] for e in s["entries"]]
    mins = range(c["start"] // MIN, c["end"] // MIN + 1)
    both = any(e["kind"] == "cron" and len({cron_matches(e["cron"], m, e.get("off")) for m in mins}) == 2 for e in ents)
    return both and any(e["kind"] == "one" for e in ents) and bool(c["lfail"] or c["kfail"])


# ------------------------------------------------------------------ oracle (literal transcription of the statement)
def next_boundary(t):
    return t // MIN * MIN + MIN


def oracle(c, o):
    """list of (what, sig) - every way in which this observed run contradicts the statement"""
    out = []
    E = c["end"]
    info = kind_of(c)
    for a in o["anomalies"]:
        out.append(("scheduler loop iteration is not what the statement describes: " + a, {}))
    if o["dead"]:
        out.append(("the scheduler loop stopped: %s" % o["dead"].get("loop"), {"kind": "loop_dead"}))
    polls = o["polls"]
    # -- poll instants
    expect = c["start"]
    for k, p in enumerate(polls):
        if any(x != expect for x in p["calls"]):
            out.append(("poll %d: sources were not all polled at %s" % (k, "the start" if k == 0 else "the minute boundary"),
                        {"kind": "poll_instant", "poll": k}))
            break
        expect = next_boundary(p["b"])
    else:
        tail = o["tail"]
        if expect < E:
            if not tail or any(at != expect for _, at in tail["calls"]) or len(tail["calls"]) != len(c["sources"]):
                out.append(("no poll at the minute boundary %d although the loop had to be alive" % expect,
                            {"kind": "poll_missing"}))
        elif tail:
            out.append(("an extra poll before the next minute boundary", {"kind": "poll_extra"}))
    # -- per poll: crons
    kicks = {(k[0], k[1], k[2]): k for k in o["kicks"]}
    spawned = set()
    attempts = {}
    for k, p in enumerate(polls):
        b = p["b"]
        per = {}
        for s in p["spawns"]:
            per.setdefault((s[0], s[1]), []).append(s)
            spawned.add((s[0], s[1], s[2]))
            attempts.setdefault((s[0], s[1]), []).append(dict(poll=k, n=s[2], fire=b + s[3] * US, b=b,
                                                              snap=p["snaps"][s[0]] if s[0] < len(p["snaps"]) else None))
        listed = set()
        for i, l in enumerate(p["listings"]):
            for sid, _ in (l or []):
                listed.add((i, sid))
                e = info[(i, sid)]
                got = per.get((i, sid), [])
                if e["kind"] == "cron":
                    want = 1 if cron_due(e, b) else 0
                    if len(got) != want or any(s[3] != 0 for s in got):
                        out.append(("cron schedule listed in a minute it %s sent %d times" % (
                            "matches was" if want else "does not match was", len(got)),
                                    {"kind": "cron_count", "poll": k, "source": i, "sid": sid, "cron": e["cron"], "cron_offset": e.get("off")}))
                elif e["kind"] == "bad" and got:
                    out.append(("unparsable cron was sent", {"kind": "bad_sent"}))
        for key in per:
            if key not in listed:
                out.append(("a schedule that was not listed by its source at this poll was sent", {"kind": "unlisted", "poll": k}))
    # -- every kick belongs to a spawned send, happens at its fire instant, carries the schedule id
    for key, kk in kicks.items():
        if key not in spawned:
            out.append(("a message was sent that no poll scheduled", {"kind": "stray_kick"}))
    for (i, sid), atts in attempts.items():
        e = info[(i, sid)]
        for a in atts:
            kk = kicks.get((i, sid, a["n"]))
            if a["fire"] < E:
                if kk is None or kk[3] != a["fire"]:
                    out.append(("a due schedule was not sent at the instant it was scheduled for", {"kind": "kick_instant"}))
                elif not kk[5] or (c["sources"][i]["kind"] != "label" and kk[5] != "s%d" % sid):
                    out.append(("sent message lacks the schedule_id label", {"kind": "schedule_id"}))
            if e["kind"] == "one":
                T = e["T"]
                if a["fire"] < T:
                    out.append(("one-shot sent before its time", {"kind": "early"}))
                elif T <= a["b"]:
                    if a["fire"] != a["b"]:
                        out.append(("past one-shot not sent at the poll that saw it", {"kind": "late_past"}))
                elif a["fire"] >= T + US:
                    out.append(("one-shot sent more than one second late", {"kind": "late"}))
    # -- one-shots of removing sources: missed sends, repeated sends
    posts = {}
    post_seq = {}            # (source, sid, attempt) -> position of that send's post_send in the run (= the send completed)
    my_posts = {}
    for q, (at, i, sid, n, removed) in enumerate(o["posts"]):
        posts.setdefault((i, sid), []).append(at)
        post_seq.setdefault((i, sid, n), q)
        my_posts.setdefault((i, sid), []).append((q, at, removed))
    for i, s in enumerate(c["sources"]):
        for e in s["entries"]:
            if e["kind"] != "one":
                continue
            key = (i, e["sid"])
            atts = attempts.get(key, [])
            T = e["T"]
            # missed: listed by a poll after which no later poll can still be on time, and never sent before
            for k, p in enumerate(polls):
                l = p["listings"][i]
                if l is None or e["sid"] not in [x[0] for x in l]:
                    continue
                if (T <= p["b"] or T < next_boundary(p["b"])) and not any(a["poll"] <= k for a in atts):
                    out.append(("one-shot listed at a poll was not sent although no later poll could send it in time",
                                {"kind": "missed", "poll": k}))
                    break
            if s["kind"] == "static":
                continue
            # the instant the first send of this one-shot COMPLETED: its kick returned without raising (the unchanged
            # scheduler runs post_send at that very instant; taken from the broker, not from the source's callback, so that a
            # callback that never runs does not pass for a send still in flight)
            first_done = min([kk[7] for (ki, ks, _), kk in kicks.items() if (ki, ks) == key and kk[4] is True and kk[7] is not None],
                             default=None)
            for a in atts[1:]:
                earlier = [x for x in atts if x["n"] < a["n"]]
                failed_before = any(kicks.get((i, e["sid"], x["n"])) is not None and kicks[(i, e["sid"], x["n"])][4] is False
                                    for x in earlier)
                if failed_before:
                    continue            # a failed send may be repeated: it affected only that schedule's occurrence
                inflight = first_done is None or a["snap"] is None or a["snap"] <= first_done
                # the documented look-ahead window of a poll whose get_task_delay ran at b: T <= next boundary + 1 s (C14);
                # computed here from the observed call instants, not from the implementation's answer
                armed_in_window = all(T <= next_boundary(x["b"]) + US for x in earlier + [a])
                wrong = None if inflight else wrong_entry(c, i, e, a, my_posts.get(key, []), attempts, kicks, post_seq)
                if wrong:
                    out.append(("one-shot sent again by a poll after its send had completed (label source: that send's post_send "
                                "took the equal-time trigger of a one-shot listed before it in the same task, whose own send had "
                                "failed or was still in flight, out of the list - the sent one stayed listed)",
                                dict(wrong, kind=SIG_EQ, source=i, sid=e["sid"], attempt=a["n"], poll=a["poll"])))
                    continue
                if not inflight:
                    how = " by a poll after its send had completed"
                elif armed_in_window:
                    how = " by a poll that listed it while its first send was still in flight"
                else:
                    how = (" and one of the polls armed it outside the look-ahead window (T later than the minute boundary "
                           "after that poll + 1 s)")
                out.append(("one-shot sent again" + how,
                            {"kind": "oneshot_resent", "overlap": bool(inflight), "armed_in_window": bool(armed_in_window),
                             "source": i, "sid": e["sid"], "attempt": a["n"], "poll": a["poll"],
                             "poll_at_or_before_first_fire": polls[a["poll"]]["calls"][i] <= atts[0]["fire"]}))
    return out


SIG_EQ = "label_equal_times_wrong_entry"


def is_aware(e):
    return (e.get("pay") or {}).get("tz") is not None or not e.get("naive", True)


def list_pos(ents, e):
    """where the trigger of entry e stands in its task's schedule list, relative to the other entries of the source: the
    initial ones in the order of the case, then the added ones by the instant of the addition (appended)"""
    return (e["add"] is not None, e["add"] or 0, [x["sid"] for x in ents].index(e["sid"]))


def indistinguishable(c, i, e):
    """the OTHER one-shots of the label source i that its post_send cannot tell from e - same task, equal time (two naive
    or two aware datetimes of one instant) - as (listed before e, listed after e); ([], []) for any other source kind"""
    s = c["sources"][i]
    if s["kind"] != "label" or e["kind"] != "one":
        return [], []
    ents = s["entries"]
    same = [x for x in ents if x["sid"] != e["sid"] and x["kind"] == "one" and x.get("task") == e.get("task") and
            x["T"] == e["T"] and is_aware(x) == is_aware(e)]
    pe = list_pos(ents, e)
    return [x for x in same if list_pos(ents, x) < pe], [x for x in same if list_pos(ents, x) > pe]


def wrong_entry(c, i, e, a, mine, attempts, kicks, post_seq):
    """Is the repeated send `a` of one-shot e (listed again by a poll after a send of e had completed) the known finding
    label_equal_times_wrong_entry?  Exactly this shape: label source; e has one-shots of the same task with an equal time
    listed BEFORE it; a send of e completed before the listing snapshot of a's poll and its post_send was observed to remove
    the trigger of one of those instead of e's; and at that moment one of those earlier-listed ones had a send that had been
    spawned and had not completed - failed, or still in flight.  Returns the details, or None (any other repeated send)."""
    before, _ = indistinguishable(c, i, e)
    if not before or a["snap"] is None:
        return None
    bs = {x["sid"] for x in before}
    for q, at, removed in mine:
        if not at < a["snap"] or not set(removed) & bs or e["sid"] in removed:
            continue
        for x in before:
            for xa in attempts.get((i, x["sid"]), []):
                if xa["b"] > at:
                    continue
                done = post_seq.get((i, x["sid"], xa["n"]))
                if done is not None and done < q:
                    continue
                kk = kicks.get((i, x["sid"], xa["n"]))
                return dict(removed_trigger_of=sorted(set(removed) & bs), earlier_listed=x["sid"], earlier_attempt=xa["n"],
                            earlier_send="failed" if kk is not None and kk[4] is False else "in-flight", overlap=False)
    return None


def foreign_removals(c, o):
    """post_send calls that were observed to take ANOTHER entry's trigger out of a label source's lists:
    [(source, sent entry, entry whose trigger went, True iff the source cannot tell the two apart)]"""
    info = kind_of(c)
    out = []
    for at, i, sid, n, removed in o["posts"]:
        for x in removed:
            if x != sid:
                e = info.get((i, sid))
                a, b = indistinguishable(c, i, e) if e else ([], [])
                out.append((i, sid, x, x in [y["sid"] for y in a + b]))
    return out


def sig_eq(f):
    # the label source removes "the first trigger of the task with this time": see wrong_entry for the exact shape
    s = f.get("sig") or {}
    return s.get("kind") == SIG_EQ and bool(s.get("removed_trigger_of")) and s.get("earlier_send") in ("failed", "in-flight")


def sig_d7(f):
    s = f.get("sig") or {}
    # D7 is the double send inherent to the documented look-ahead window: the second poll listed the one-shot while the
    # first send was still in flight AND every poll involved armed it inside its window (T <= next boundary + 1 s)
    return s.get("kind") == "oneshot_resent" and s.get("overlap") is True and s.get("armed_in_window") is True


SIGNATURES = {"oneshot_resent_by_overlapping_poll": sig_d7, SIG_EQ: sig_eq}


# ------------------------------------------------------------------ Coq literals
def c_kind(e, cron_ids):
    if e["kind"] == "one":
        return "(KOne %s)" % C.cz(e["T"])
    if e["kind"] == "bad":
        return "KBadCron"
    return "(KCron %s)" % C.cn(cron_ids[(e["cron"], off_key(e.get("off")))])


def c_dres(d):
    if d == "ValueError":
        return "DErr"
    if d is None:
        return "DNo"
    assert isinstance(d, int) and not isinstance(d, bool), d
    return "(DSend %s)" % C.cz(d)


def c_listing(l):
    return C.copt(None if l is None else C.clist(["(%s, %s)" % (C.cn(sid), c_dres(d)) for sid, d in l]))


def cron_table(expr, off, m0, m1):
    if off and off["kind"] == "td":
        q, sub = divmod(off["us"], MIN)
        hit = [n for n in range(m0, m1 + 1) if cron_matches(expr, n + q)]
    else:
        sub = 0
        if off and any(shift_us(n * MIN, off) % MIN or shift_us(n * MIN + MIN - 1, off) != shift_us(n * MIN, off)
                       for n in range(m0, m1 + 1)):
            raise ValueError("zone offset not in whole minutes / changing inside a minute: %r" % off)
        hit = [n for n in range(m0, m1 + 1) if cron_matches(expr, n, off)]
    return "(%s, %s)" % (C.cz(sub), C.clist([C.cz(n - m0) for n in hit]))


def literal(c, o):
    # the model's cron_due is indexed by "cron id": one id per distinct (expression, cron_offset) pair of the run
    crons = sorted({(e["cron"], off_key(e.get("off"))) for s in c["sources"] for e in s["entries"] if e["kind"] == "cron"})
    cron_ids = {x: i for i, x in enumerate(crons)}
    m0 = c["start"] // MIN - 1
    m1 = c["end"] // MIN + 2
    # per cron id: (sub, the n - m0 for n in m0 .. m1 such that the schedule is due at the instants t with (t + sub) / MIN = n),
    # by the independent matcher; sub = the part of a timedelta offset below a minute (0 otherwise)
    tabs = C.clist([cron_table(x, json.loads(ok), m0, m1) for x, ok in crons])
    srcs = C.clist(["(mkSource %s %s)" % (C.cb(s["kind"] != "static"), C.clist(
        ["(mkEnt %s %s %s %s)" % (C.cn(e["sid"]), c_kind(e, cron_ids), C.cz(e["add"] if e["add"] is not None else c["start"] - 1),
                                  C.copt(e["del"], C.cz)) for e in s["entries"]])) for s in c["sources"]])
    # per poll (position = poll number; trailing polls without an entry dropped): non-zero latencies, failing sources
    lrows = [[(i, v) for i, v in enumerate(row) if v] for row in c["lat"]]
    while lrows and not lrows[-1]:
        lrows.pop()
    lat = C.clist([C.clist(["(%s, %s)" % (C.cn(i), C.cz(v)) for i, v in row]) for row in lrows])
    frows = [[] for _ in range(max([k for k, _ in c["lfail"]], default=-1) + 1)]
    for k, i in c["lfail"]:
        frows[k].append(i)
    lfail = C.clist([C.clist([C.cn(i) for i in row]) for row in frows])
    klat = C.clist(["(%s, %s)" % (C.cpair(*[C.cn(int(x)) for x in key.split(":")]), C.cz(v)) for key, v in c["klat"].items()])
    kfail = C.clist([C.cpair(C.cn(i), C.cn(s), C.cn(n)) for i, s, n in c["kfail"]])
    ktab = C.clist(["(%s, %s, %s)" % (C.cn(i), C.cn(e["sid"]), c_kind(e, cron_ids))
                    for i, s in enumerate(c["sources"]) for e in s["entries"]])
    kicks = {(k[0], k[1], k[2]): k for k in o["kicks"]}
    obs = []
    lsdict = {}      # the listings of most polls of a long run are the same: each distinct one is written once, polls refer to it
    for p in o["polls"]:
        a = min(x for x in p["calls"] if x is not None)
        ls = C.cn(lsdict.setdefault(C.clist([c_listing(l) for l in p["listings"]]), len(lsdict)))
        sends = []
        for i, sid, n, d in p["spawns"]:
            kk = kicks.get((i, sid, n))
            sends.append(C.cpair(C.cn(i), C.cn(sid), C.cn(n), C.cz(d), C.copt(
                None if kk is None else "(%s, %s)" % (C.cz(kk[3]), C.copt(kk[4], C.cb)))))
        # instants of the polls as offsets (start of the poll from the start of the run, body from the start of the poll):
        # Coq's number notation is slow on 16-digit literals and a 26 h run has 1 500 polls
        obs.append("(OP %s %s %s %s %s)" % (C.cz(a - c["start"]), C.cz(p["b"] - a), ls, C.clist(sends), C.cz(p["sleep_us"])))
    return "(%s : case_t)" % C.cpair(C.cz(c["start"]), srcs, lat, lfail, klat, kfail, C.cz(c["end"]), tabs, C.cz(m0), ktab,
                                     C.clist(list(lsdict)), C.clist(obs))


HEADER = """From Coq Require Import ZArith List Bool Arith. Import ListNotations.
From TQ Require Import SchedDelay SchedLoop.
Open Scope Z_scope.
Definition lk2 (l : list (list (nat * Z))) (k i : nat) : Z :=
  match find (fun x => Nat.eqb (fst x) i) (nth k l []) with Some x => snd x | None => 0 end.
Definition lkb2 (l : list (list nat)) (k i : nat) : bool := existsb (Nat.eqb i) (nth k l []).
Definition eq3 (x : nat * nat * nat) (a b c : nat) : bool :=
  match x with (p, q, r) => Nat.eqb p a && Nat.eqb q b && Nat.eqb r c end.
Definition lk3 (l : list (nat * nat * nat * Z)) (a b c : nat) : Z :=
  match find (fun x => eq3 (fst x) a b c) l with Some x => snd x | None => 1 end.
Definition lkb3 (l : list (nat * nat * nat)) (a b c : nat) : bool := existsb (fun x => eq3 x a b c) l.
Definition lkk (l : list (nat * nat * kind)) (i s : nat) : kind :=
  match find (fun x => Nat.eqb (fst (fst x)) i && Nat.eqb (snd (fst x)) s) l with Some x => snd x | None => KBadCron end.
Definition send_t := (nat * nat * nat * Z * option (Z * option bool))%type.
Definition listings_t := list (option (list (nat * dres))).
Definition opoll_t := (Z * Z * nat * list send_t * Z)%type.    (* the listings of a poll: position in the case's table *)
Definition case_t := (Z * list source * list (list (nat * Z)) * list (list nat) * list (nat * nat * nat * Z) *
  list (nat * nat * nat) * Z * list (Z * list Z) * Z * list (nat * nat * kind) * list listings_t * list opoll_t)%type.
Definition OP (a db : Z) (ls : nat) (sps : list send_t) (slp : Z) : opoll_t := (a, db, ls, sps, slp).
(* a poll is written as (start of the poll - start of the run, body instant - start of the poll, ...) *)
Definition obs1_of (start : Z) (lt : list listings_t) (p : opoll_t) :=
  match p with (a, db, ls, sps, _) => (start + a, start + a + db, nth ls lt [], sps) end.
Definition obs2_of (start : Z) (lt : list listings_t) (p : opoll_t) : obs_poll :=
  match p with (a, db, ls, sps, slp) =>
    (start + a, start + a + db, nth ls lt [],
     map (fun y : send_t => match y with (i, s, n, d, _) => (i, s, n, d) end) sps, slp) end."""
BODY = """Definition chk (c : case_t) : bool :=
  let '(start, srcs, lat, lfail, klat, kfail, E, tabs, m0, ktab, lstab, opolls) := c in
  let obs := map (obs1_of start lstab) opolls in
  let obs2 := map (obs2_of start lstab) opolls in
  let cd := fun (c : nat) (t : Z) => let '(sub, tab) := nth c tabs (0, []) in existsb (Z.eqb ((t + sub) / MIN - m0)) tab in
  let sc := mkScenario start srcs (lk2 lat) (lkb2 lfail) (lk3 klat) (lkb3 kfail) in
  run_check cd sc E obs && forallb (poll_check cd (lkk ktab)) obs2 && C15_check cd (lkk ktab) start obs2.
Fixpoint bad (i : nat) (l : list case_t) : list nat :=
  match l with [] => [] | c :: t => if chk c then bad (S i) t else i :: bad (S i) t end.
Eval vm_compute in bad 0%nat cases."""


def explore(ctx, rep, cases, label, shard=25, chunk=None):
    obs = C.run_driver(ctx, "sched_driver", cases, chunk=chunk)
    lits, keep = [], []
    for c, o in zip(cases, obs):
        rep.case(c, nontrivial(c))
        if "_crash" in o:
            rep.fail("driver crashed", c, observed=o["_crash"])
            continue
        rep.count("polls", len(o["polls"]))
        if c.get("family"):
            rep.count("run:" + c["family"])
            rep.count("run:" + c["family"] + ":polls", len(o["polls"]))
            if c["start"] // (DAY * MIN) != c["end"] // (DAY * MIN):
                rep.count("run:" + c["family"] + ":crosses-midnight")
        if (c["end"] - c["start"]) // MIN > 60:
            for skind, nocc, same_min, same_hm in recurrences(c):
                if nocc >= 2 and same_min:
                    rep.count("cron:recurs-on-same-minute-of-hour:" + ("fresh-ids" if skind == "label" else "stable-ids"))
                if nocc >= 2 and same_hm:
                    rep.count("cron:recurs-on-same-hour-and-minute-next-day:" + ("fresh-ids" if skind == "label" else "stable-ids"))
        if c.get("family") == "payload" or any(e.get("pay") for s in c["sources"] for e in s["entries"]):
            count_payload(rep, c, o)
        count_equal(rep, c, o)
        count_callbacks(rep, c, o)
        count_labels(rep, c, o)
        if c.get("host"):
            count_host(rep, c, o)
        rep.count("kicks", len(o["kicks"]))
        rep.count("kicks:failed", sum(1 for k in o["kicks"] if k[4] is False))
        for s in c["sources"]:
            rep.count("source:" + s["kind"])
            for e in s["entries"]:
                rep.count("entry:" + e["kind"] + (":dynamic" if e["add"] is not None or e["del"] is not None else ""))
                if e["kind"] == "cron":
                    rep.count("cron-offset:" + off_kind(e.get("off")) + (":label-source" if s["kind"] == "label" and e.get("off") else ""))
                    if e.get("off") and e["off"]["kind"] == "zone":
                        rep.count("cron-offset:zone:" + e["off"]["zone"])
                        if shift_us(c["start"], e["off"]) != shift_us(c["end"], e["off"]):
                            rep.count("cron-offset:zone:daylight-saving-change-inside-the-run")
        # schedules that share the expression string and differ in cron_offset (one process, one poll): how often do the
        # correct answers differ inside such a group in a poll that lists two of them
        groups = same_expr_groups(c)
        differ = 0
        for x, members in groups:
            rep.count("same-expression-different-offsets:groups")
            rep.count("same-expression-different-offsets:" + ("one-source" if len({i for i, _ in members}) == 1 else "across-sources"))
            rep.count("same-expression-different-offsets:members", len(members))
            if any(shift_us(c["start"], a.get("off")) == shift_us(c["start"], b.get("off")) and off_key(a.get("off")) != off_key(b.get("off"))
                   for _, a in members for _, b in members):
                rep.count("same-expression-different-offsets:two-routes-to-one-wall-clock")
            for p in o["polls"]:
                here = {cron_due(e, p["b"]) for i, e in members
                        if i < len(p["listings"]) and p["listings"][i] is not None and e["sid"] in [u[0] for u in p["listings"][i]]}
                if len(here) == 2:
                    differ += 1
        if groups:
            rep.count("same-expression-different-offsets:runs")
            rep.count("same-expression-different-offsets:polls-where-the-answers-differ-inside-a-group", differ)
            if differ:
                rep.count("same-expression-different-offsets:runs-with-such-a-poll")
        for p in o["polls"]:
            for l in p["listings"]:
                if l is None:
                    rep.count("listing:failed")
                for _, d in (l or []):
                    rep.count("delay:" + ("ValueError" if d == "ValueError" else "None" if d is None else "0" if d == 0 else ">0"))
        bad = oracle(c, o)
        for what, sig in bad:
            rep.count("oracle:" + sig.get("kind", "other") + (":inflight" if sig.get("overlap") else "") +
                      (":outside-window" if sig.get("armed_in_window") is False else ""))
        seen = set()
        for what, sig in bad:
            if what not in seen:
                seen.add(what)
                rep.fail(what, c, observed=dict(polls=o["polls"][:4], kicks=o["kicks"][:8], dead=o["dead"]),
                         expected="see statement", sig=sig)
        foreign = foreign_removals(c, o)
        if foreign and all(same for _, _, _, same in foreign):
            # the label source took the equal-time trigger of ANOTHER one-shot of the task out of the list (known finding
            # label_equal_times_wrong_entry, or its harmless form: two sends completing in reverse list order): the model
            # identifies entries by schedule id and cannot follow such a run - it is judged by the oracle alone
            rep.count("equal-times:run-with-a-trigger-removed-for-another-member:judged-by-the-oracle-alone")
            continue
        try:
            lits.append(literal(c, o))
            keep.append(c)
        except (AssertionError, ValueError, TypeError) as e:
            if not bad:
                rep.fail("observation not encodable for the model", c, observed=repr(e))
    bd, fails, _ = C.coq_eval(ctx, label, HEADER, lits, BODY, shard=shard)
    rep.corr(label, len(lits), bd, fails, lambda i: keep[i])
    rep.traces += len(lits) - len(bd)
    return bool(bd or fails)


def run(ctx):
    rep = C.Report(ctx, META)
    rep.add_obligations(C.proof_obligations("C15"))
    # source tie: get_schedules / get_all_schedules / delayed_send / one iteration of run_scheduler_loop re-translated
    # from the source text; srcproofs/Src_sched_loop_C15.v re-checked
    src_obs, src_info = srctie.obligations(ctx, "sched_loop", "C15")
    rep.add_obligations(src_obs)
    rep.extra["source_tie"] = src_info
    corpus = C.load_corpus("C15")
    corpus_known = {}
    if corpus:
        explore(ctx, rep, [c for _, c in corpus], "corpus")
        d7 = [f for f in rep.failures if sig_d7(f)]
        corpus_known["oneshot_resent_by_overlapping_poll"] = bool(d7)
    r = ctx.sub_rng("gen")
    cases = [gen_case(r, long=(k % 25 == 0)) for k in range(ctx.n(400, 9000))]
    r7 = ctx.sub_rng("callbacks")
    for k, c in enumerate(cases):          # 1 in 14 of the plain runs: the same run, its sources written in other styles
        if k % 14 == 9:
            stylize(r7, c)
    r8 = ctx.sub_rng("host-zone")
    for k, c in enumerate(cases):          # 1 in 14 of the plain runs: the same run on a host in another zone
        if k % 14 == 4:
            hostify(r8, c, *pick_host(r8), aimed=False)
    r9 = ctx.sub_rng("label-values")
    for k, c in enumerate(cases):          # 1 in 14 of the plain runs: the same run, its schedules labelled with varied values
        if k % 14 == 12:
            labelify(r9, c, aimed=False)
    broken = explore(ctx, rep, cases, "main")
    # long runs (hours; ~26 h): few schedules whose next occurrence is an hour / some hours / a day away - see gen_long
    r3 = ctx.sub_rng("long")
    nh, nd = ctx.n(NLONG_Q[0], NLONG_T[0]), ctx.n(NLONG_Q[1], NLONG_T[1])
    longs = [gen_long(r3, day=(k % (nh // nd + 1) == nh // nd)) for k in range(nh + nd)]
    broken = explore(ctx, rep, longs, "long", shard=1 if ctx.quick else 4, chunk=1 if ctx.quick else None) or broken
    # runs in which several cron schedules share one expression string and differ in cron_offset - see zonify
    r4 = ctx.sub_rng("zones")
    nz, nzh = ctx.n(*NZONES[0]), ctx.n(*NZONES[1])
    broken = explore(ctx, rep, [gen_zones(r4) for _ in range(nz)], "zones") or broken
    broken = explore(ctx, rep, [gen_zones(r4, hours=True) for _ in range(nzh)], "zones-hours", shard=1 if ctx.quick else 4,
                     chunk=1 if ctx.quick else None) or broken
    # runs whose schedule entries vary the shape of their payload (args / kwargs / labels / unknown keys / equal times / shared
    # dicts) - see payloadify
    r5 = ctx.sub_rng("payload")
    broken = explore(ctx, rep, [gen_payload(r5) for _ in range(ctx.n(*NPAY))], "payload") or broken
    # same-task equal-time one-shots with failing / slow earlier sends - see equalize; then the two replays of the known finding
    r6 = ctx.sub_rng("equal-times")
    broken = explore(ctx, rep, [gen_eqfaults(r6) for _ in range(ctx.n(*NEQ))], "equal-times-faults") or broken
    # runs whose sources write get_schedules / pre_send / post_send in varied styles - see stylize
    broken = explore(ctx, rep, [gen_callbacks(r7, k) for k in range(ctx.n(*NCB))], "callback-styles") or broken
    # runs on a host whose time zone is not UTC - see hostify
    broken = explore(ctx, rep, [gen_hosts(r8, k) for k in range(ctx.n(*NHOST))], "host-zone") or broken
    # runs whose schedules carry labels with values of varied types (subclasses of the primitives, unusual text) - see labelify
    broken = explore(ctx, rep, [gen_labelled(r9) for _ in range(ctx.n(*NLAB))], "label-values") or broken
    corpus_known[SIG_EQ] = known_equal_times(ctx, rep)
    unexplained = [f for f in rep.failures if not sig_d7(f) and not sig_eq(f)]
    if (broken or any(not o["ok"] for o in rep.obligations)) and not unexplained:
        r2 = ctx.sub_rng("search")
        explore(ctx, rep, [gen_case(r2) for _ in range(ctx.n(1500, 5000))], "search")
    rep.extra["known_finding_D7_hits_this_run"] = sum(1 for f in rep.failures if sig_d7(f))
    rep.extra["known_finding_label_equal_times_wrong_entry_hits_this_run"] = sum(1 for f in rep.failures if sig_eq(f))
    return rep.finish(SIGNATURES, corpus_known)


def known_equal_times(ctx, rep):
    """known finding label_equal_times_wrong_entry (known_findings.json): its replays under corpus/C15/known run on every
    check through the driver and the direct oracle only (the model identifies entries by schedule id; it has no counterpart
    of the label source's trigger identity 'task + time').  True iff the finding reproduced on this tree."""
    d = os.path.join(C.VERIF, "corpus", "C15", "known")
    files = sorted(f for f in os.listdir(d) if f.endswith(".json")) if os.path.isdir(d) else []
    cases = []
    for f in files:
        rec = json.load(open(os.path.join(d, f)))
        cases.append(rec["case"] if "case" in rec else rec)
    hit = False
    for f, c, o in zip(files, cases, C.run_driver(ctx, "sched_driver", cases) if cases else []):
        rep.case(c, nontrivial(c))
        rep.count("known-finding-replay:" + f[:-5])
        if "_crash" in o:
            rep.fail("driver crashed", c, observed=o["_crash"], sig=dict(kind="crash"))
            continue
        count_equal(rep, c, o)
        seen = set()
        for what, sig in oracle(c, o):
            rep.count("oracle:" + sig.get("kind", "other"))
            hit = hit or sig.get("kind") == SIG_EQ
            if what not in seen:
                seen.add(what)
                rep.fail(what, c, observed=dict(polls=o["polls"][:4], kicks=o["kicks"][:8], posts=o["posts"][:8], dead=o["dead"]),
                         expected="see statement", sig=sig)
    return hit


def replay(ctx, path):
    rec = json.load(open(path))
    c = rec["case"] if "case" in rec else rec
    o = C.run_driver(ctx, "sched_driver", [c], nproc=1)[0]
    print("case:", json.dumps(c)[:3000])
    if c.get("host"):
        print("host time zone of the scheduler process (TZ):", c["host"], o.get("host"))
    if "_crash" in o:
        print("implementation crashed:", o["_crash"])
        return 1
    bad = oracle(c, o)
    # a long run has hundreds of polls with nothing to send: show those that sent something or are named by a violation
    npolls = len(o["polls"])
    named = {sig["poll"] for _, sig in bad if isinstance(sig.get("poll"), int)}
    shown = 0
    for k, p in enumerate(o["polls"]):
        if npolls > 70 and not (k < 3 or p["spawns"] or k in named):
            continue
        shown += 1
        if shown > 150:
            break
        print("poll %d: called %s body %d listings %s spawned %s sleep %d us" % (k, p["calls"], p["b"], p["listings"], p["spawns"],
                                                                                p["sleep_us"]))
    if npolls > 70:
        print("(%d polls in all; polls that sent nothing are not shown)" % npolls)
    print("kicks (source, sid, attempt, instant, ok, schedule_id, task):", o["kicks"][:60])
    try:
        mb, fails, _ = C.coq_eval(ctx, "replay", HEADER, [literal(c, o)], BODY)
        print("model (coq/theories/SchedLoop.v) predicts this run:", not mb and not fails)
    except (AssertionError, ValueError, TypeError) as e:
        print("observation not encodable for the model:", e)
    print("post_send calls (instant, source, sid, attempt, entries whose trigger it removed):", o["posts"][:60])
    for i, s in enumerate(c["sources"]):
        if s.get("cb"):
            print("source %d writes its callbacks as %s; its pre_send calls (instant, source, sid, attempt): %s" % (
                i, s["cb"], [x for x in o.get("pres", []) if x[1] == i][:30]))
    if foreign_removals(c, o):
        print("(a post_send removed the trigger of another entry: the model, which identifies entries by schedule id, cannot "
              "follow this run)")
    for what, sig in bad:
        print("VIOLATED:" if not sig_d7(dict(sig=sig)) else "KNOWN-FINDING (D7):", what, sig)
        if sig_eq(dict(sig=sig)):
            print("  (recorded as known finding %s in known_findings.json)" % SIG_EQ)
    if not bad:
        print("statement: holds")
    return 1 if bad else 0
