"""C03 - the concurrency limit is respected and execution slots are never leaked."""
import common as C
import recv_props as R

META = dict(
    id="C03",
    design_ref="DESIGN.md section 4, RecvLTS.v and C03",
    technique="Coq proof (inductive invariants of a labelled transition system, lia) + trace acceptance of real "
              "Receiver.listen() runs (fault histories + saturation probe) captured by logging shims under a virtual-time loop",
    level_text="Theorems over every configuration and every event sequence accepted by the receiver LTS (coq/theories/RecvLTS.v): "
               "C03_limit (callback tasks alive <= A for every A > 0), C03_no_leak (sem + alive callbacks + slot owned by the "
               "runner = A in every reachable state, whatever way each callback ended: the model has a single end / done-callback "
               "pair for all outcomes), C03_serial (A = 1: a message is started only when no callback task exists and every earlier "
               "one has finished; starts are a prefix of the delivery order), C03_no_deadlock / C03_progress_while_backlog (in every "
               "reachable state a prefetcher / runner step is enabled unless all A slots are busy, the runner waits for live tasks "
               "after the sentinel, or both have returned), C03_saturable (no slot is ever lost: a saturating continuation exists from every "
               "reachable state before stop / end of stream). Tied to /repo on every run by trace acceptance: real listen() runs with "
               "exceptions, BaseException, timeouts, NoResultError, malformed / unknown messages, failing backend and raising hooks, "
               "followed by a saturation probe, must be accepted by the model inside Coq with the Boolean form of the invariant in "
               "every visited state; limit, serial order, saturation and progress are also checked directly on the implementation log.",
    level_note="Partial w.r.t. real time: 'keeps making progress' is proved as deadlock-freedom of the untimed LTS; that an enabled "
               "step is eventually taken (fairness of the asyncio loop, thread pool for sync tasks) is trusted, and the timed "
               "progress clause (a ready message starts within 1 s of a free slot) and the saturation probe are oracle-checked "
               "under virtual time only. C03_saturable (from every reachable state without stop request, end of the broker stream or "
               "max-tasks budget a continuation exists that ends no running callback, takes only fresh messages and reaches A "
               "callbacks running at once) is proved for the LTS; that the real loop takes such a continuation is what the "
               "saturation probe checks on the implementation. That every outcome ends the callback task in the same way is "
               "established by trace acceptance (sampled), the per-message pipeline itself is Pipeline.v (C02/C07/C10). Trusted: "
               "Coq kernel + vm_compute, shims and raw-log grouping (harness/shims.py), virtual-time loop.",
    rule="case = receiver scenario (acks / hooks as sync callables, coroutines, or plain callables returning a non-coroutine awaitable "
         "- Future, Task, object with __await__, generator-based coroutine - that completes later) with a fault history (raise / BaseException / timeout label with instant or slow cancellation clean-up / no-result / malformed / unknown / "
         "failing backend / raising pre- or post-hook / pre-, post-, post_save-, on_error-hook or set_result ending with asyncio.CancelledError "
         "(raised, or a cancelled future awaited: the callback task ends CANCELLED) or another BaseException; in ~16 % of the scenarios 2-4 "
         "further recording middlewares whose hook invocations independently return, suspend for a virtual delay or fail, per message) followed by A+1 long probe tasks; Further family (own random stream): the REAL taskiq.api.run_receiver_task coroutine runs for the whole scenario over a scripted listen() that raises 0..3 times (ConnectionError, RuntimeError, TimeoutError, OSError, EOFError, a client's own class, a falsy exception object, an ExceptionGroup, BrokerError) as the first thing a session does / right after taking a message / while tasks are in flight / while idle, the remaining messages going to the re-started listening; N and wait_tasks_timeout set by the receiver class handed to it, stop = the finish event it gave to listen(); decided by the direct oracles only, every listen() session held to the statement by its own messages; Further family (recv_props.gen_relisten, own random stream): ONE Receiver object runs several listen() sessions under a supervisor - it listens again after listen() failed while every slot was busy (1-3 times, back-off, same / fresh finish event) or after listen() returned from a graceful stop whose wait_tasks_timeout had expired, callbacks of the earlier session still in flight: the Receiver object is the worker, its sessions share the limit (all of them together never exceed A; saturation probe and progress demanded unless a session ended with the runner holding an unused slot); non-trivial iff finite A, >= A messages "
         "ending abnormally and a probe present; distinct by canonical scenario",
    trusted_base=["model: coq/theories/RecvLTS.v", "logging shims + raw log -> LTS event grouping: harness/shims.py; harness/vloop.py",
                  "asyncio semantics assumed by the model: a task step is atomic; Semaphore / Queue / wait / done-callbacks as documented"],
    assumptions=["fairness of the asyncio event loop (an enabled task step is eventually run)",
                 "the broker's listen() generator takes a message only at its yield; in the proofs it raises nothing but StopAsyncIteration. "
                 "Runs under run_receiver_task with a failing listen() are oracle-checked only, with 'one worker' read as one listening "
                 "session (the reading that demands less): a callback left running by a session whose listen() failed is not counted "
                 "against the session that replaced it",
                 "one Receiver object that listens several times is one worker over all its sessions (limit over all of them together). "
                 "A second listen() is promised the full capacity only if no earlier session ended while its runner held a slot it had "
                 "given to no callback (listen() returned from a stop, or failed while the runner waited for a message): runner() gives "
                 "such a slot up by construction - then only the limit is demanded"],
)
PROF = dict(probe=True, stop_p=.12, n_p=.1, ends_p=.08, wtt_p=.2, slowcancel=.2, abort_p=.07, mw_p=.16)
# run_receiver_task running for the whole scenario over a listen() that fails 0..3 times (recv_props.gen_live)
PROF_LIVE = dict(probe=True, limited_only=True, stop_p=.1, n_p=.08, ends_p=.05, wtt_p=.15, slowcancel=.1, abort_p=.05, mw_p=.1, reg_p=.1,
                 A_choices=[1, 1, 1, 2, 2, 3, 4])
# one Receiver object that listens again after listen() failed with every slot busy / returned from a stop whose
# wait_tasks_timeout expired (recv_props.gen_relisten)
PROF_RELISTEN = dict(slowcancel=.1, abort_p=.04, mw_p=.08, wire_p=.1)
FAIL_POINTS = ("pre_fail", "post_fail", "save_fail", "psave_fail", "onerr_fail")
DELTA = R.US            # a ready message must start within 1 s (virtual) of a slot being free


def abnormal(m):
    return (m["kind"] != "ok" or m["out"] != "ret" or m.get("pre_fail") or m.get("post_fail") or m.get("save_fail")
            or m.get("psave_fail") or m.get("onerr_fail") or any(s.get("fail") for d in m.get("mw") or [] for s in d.values())
            or (m.get("tlabel_us") is not None and 0 <= m["tlabel_us"] < m["dur"]))


def oracle(sc, obs):
    out = []
    f = R.Facts(sc, obs)
    A = sc["A"] if R.limited(sc) else None
    msgs = sc["msgs"]
    # (1) at no instant more than A messages in processing (first .. last observable event of a message: callback
    #     entry .. callback exit, which brackets hooks, body, save, ack - and, should it come later, the COMPLETION of an
    #     acknowledgement / of a hook's awaitable / of any middleware hook invocation that was begun: `ack` .. `ack.end`,
    #     `hook.aw` .. `hook.aw.end`, `hook.begin` .. `hook.end` - whoever awaits it)
    #     Under run_receiver_task (sc["live"]) "one worker" is read as one listening session (the reading that demands less):
    #     a callback that a failed session left running is not counted against the session that replaced it; every session is
    #     held to the limit by its own messages.
    #     ONE Receiver object that listens several times (recv_props.gen_relisten) is one worker over all its sessions: every
    #     message it is processing counts, whichever session took it.
    wkey = (lambda a: 0) if f.same_rcv else f.session_of
    procs, bodies, peak, bpeak = {}, {}, 0, 0
    cbopen, inflight = set(), {}
    orders = {}
    serial_ok = True
    for e in f.raw:
        t, tag, a = e[0], e[1], e[2]
        if tag in ("cb.start", "cb.end", "ack", "hook.aw", "hook.begin", "ack.end", "hook.aw.end", "hook.end", "body.in", "body.out"):
            proc, body = procs.setdefault(wkey(a), set()), bodies.setdefault(wkey(a), set())
        if tag == "cb.start":
            if proc and A == 1:
                serial_ok = False
            cbopen.add(a)
            proc.add(a)
            orders.setdefault(f.session_of(a), []).append(a)
        elif tag == "cb.end":
            cbopen.discard(a)
            if not inflight.get(a):
                proc.discard(a)
        elif tag in ("ack", "hook.aw", "hook.begin"):
            inflight[a] = inflight.get(a, 0) + 1
            proc.add(a)
        elif tag in ("ack.end", "hook.aw.end", "hook.end"):
            inflight[a] = inflight.get(a, 0) - 1
            if not inflight[a] and a not in cbopen:
                proc.discard(a)
        elif tag == "body.in":
            if body and A == 1:
                serial_ok = False        # limit 1: the previous task body has not really ended yet
            body.add(a)
        elif tag == "body.out":
            body.discard(a)              # logged in the outermost finally of the task function: the body REALLY ended
        if tag in ("hook.pre", "hook.post", "hook.post_save", "hook.on_error", "save", "ack", "body.in", "body.cleanup", "body.out"):
            if a not in cbopen and not any(o["sig"].get("kind") == "bracket" for o in out):
                out.append(dict(what="observable processing event outside the message's callback bracket",
                                observed=[t, tag, a], expected="between cb.start and cb.end", sig=dict(kind="bracket")))
        peak = max([peak] + [len(x) for x in procs.values()])
        bpeak = max([bpeak] + [len(x) for x in bodies.values()])
    if A is not None and max(peak, bpeak) > A:
        out.append(dict(what="more than max_async_tasks messages processed at one instant" +
                             (" by one Receiver object that listens again while callbacks of its earlier listen() are in flight"
                              if f.same_rcv else ""), observed=dict(peak=peak, bodies=bpeak),
                        expected="<= %d" % A, sig=dict(kind="limit")))
    if f.limit_only or f.slot_lost:
        # one Receiver object, and a session of it ended while its runner held a slot it had given to no callback (listen()
        # returned from a stop, or failed while the runner was waiting for a message): that slot is gone by construction of
        # runner() - a second listen() on such an object is not promised the full capacity.  Only the limit is demanded.
        return out
    # (2) limit 1: strictly one at a time, in delivery order
    if A == 1:
        for s in sorted(set(f.sess.values()) | set(orders)):
            taken = [i for _, i in f.takes if f.sess[i] == s]
            order = orders.get(s, [])
            if not serial_ok or order != taken[:len(order)]:
                out.append(dict(what="limit 1: messages not processed one at a time in delivery order",
                                observed=dict(started=order, taken=taken, overlap=not serial_ok), expected="started = prefix of taken, no overlap",
                                sig=dict(kind="serial")))
                break
    # (3) saturation probe: after the fault history min(A, #probes) long tasks run simultaneously
    probes = [i for i, m in enumerate(msgs) if m.get("probe")]
    if probes:
        want = min(A, len(probes)) if A is not None else len(probes)
        at = sc["probe_at"] + 2 * R.US
        running = [i for i in probes if any(t <= at for t in f.bodyin.get(i, [])) and not any(t <= at for t in f.bodyout.get(i, []))]
        if len(running) != want:
            out.append(dict(what="saturation probe: the worker can no longer process max_async_tasks messages concurrently",
                            observed=dict(running=len(running), at_us=at), expected=want, sig=dict(kind="saturation")))
    # (4) progress: a message that is ready (arrived, predecessor handed over) starts within DELTA of a free slot,
    #     as long as no shutdown has been triggered
    #     (observed until the harness' cut mark when listen() was still running then - a worker that has stopped dead logs
    #     nothing any more, so the instant of its last event is not the end of the observation)
    cut_t = next((e[0] for e in obs["raw"] if e[1] == "CUTMARK"), None)
    limit_t = f.t0 if f.t0 is not None else cut_t if (cut_t is not None and not f.returned) else f.end_t
    #     Under run_receiver_task: a message is ready no earlier than the start of the session that follows the last scripted
    #     failure of listen() preceding it (no claim while such a failure has not happened, or has not been noticed by the
    #     worker yet - the prefetcher may be waiting for a permit: the scripted connection holds the message back); the slots are
    #     those of the session the message belongs to (a replacement session starts with all of them); a message that sat in
    #     the hand-over queue of a session whose listen() failed was dropped with it - no claim about that one.
    all_spans = {i: (f.cbstart[i][0], (f.cbdone.get(i) or [None])[0]) for i in f.cbstart}
    prev_start = 0
    for i, m in enumerate(msgs):
        ready = max(m["at"], prev_start)
        spans = list(all_spans.values())
        if f.live:
            before = [x for x in sc["live"]["faults"] if x["k"] <= i]
            if len(f.faults) < len(before) or any(s + 1 not in f.sess_start for _, s, _ in f.faults[:len(before)]):
                break
            ready = max([ready] + [f.sess_start[s + 1] for _, s, _ in f.faults[:len(before)]])
            if i in f.dropped:
                continue
            if not f.same_rcv:      # (one Receiver object: its sessions share the slots)
                spans = [sp for j, sp in all_spans.items() if f.session_of(j) == f.session_of(i)]
        # earliest instant >= ready at which fewer than A callbacks hold a slot (computed from the real log of the others)
        free = ready
        if A is not None:
            cand = sorted({ready} | {e for (s, e) in spans if e is not None and e >= ready})
            free = None
            for tt in cand:
                held = sum(1 for (s, e) in spans if s <= tt and (e is None or e > tt) and s != (f.cbstart.get(i) or [None])[0])
                if held < A:
                    free = tt
                    break
        if free is None or free + DELTA >= limit_t:
            break
        st = (f.cbstart.get(i) or [None])[0]
        if st is None or st > free + DELTA:
            out.append(dict(what="no progress: a ready message is not started although a slot is free",
                            observed=dict(msg=i, ready_us=ready, slot_free_us=free, started_us=st), expected="started within 1 s",
                            sig=dict(kind="progress")))
            break
        prev_start = st
    return out


def nontrivial(sc):
    if not R.limited(sc) or "probe_at" not in sc:
        return False
    return sum(1 for m in sc["msgs"] if abnormal(m)) >= sc["A"]


def explore(ctx, rep, scs, label):
    obss = C.run_driver(ctx, "recv_driver", scs)
    for sc, o in zip(scs, obss):
        rep.case(sc, nontrivial(sc))
        if "_crash" in o:
            rep.fail("driver crashed", sc, observed=o["_crash"])
            continue
        for f in oracle(sc, o):
            rep.fail(f["what"], sc, observed=f["observed"], expected=f["expected"], sig=f["sig"])
        rep.count("A=%s" % sc["A"])
        R.count_inputs(rep, sc)
        rep.count("probe" if "probe_at" in sc else "no-probe")
        # how callback tasks really ended (from the done-callback of the real task object)
        canc = sum(1 for e in o["raw"] if e[1] == "cb.done" and e[3] == "cancelled")
        if canc:
            rep.count("scenario:with-callback-task-ended-cancelled")
            if R.limited(sc) and canc >= sc["A"]:
                rep.count("scenario:with->=A-callback-tasks-ended-cancelled")
        for e in o["raw"]:
            if e[1] == "cb.done":
                rep.count("callback-task-ended:" + ("cancelled" if e[3] == "cancelled" else "result-or-exception"))
        for m in sc["msgs"]:
            if m["kind"] != "ok":
                rep.count("outcome:" + m["kind"])
            elif m.get("fail_exc"):
                # hook / backend failing with CancelledError (raised, or a cancelled future awaited), another BaseException,
                # or post_save / on_error failing at all
                rep.count("outcome:%s/%s%s" % (next(k for k in FAIL_POINTS if m.get(k)), m["fail_exc"],
                                               "/after-await" if m.get("fail_after_us") else ""))
            elif m.get("pre_fail") or m.get("post_fail") or m.get("save_fail"):
                rep.count("outcome:" + ("pre_fail" if m.get("pre_fail") else "post_fail" if m.get("post_fail") else "save_fail"))
            elif m.get("tlabel_us") is not None and m["tlabel_us"] < m["dur"]:
                rep.count("outcome:timeout" + ("+slow-cancellation" if m.get("cleanup_us") else ""))
            else:
                rep.count("outcome:%s/%s" % (m["out"], m["style"]))
    bad, fails = R.acceptance(ctx, rep, label, scs, obss, "C03_check")
    return bad or fails


def run(ctx):
    rep = C.Report(ctx, META)
    rep.add_obligations(C.proof_obligations("C03"))
    corp = [c for _, c in C.load_corpus("C03")]
    if corp:
        explore(ctx, rep, corp, "corpus")
    r = ctx.sub_rng("gen")
    scs = [R.gen_scenario(r, PROF) for _ in range(ctx.n(400, 30000))]
    r4 = ctx.sub_rng("gen-live")             # own stream: the scenarios above are what they were
    scs += [R.gen_live(r4, PROF_LIVE) for _ in range(ctx.n(70, 4000))]
    r6 = ctx.sub_rng("gen-relisten")         # own stream: ONE Receiver object over several listen() sessions
    scs += [R.gen_relisten(r6, PROF_RELISTEN) for _ in range(ctx.n(60, 3000))]
    broken = explore(ctx, rep, scs, "main")
    if not ctx.quick:
        broken = explore(ctx, rep, R.grid_scenarios(), "grid") or broken
        rep.extra["small_scope_grid"] = "A<=3 x P<=2 x N in {None,1,2,3} x 13 stop instants x 4 five-message patterns"
    if (broken or any(not o["ok"] for o in rep.obligations)) and not rep.failures:
        r2 = ctx.sub_rng("search")
        explore(ctx, rep, [R.gen_scenario(r2, PROF) for _ in range(ctx.n(2000, 20000))], "search")
    return rep.finish()


def replay(ctx, path):
    return R.replay_print(ctx, path, oracle, "C03_check")
