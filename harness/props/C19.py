"""C19 - any task exception survives result serialisation."""
import json
from concurrent.futures import ThreadPoolExecutor

import common as C

META = dict(
    id="C19",
    design_ref="DESIGN.md section 4, C19 (and section 5, D9)",
    technique="Coq proof over a flag-based Gallina transcription of prepare_exception / exception_to_python / the TaskiqResult "
              "serializer, validator and __getstate__ + differential correspondence against real TaskiqResult round trips",
    level_text="PARTIAL BY CONSTRUCTION - the weakest fit of the twenty properties. json, pickle, repr, str, type(), pydantic's "
               "encoder and the constructors of the exception classes are oracles: each enters the model only as a Boolean "
               "capability flag that the harness MEASURES with the real function on every case. What is proved, for every "
               "graph of any size and shape (cyclic or not) and every assignment of those flags, is the decision logic built "
               "on them: C19_total (fuel S(length g) always suffices: the recursion path is duplicate-free, so both "
               "functions terminate), C19_no_failure_partial / C19_text_store_refuted (the only failures the model's explicit "
               "error type allows: the encoder rejecting a kept argument = finding D9, and a class name resolving to a "
               "non-exception = C20's gate), C19_class_json / C19_class_pickle (original class with arguments in their "
               "predicted form when importable, constructible and reconstructible; otherwise one of the listed stand-ins, "
               "named after the original class, un-encodable arguments in text form), C19_chain (the loaded tree is the "
               "unfolding of the graph along every duplicate-free path of cause / unsuppressed-context links with the same "
               "suppress flags, links back to the path cut). The model is tied to /repo on every run: descriptors become real "
               "exception objects, a real TaskiqResult goes through model_dump_json/model_validate_json, "
               "model_dump(mode=json)/model_validate and pickle, the loaded object is abstracted back and compared inside Coq "
               "(vm_compute) with the model's prediction; the direct oracle (a Python transcription of the statement) runs on "
               "every observation.",
    level_note="Readings that demand less: 'representable in the encoding' = the value round-trips to an equal value (strict "
               "RFC 8259 JSON built from exactly None/bool/int/finite float/str without surrogates/list/dict with str keys; for "
               "pickle: unpickles to an equal value) - tuples, int-keyed dicts, nan/inf are not representable in JSON and only "
               "totality + class name are demanded; a class whose constructor rewrites or rejects its own .args is not "
               "reconstructible and only totality + class name are demanded (observation, not a finding); with pickle, when "
               "Python's own pickling of the original exception fails or rewrites, only a stand-in is demanded; the chain "
               "clause is demanded for JSON only. Outside the statement's class list, covered by the model and the "
               "correspondence but not by the oracle (family 'shadow'): a dynamically created class whose module+qualname "
               "resolves to a different object (SecurityError by design of C20's gate, or loaded as the other class).",
    rule="case = exception graph (1..6 nodes: class kind, argument kinds, args override, unpicklable attribute, raised or not, "
         "cause, context, suppress) run through the three encodings; family 'eq': classes with value-based __eq__ (hand-written "
         "with / without __hash__, always True, raising, @dataclass, local, dynamic) and a path on which two DISTINCT nodes are "
         "twins (same class, same arguments - equal by ==, not a back-link); in every family ~5 % of the nodes (root, cause, "
         "context, deeper, on cycles) are exceptions whose INSTANCE is falsy (__len__ 0 / __bool__ False: module-level, "
         "nested, local, type()-created, BaseException / ValueError subclasses, custom __init__, mixin, value-equality, "
         "dataclass, unpicklable with a picklable falsy base) or has no truth value (bool() raises); family 'seq': one case = 2..5 store / load steps "
         "in ONE process with environment changes between them (generated module unregistered / registered in sys.modules, a "
         "class name deleted / re-published, the not-imported module of type()-created classes appearing, module re-executed or "
         "re-imported, one class re-created by a factory under the same qualified name), each step loading the SAME payload "
         "again, storing the same descriptors from the current classes, or storing an unrelated graph sharing class names - every "
         "step judged on its own with the flags measured at that step; family 'reent' (+ ~3 % of the cases of every other "
         "family, 10 % of the seq groups): values that are themselves taskiq / pydantic objects with their own serialisation "
         "hooks - a TaskiqResult with / without an error (error not importable, with an unpicklable argument, with its own "
         "chain or cycle, carrying the failed result of ITS child), nested in list / dict / tuple, a result subclass, "
         "TaskiqMessage, BrokerMessage, a pydantic model, an ExceptionRepr, a wrapper instance - among the ARGUMENTS or as an "
         "instance ATTRIBUTE (set after construction or in __init__) of an exception at any position, objects and exception "
         "classes whose __repr__ / __str__ / __reduce__ / __getstate__ / unpickling store a result or call "
         "taskiq.serialization themselves (some raise afterwards), on the same thread or on a helper thread they wait for: "
         "the store is RE-ENTERED while an outer store is in progress (nesting depth logged by the hooks: up to 3); every "
         "case runs in a supervised child process and a store / load that never finishes is the outcome 'hang'; non-trivial iff depth >= 2 or a non-trivial class kind "
         "(anything but a plain builtin) or argument kind (anything but a JSON-native scalar) or a shared node / cycle; "
         "distinct by the canonical JSON of the case",
    trusted_base=["model: coq/theories/ExcSer.v (hand-written transcription of taskiq/serialization.py and the error field "
                  "handling of taskiq/result/v2.py)",
                  "capability flags of json / pickle / repr / str / pydantic's encoder / class constructors / sys.modules "
                  "resolution, measured per case in harness/drivers/excser_driver.py with the real functions",
                  "abstraction of a loaded exception (class kind, name, argument forms, link tree) in the same driver"],
    assumptions=["coder round trips are deterministic (the same object round-trips the same way twice)",
                 "a class' __module__ is a str or None (the truth value of exception OBJECTS is not assumed: classes defining "
                 "__bool__ / __len__ - falsy instances, bool() raising - are generated at every position and judged in full)",
                 "family 'seq': what a JSON store writes does not depend on sys.modules (json never encodes an exception object "
                 "or resolves a class), so a payload stored earlier is judged with the flags measured at the load; a step that loads "
                 "a payload whose original class OBJECT has been replaced under its name since is compared with the model only",
                 "a store is re-entered (a failed TaskiqResult among exception args / attributes, hooks storing a result, "
                 "also on a helper thread the hook waits for) on acyclic and cyclic chains alike (the family 'reent' itself "
                 "builds acyclic graphs, the post-pass over the other families any graph); two stores racing on free-running "
                 "threads are not generated (non-deterministic)",
                 "a stage (one store or one load) is declared hung when every thread of the supervised process has been "
                 "asleep without consuming CPU time for 1.4 s after a grace period of 0.6 s (deadlock), or after 30 s of CPU "
                 "time / 240 s of wall time",
                 "taskiq/result/v1.py (pydantic 1) is not active in this environment and is read only"],
)

PLAIN = ["ValueError", "KeyError", "OSError", "RuntimeError", "ZeroDivisionError", "AssertionError", "ImportError",
         "StopIteration", "Exception", "LookupError", "FileNotFoundError"]
BASEX = ["KeyboardInterrupt", "SystemExit", "GeneratorExit", "BaseException", "ModBase", "LocalBase"]
MODLEVEL = ["ModLevel", "ModSubVal", "Nested", "Deep"]
LOCAL = ["Local", "LocalSubVal", "LocalSubTwoPos"]
DYN = ["Dyn", "DynHere", "DynK", "DynNoMod"]
CUSTOM = ["Rewrites", "KwOnly", "TwoPos", "ExtraPos", "SubRewrites", "SubTwoPos", "WithLock", "StrRaises", "ReduceBad"]
FIXED = ["UnicodeDecodeError", "JSONDecodeError", "NoResultError", "TaskiqResultTimeoutError", "ExceptionGroup", "OSError2"]
SHADOW = ["ShadowFn", "ShadowInst", "ShadowExc", "ShadowTwoPos"]
MIXIN = ["LocalMixin", "LocalMixinArgs", "DynMixin", "ModMixin"]      # finding D10 (repaired in /repo 743840e)
# classes whose INSTANCES are falsy (`__len__` returning 0 / `__bool__` returning False; LenArgs: falsy iff raised without
# arguments) or whose truth value cannot be taken at all (BoolRaises, LenNegative: bool() raises). Finding D11 (repaired in
# /repo 18e0da2): ordinary exceptions - generated at every position of the graph (root, cause, context, deeper), in every
# family, compared with the model and judged by the oracle like everything else (see falsify / falsify_eq / falsify_seq).
FALSY_FREE = ["FalsyLen", "FalsyBool", "FalsySubVal", "FalsyBase", "LenArgs", "BoolRaises", "LenNegative", "NestedFalsy",
              "FalsyWithLock", "FalsyStrRaises", "FalsyMixin", "LocalFalsy", "LocalSubFalsy", "LocalSubFalsyVal",
              "LocalFalsyMixin", "DynFalsy", "DynFalsyHere", "DynFalsyNoMod", "FalsyEq", "LocalTruthySub"]
# falsy variants with the SAME constructor signature as an ordinary class kind
FALSY_TWIN = {"TwoPos": "FalsyTwoPos", "SubTwoPos": "FalsyTwoPos", "LocalSubTwoPos": "FalsyTwoPos", "ExtraPos": "FalsyTwoPos",
              "Rewrites": "FalsyRewrites", "SubRewrites": "FalsyRewrites", "DataHashExc": "FalsyData", "LocalData": "FalsyData"}
EQ_FALSY_TWIN = {"EqHash": "FalsyEq", "EqNoHash": "FalsyEq", "SubEqVal": "FalsyEq", "LocalEq": "LocalFalsyEq",
                 "DynEq": "DynFalsyEq", "DataHashExc": "FalsyData", "LocalData": "FalsyData"}
SEQ_FALSY_TWIN = {"ModLevel": "FalsyLen", "Nested": "NestedFalsy", "ModSubVal": "FalsySubVal", "ModBase": "FalsyBase",
                  "TwoPos": "FalsyTwoPos", "Rewrites": "FalsyRewrites", "WithLock": "FalsyWithLock", "ModMixin": "FalsyMixin",
                  "EqHash": "FalsyEq", "DynHere": "DynFalsyHere", "Dyn": "DynFalsy", "DynEq": "DynFalsyEq"}
FALSY = FALSY_FREE + ["FalsyTwoPos", "FalsyRewrites", "FalsyData", "LocalFalsyEq", "DynFalsyEq"]
# classes with VALUE-based equality / unusual hashing (family "eq"): two distinct exception objects may compare equal,
# comparing may raise, hashing may be impossible - the cycle guard must still go by object identity
EQCLS = ["EqHash", "EqNoHash", "EqTrue", "EqRaises", "SubEqVal", "DataExc", "DataHashExc", "LocalEq", "LocalData", "DynEq",
         "DynEqHere"]
ARITY = {"DataExc": (2, 2), "DataHashExc": (1, 1), "LocalData": (1, 1), "KwOnly": (1, 1), "TwoPos": (2, 2), "SubTwoPos": (2, 2), "LocalSubTwoPos": (2, 2), "ExtraPos": (2, 2),
         "Rewrites": (1, 2), "SubRewrites": (1, 2), "FalsyTwoPos": (2, 2), "FalsyRewrites": (1, 2), "FalsyData": (1, 1)}
ARITY.update({k: (0, 0) for k in FIXED})

A_NATIVE = ["int", "neg", "zero", "big", "big400", "str", "empty", "uni", "astral", "none", "true", "false", "float",
            "negzero", "fmax", "denorm", "fint", "list", "nested", "dict", "dict2", "elist", "edict"]
A_LOSSY = ["nan", "inf", "ninf", "tuple", "etuple", "intkey", "boolkey", "listnan", "listtuple", "odict", "strsub",
           "intenum", "mixedkeys", "floatkey"]
A_NONJSON = ["bytes", "set", "object", "complex", "decimal", "datetime", "class", "type", "excinst", "frozenset", "range",
             "huge", "dictbytes", "circular", "tuplekey"]
A_FALSYEXC = "falsyexcinst"      # a falsy exception INSTANCE as an argument (substituted for "excinst" by falsify)
A_NOREPR = ["badrepr", "onlystr"]
A_NOPICKLE = ["lambda", "lock", "localobj", "gen", "listlambda", "module", "badreprlock", "onlystrlock"]
A_NOUNPICKLE = ["excbadinit", "reduceloadraises", "setstateraises", "listexcbadinit", "dictsetstate"]   # dumps ok, loads raises
A_SURR = ["surr", "surrnest", "surrval", "surrtuple"]
A_SURRKEY = ["surrkey", "surrkeynest"]
SCALARS = {"int", "neg", "zero", "str", "empty", "none", "true", "false", "float"}
# --- values that are themselves taskiq / pydantic objects with their own serialisation hooks (seeded change C19/7).
# A TaskiqResult whose `error` is set prepares that error in its __getstate__, so pickling an exception that carries one
# (args: `raise ChildTaskFailed("..", child_result)`; instance attribute: `exc.child_result = res`) RE-ENTERS
# prepare_exception on the same thread while the outer call is in progress.
A_RESULT = ["reserr", "reserrprobe", "reserrlocal", "reserrbadarg", "reserrchain", "reserrcyc", "reserrnested",
            "listreserr", "dictreserr", "tuplereserr", "subreserr"]
A_MODEL = ["resok", "tmsg", "brokermsg", "pydmodel", "excrepr", "wrapperinst"]     # own hooks, no re-entry
# objects whose __repr__ / __str__ / __reduce__ / __getstate__ / unpickling call back into taskiq's serialisation (some
# raise afterwards), on the same thread ...
A_HOOK = ["reprstores", "reprstoreslock", "strstores", "reducestores", "getstatestores", "reducestoresraises", "loadconverts"]
A_THREAD = ["threadreduce", "threadrepr"]                                          # ... or on a helper thread they wait for
A_REENTRANT = A_RESULT + A_HOOK + A_THREAD
# exception CLASSES that carry a failed result on the instance / whose own hooks store a result
REENT_CLS = ["ChildTaskFailed", "LocalChildFailed", "ReentStr", "LocalReentStr", "ReentReduce", "ReentReduceRaises",
             "ThreadReduceExc", "LoadsResult", "ProbeErr"]
REENT_CLS_ACTIVE = [c for c in REENT_CLS if c != "ProbeErr"]
# Defect D15 of the pinned snapshot (see notes/C19.md): a re-entered store clear()ed the cycle guard of the outer one, so a
# CYCLIC chain through a re-entering node recursed without bound. Repaired in /repo c423bc1; the minimal input is an ordinary
# corpus entry (corpus/C19/d15_*.json) and re-entering values are generated on cyclic graphs too.


def gen_arg(r, surr=True):
    k = r.random()
    if k < .36:
        return r.choice(A_NATIVE)
    if k < .52:
        return r.choice(A_LOSSY)
    if k < .72:
        return r.choice(A_NONJSON)
    if k < .80:
        return r.choice(A_NOREPR)
    if k < .88:
        return r.choice(A_NOPICKLE)
    if k < .93:
        return r.choice(A_NOUNPICKLE)
    if not surr:
        return r.choice(A_NATIVE)
    return r.choice(A_SURR) if k < .975 else r.choice(A_SURRKEY)


def gen_node(r, n, shadow, surr, mixin=True):
    k = r.random()
    if shadow and k < .5:
        cls = r.choice(SHADOW)
    elif mixin and k > .94:
        cls = r.choice(MIXIN)
    elif k < .22:
        cls = r.choice(PLAIN)
    elif k < .32:
        cls = r.choice(BASEX)
    elif k < .46:
        cls = r.choice(MODLEVEL)
    elif k < .58:
        cls = r.choice(LOCAL)
    elif k < .70:
        cls = r.choice(DYN)
    elif k < .90:
        cls = r.choice(CUSTOM)
    else:
        cls = r.choice(FIXED)
    lo, hi = ARITY.get(cls, (0, 3))
    nargs = r.randint(lo, hi)
    set_args = r.random() < .1
    if set_args:
        nargs = r.randint(0, 3)
    # surrogate arguments are rare: one D9 argument anywhere makes the whole text store fail
    args = [gen_arg(r, surr and r.random() < .25) for _ in range(nargs)]
    return dict(cls=cls, args=args, set_args=set_args, ctor_n=lo, lock_attr=r.random() < .07, raised=r.random() < .5,
                cause=r.randrange(n) if r.random() < .5 else None,
                context=r.randrange(n) if r.random() < .5 else None,
                suppress=r.random() < .35)


def gen_case(r, shadow=False, mixin=True):
    n = r.choice([1, 1, 2, 2, 3, 3, 4, 4, 5, 6])
    surr = r.random() < .3
    nodes = [gen_node(r, n, shadow, surr, mixin) for _ in range(n)]
    if n >= 3 and r.random() < .3:
        # a chain through all nodes (depth n), the other link of each node stays random (back-links, shared nodes)
        for i, s in enumerate(nodes[:-1]):
            if r.random() < .5:
                s["cause"] = i + 1
            else:
                s["context"], s["suppress"] = i + 1, False
    return dict(nodes=nodes, family="shadow" if shadow else "main")


def gen_eq_case(r):
    """family "eq": a chain 0 -> 1 -> .. -> d (cause or unsuppressed context, d = 1..3 below the first twin) on which two
    DISTINCT nodes p < q are twins - same class with value-based equality, same argument kinds, so that the two objects
    usually compare equal although neither link is a back-link. Every other node / link stays random (other classes,
    real back-links to the path, shared nodes, suppressed contexts), a third of the other nodes are of equality classes too."""
    n = r.choice([2, 2, 3, 3, 4, 4, 5, 6])
    nodes = [gen_node(r, n, False, False) for _ in range(n)]
    for s in nodes:
        if r.random() < .33:
            retype(r, s, r.choice(EQCLS))
    q = r.randint(1, min(3, n - 1)) if r.random() < .8 else r.randint(1, n - 1)
    p = r.randrange(q) if r.random() < .5 else 0
    for i in range(q):                       # the path root .. q
        if r.random() < .5:
            nodes[i]["cause"] = i + 1
        else:
            nodes[i]["context"], nodes[i]["suppress"] = i + 1, False
    retype(r, nodes[p], r.choice(EQCLS), native=r.random() < .7)
    for k in ("cls", "args", "set_args", "ctor_n"):
        nodes[q][k] = list(nodes[p][k]) if k == "args" else nodes[p][k]
    if r.random() < .15:                     # near miss: same class, one argument differs
        nodes[q]["args"] = nodes[q]["args"][:-1] + ["big"] if nodes[q]["args"] else nodes[q]["args"]
    return dict(nodes=nodes, family="eq")


def to_falsy(r, s, cls):
    """the node becomes an instance of falsy class kind cls; the arguments stay (cls takes them: same signature / any)"""
    s["cls"], s["ctor_n"] = cls, ARITY.get(cls, (0, 3))[0]
    if cls == "LenArgs" and r.random() < .6:
        s["args"] = []                       # LenArgs is falsy only without arguments
    if r.random() < .3:
        s["lock_attr"] = True                # not picklable as it is, a fresh cls(*args) is: the pickle stand-in is FALSY
    if r.random() < .3:
        s["raised"] = True


def falsify(r, nodes, p=.05, skip=()):
    """post-pass over a generated graph with its OWN rng (the underlying generator's stream is untouched): each node
    becomes, with probability p, an exception whose INSTANCE is falsy / has no truth value - at whatever position it is
    (root, cause, context, on a cycle, shared); an exception instance among the arguments becomes a falsy one likewise"""
    for s in nodes:
        s["args"] = [A_FALSYEXC if a == "excinst" and r.random() < .3 else a for a in s["args"]]
        if r.random() >= p or s["cls"] in skip or s["cls"] in SHADOW or s["cls"] in FIXED or s["cls"] == "KwOnly":
            continue
        if s["cls"] in FALSY_TWIN:
            to_falsy(r, s, FALSY_TWIN[s["cls"]])
        elif s["cls"] not in ARITY:
            to_falsy(r, s, r.choice(FALSY_FREE))
    return nodes


def falsify_case(r, case, p=.05):
    falsify(r, case["nodes"], p)
    return case


def falsify_eq(r, case, p=.2):
    """family "eq": in a fraction p of the cases every node of a value-equality class becomes its falsy variant
    (consistently, so that twins stay twins: two DISTINCT, EQUAL and FALSY exceptions on one path); other nodes as in falsify"""
    if r.random() < p:
        for s in case["nodes"]:
            if s["cls"] in EQ_FALSY_TWIN:
                s["cls"] = EQ_FALSY_TWIN[s["cls"]]
    falsify(r, case["nodes"], .05, skip=EQCLS + ["FalsyEq", "LocalFalsyEq", "DynFalsyEq", "FalsyData"])
    return case


def falsify_seq(r, case, p=.25):
    """family "seq": in a fraction p of the groups some switchable class kinds are replaced - in every step and in the
    environment changes naming them - by their falsy variants (same place: module level / nested / publishable /
    nowhere.mod), so that falsy classes go through lazy import, reload, replace, delattr like the others"""
    if r.random() < p:
        m = {k: v for k, v in sorted(SEQ_FALSY_TWIN.items()) if r.random() < .7}
        for st in case["steps"]:
            for s in st.get("nodes", []):
                if s["cls"] in m:
                    s["cls"] = m[s["cls"]]
            for op in st.get("ops", []):
                if op.get("cls") in m:
                    op["cls"] = m[op["cls"]]
    for st in case["steps"]:
        falsify(r, st.get("nodes", []), .05, skip=SEQ_SWITCHABLE + list(SEQ_FALSY_TWIN.values()))
    return case


def node_is_reentrant(s):
    return bool(any(a in A_REENTRANT for a in s["args"]) or (s.get("res_attr") in A_REENTRANT) or s["cls"] in REENT_CLS_ACTIVE)


def put_value(r, s, kind):
    """the node carries one more value of the given kind: among its arguments (added or, where the constructor has a fixed
    signature, in place of one) or as an instance attribute set after construction"""
    lo, hi = ARITY.get(s["cls"], (0, 3))
    free = s.get("set_args") or s["cls"] not in ARITY
    if s["cls"] in FIXED and not s.get("set_args"):
        s["res_attr"] = kind
    elif free and len(s["args"]) < 4 and r.random() < .6:
        s["args"].insert(r.randint(0, len(s["args"])), kind)
    elif s["args"] and r.random() < .8:
        s["args"][r.randrange(len(s["args"]))] = kind
    else:
        s["res_attr"] = kind


def reentrify(r, nodes, p=.03, force=False):
    """post-pass with its OWN rng (the underlying generators' streams are untouched): with probability p the graph gets
    1..3 values that are taskiq / pydantic objects or whose hooks store a result themselves - as an argument, as an
    instance attribute, or by the class of the exception - at any position, on cyclic graphs as well (a re-entered store on
    a cyclic chain was defect D15 of the pinned snapshot - the nested call reset the cycle guard - repaired in /repo c423bc1)."""
    if not nodes or (not force and r.random() >= p):
        return nodes
    case = dict(nodes=nodes)
    rs = reach(case)
    for _ in range(r.choice([1, 1, 2, 3])):
        s = nodes[r.choice(rs)] if r.random() < .85 else r.choice(nodes)
        if s["cls"] in SHADOW:
            continue
        k = r.random()
        if k < .20 and s["cls"] not in ARITY and s["cls"] not in FIXED:
            s["cls"], s["ctor_n"] = r.choice(REENT_CLS), 0
        elif k < .35:
            s["res_attr"] = r.choice(A_RESULT + ["resok"])
        else:
            put_value(r, s, r.choice(A_RESULT) if k < .65 else r.choice(A_HOOK) if k < .82 else r.choice(A_THREAD)
                      if k < .92 else r.choice(A_MODEL))
    return nodes


def reentrify_case(r, case, p=.03):
    reentrify(r, case["nodes"], p)
    return case


def reentrify_seq(r, case, p=.10):
    if r.random() < p:
        for st in case["steps"]:
            if r.random() < .7:
                reentrify(r, st.get("nodes", []), force=True)
    return case


def gen_reent_case(r):
    """family "reent": an ACYCLIC exception graph (links go to later nodes only: chains, shared nodes, suppressed contexts
    stay) that carries re-entering values. 40 %: the everyday shape - the task's own exception is a module-level / builtin /
    local class raised with (message, failed child result) or given the result as an attribute"""
    case = gen_case(r, mixin=True)
    nodes = case["nodes"]
    for i, s in enumerate(nodes):
        for l in ("cause", "context"):
            if s[l] is not None and s[l] <= i:
                s[l] = r.randrange(i + 1, len(nodes)) if i + 1 < len(nodes) and r.random() < .6 else None
    if r.random() < .4:
        s = nodes[0]
        if r.random() < .7:
            retype(r, s, r.choice(["ModLevel", "RuntimeError", "Local", "Nested", "ValueError", "Dyn", "ModBase", "WithLock"]),
                   native=True)
            s["args"] = ["str"]
        if s["cls"] not in ARITY and s["cls"] not in FIXED and r.random() < .7:
            s["args"] = s["args"][:2] + [r.choice(A_RESULT)]
        else:
            s["res_attr"] = r.choice(A_RESULT)
    reentrify(r, nodes, force=True)
    case["family"] = "reent"
    return case


def retype(r, s, cls, native=False):
    lo, hi = ARITY.get(cls, (0, 3))
    s["cls"], s["ctor_n"], s["set_args"] = cls, lo, False
    s["args"] = [r.choice(A_NATIVE) if native or r.random() < .5 else gen_arg(r, False) for _ in range(r.randint(lo, hi))]


# ---- family "seq": SEQUENCES of store / load steps in ONE process with environment changes between the steps
# classes whose importability can be switched: module-level / nested classes of the generated module (unregister the
# module, delete / re-publish the name), type()-created classes naming the generated module (publishable) or a module
# that is not imported at first ("nowhere.mod": registered later = lazy import)
SEQ_MOD = ["ModLevel", "ModSubVal", "Nested", "Deep", "ModBase", "TwoPos", "SubTwoPos", "Rewrites", "KwOnly", "ExtraPos",
           "WithLock", "ReduceBad", "EqHash", "DataExc", "SubEqVal", "ModMixin"]
SEQ_PUBLISHABLE = ["DynHere", "DynK", "DynEqHere"]
SEQ_NOWHERE = ["Dyn", "DynMixin", "DynEq"]
SEQ_SWITCHABLE = SEQ_MOD + SEQ_PUBLISHABLE + SEQ_NOWHERE


def gen_seq_graph(r):
    n = r.choice([1, 1, 1, 2, 2, 3, 4])
    nodes = [gen_node(r, n, False, False) for _ in range(n)]
    for s in nodes:
        k = r.random()
        if k < .45:
            retype(r, s, r.choice(SEQ_MOD), native=r.random() < .7)
        elif k < .60:
            retype(r, s, r.choice(SEQ_PUBLISHABLE), native=r.random() < .7)
        elif k < .72:
            retype(r, s, r.choice(SEQ_NOWHERE), native=r.random() < .7)
    if n >= 2 and r.random() < .6:            # make sure the chain is exercised: root -> 1 (cause or unsuppressed context)
        if r.random() < .5:
            nodes[0]["cause"] = 1
        else:
            nodes[0]["context"], nodes[0]["suppress"] = 1, False
    return nodes


def gen_seq_ops(r, st, nodes):
    """0..2 environment changes; st = what the generator believes the environment is (only to make the changes
    meaningful - every op is total in the driver whatever the state)"""
    ops = []
    here = [s["cls"] for s in nodes if s["cls"] in SEQ_SWITCHABLE]

    def pick(pool=SEQ_SWITCHABLE):
        inpool = [c for c in here if c in pool]
        return r.choice(inpool) if inpool and r.random() < .8 else r.choice(pool)
    for _ in range(r.choice([0, 1, 1, 1, 2])):
        k = r.random()
        if not st["zoo"] and k < .6:
            ops.append(dict(op="register", mod="zoo"))
            st["zoo"] = True
        elif k < .12:
            ops.append(dict(op="unregister", mod="zoo"))
            st["zoo"] = False
        elif k < .30:
            c = pick(SEQ_MOD + SEQ_NOWHERE)
            ops.append(dict(op="delattr", cls=c))
            st["gone"].add(c)
        elif k < .50:
            gone = [c for c in st["gone"] if c in here]
            c = r.choice(gone) if gone and r.random() < .7 else pick()
            ops.append(dict(op="setattr", cls=c))
            st["gone"].discard(c)
        elif k < .62:
            ops.append(dict(op="reload"))
            st["gone"].clear()
        elif k < .70:
            ops.append(dict(op="reimport"))
            st["gone"].clear()
            st["zoo"] = True
        elif k < .84:
            ops.append(dict(op="replace", cls=pick()))
        else:
            ops.append(dict(op="unregister" if st["nowhere"] else "register", mod="nowhere"))
            st["nowhere"] = not st["nowhere"]
    return ops


def gen_seq_case(r):
    """one case = 2..5 steps in one process; the first step stores a graph (often while some of its classes are NOT
    importable), later steps change the environment and load the SAME payload again (reuse), store the same descriptors
    again from the classes that exist now (rebuild), or store an unrelated graph sharing class names (new)"""
    st = dict(zoo=True, nowhere=False, gone=set())
    nodes = gen_seq_graph(r)
    ops = []
    k = r.random()
    here = [s["cls"] for s in nodes if s["cls"] in SEQ_MOD]
    if k < .25:
        ops.append(dict(op="unregister", mod="zoo"))
        st["zoo"] = False
    elif k < .50 and here:
        c = r.choice(here)
        ops.append(dict(op="delattr", cls=c))
        st["gone"].add(c)
    elif k < .60:
        ops.append(dict(op="register", mod="nowhere"))
        st["nowhere"] = True
    steps = [dict(ops=ops, mode="new", nodes=nodes)]
    for _ in range(r.choice([1, 2, 2, 3, 3, 4])):
        k = r.random()
        mode = "reuse" if k < .45 else "rebuild" if k < .75 else "new"
        if mode == "new":
            nodes = gen_seq_graph(r)
            if r.random() < .5:                 # same class names as before, other arguments / links
                for s, t in zip(nodes, steps[0]["nodes"]):
                    retype(r, s, t["cls"], native=r.random() < .7)
        step = dict(ops=gen_seq_ops(r, st, nodes), mode=mode)
        if mode == "new":
            step["nodes"] = nodes
        steps.append(step)
    return dict(family="seq", steps=steps)


def seq_steps(c, o):
    """the steps of a seq case as (pseudo case, observation, step index) - each step is judged on its own against the
    flags measured at that step"""
    return [(dict(nodes=so["specs"], family="seq"), so, k) for k, so in enumerate(o["steps"])]


def seq_oracle_applies(pc, so):
    """the statement's class list does not cover an original whose class OBJECT has been replaced under its name since
    it was raised (its name resolves to another class: like family 'shadow', model + correspondence only)"""
    return all(so["nodes"][i]["resolve"] not in ("ROther", "RNonExc") for i in reach(pc))


def reach(case):
    """nodes serialised from the root: along cause and unsuppressed context"""
    seen, todo = [], [0]
    while todo:
        i = todo.pop()
        if i in seen:
            continue
        seen.append(i)
        s = case["nodes"][i]
        if s.get("cause") is not None:
            todo.append(s["cause"])
        if s.get("context") is not None and not s.get("suppress"):
            todo.append(s["context"])
    return seen


def depth(case, i=0, path=()):
    if i in path:
        return 0
    s = case["nodes"][i]
    d = [depth(case, j, path + (i,)) for j in (s.get("cause"), None if s.get("suppress") else s.get("context")) if j is not None]
    return 1 + max(d, default=0)


def nontrivial(case):
    rs = reach(case)
    if depth(case) >= 2:
        return True
    for i in rs:
        s = case["nodes"][i]
        if s["cls"] not in PLAIN or s.get("set_args") or s.get("lock_attr") or any(a not in SCALARS for a in s["args"]):
            return True
    return False


# --------------------------------------------------------------------------- Coq literals
def c_largs(a):
    if isinstance(a, list):
        return "(LArgs %s)" % C.clist(a)
    return a


def c_arg(m):
    return "(mkArg %s)" % " ".join(C.cb(m[k]) for k in ("rt_json", "rt_pickle", "enc_text", "enc_dict", "eq_text", "eq_dict",
                                                          "eq_pickle", "repr_ok", "str_ok"))


def c_node(n):
    mro = C.clist(["(mkMro %s %s %s %s)" % (C.cb(m["ok_json"]), C.cb(m["ok_pickle"]), c_largs(m["loaded"]), C.cb(m["is_exc"]))
                   for m in n["mro"]])
    return "(mkNode %s %s %s %s %s %s %s %s %s %s %s %s %s %s %s %s)" % (
        C.cb(n["has_module"]), n["resolve"], C.cb(n["accepts_text"]), C.cb(n["accepts_dict"]), C.cb(n["recon_text"]),
        C.cb(n["recon_dict"]), C.cb(n["exc_rt_json"]), C.cb(n["exc_rt_pickle"]), c_largs(n["native"]), mro,
        C.cb(n["wrap_rt_json"]), C.cb(n["wrap_rt_pickle"]), C.clist([c_arg(m) for m in n["args"]]),
        C.copt(n["cause"], C.cn), C.copt(n["context"], C.cn), C.cb(n["suppress"]))


def c_tree(t):
    if t is None:
        return "LNone"
    k = t["k"]
    if isinstance(k, list):
        k = "(KBase %s)" % C.cn(k[1])
    elif k == "KUnknown":
        k = "(KBase 4999%nat)"
    return "(LNode %s %s %s %s %s %s %s)" % (C.cn(4999 if t["id"] is None else t["id"]), k, C.cb(t["named"]),
                                             c_largs(t["a"]), c_tree(t["c"]), c_tree(t["x"]), C.cb(t["s"]))


def c_outcome(o):
    k = o["o"]
    if k == "loaded":
        return "(OLoaded %s)" % c_tree(o["t"])
    return {"store_fail": "OStoreFail", "security": "OSecurity", "notexc": "ONotExc"}.get(k, "OFuel")


COQ_HEADER = """From Coq Require Import List Bool Arith. Import ListNotations.
From TQ Require Import ExcSer."""
COQ_BODY = "Eval vm_compute in bad_cases 0%nat cases."


# --------------------------------------------------------------------------- direct oracle (the statement, in Python)
TEXTFORMS = ("ARepr", "AStr", "AUnrep")


def oracle_class(enc, n, t):
    """class / argument clause for one loaded node t against original node n; returns (category, detail) or None"""
    k, a = t["k"], t["a"]
    coder = "pickle" if enc == "pickle" else "json"
    representable = all(m["repr_" + coder] for m in n["args"])
    full = n["importable"] and representable and n["own_ctor_ok"] and n["own_recon"]
    if enc == "pickle":
        # Python's own exception pickling must itself work and keep class and args, else only a stand-in is demanded
        full = full and n["exc_rt_pickle"] and n["native_same_class"] and n["native"] == ["AEq"] * len(n["args"])
    if full:
        if k != "KOrig":
            return "importable, reconstructible class with representable arguments did not come back as itself", str(k)
        if a != ["AEq"] * len(n["args"]):
            return "original class came back with different arguments", str(a)
        return None
    if k == "KOrig":
        pass
    elif k in ("KSynth", "KSynthSer", "KGeneric", "KWrap"):
        if not t["named"]:
            return "stand-in does not carry the original class name", k
    elif isinstance(k, list) and k[0] == "KBase":
        if enc != "pickle":
            return "loaded error is not one of the listed stand-ins", "base class on a JSON path"
        i = k[1]
        usable = [m["ok_pickle"] and m["is_exc"] for m in n["mro"]]
        if i >= len(usable) or not usable[i] or any(usable[:i]):
            return "base-class stand-in is not the nearest reconstructible base class", "MRO index %d" % i
    else:
        return "loaded error is not one of the listed stand-ins", str(k)
    if isinstance(a, list) and (k in ("KSynth", "KSynthSer", "KWrap") or (k == "KOrig" and n["own_recon"])):
        for f, m in zip(a, n["args"]):
            if not m[coder + "_encodable"] and f not in TEXTFORMS:
                return "un-encodable argument not replaced by its text form", f
    return None


def oracle_tree(enc, nodes, t, i, path):
    """class clause at every node, chain clause (JSON) along every duplicate-free path"""
    if t["id"] != i:
        return "loaded link does not correspond to a link of the original", "at node %r: %s" % (i, t.get("why", t["id"]))
    n = nodes[i]
    bad = oracle_class(enc, n, t)
    if bad:
        return bad[0], "node %d: %s" % (i, bad[1])
    if enc == "pickle":
        return None          # links are demanded for JSON only
    if t["s"] != n["suppress"]:
        return "suppress-context flag not preserved", "node %d: %r, original %r" % (i, t["s"], n["suppress"])
    p = path + [i]
    for what, j, sub in (("cause", n["cause"], t["c"]),
                         ("context", None if n["suppress"] else n["context"], t["x"])):
        if j is None or j in p:
            if sub is not None:
                return ("%s link present where none is expected" % what,
                        "node %d (%s)" % (i, "target is on the path" if j is not None else "absent or suppressed"))
        else:
            if sub is None:
                return "%s link lost" % what, "node %d -> node %d" % (i, j)
            bad = oracle_tree(enc, nodes, sub, j, p)
            if bad:
                return bad
    return None


def oracle(case, obs, enc):
    """None if the statement holds for this encoding, else (category, detail, stage)"""
    o = obs["enc"][enc]
    if o["o"] == "hang":
        return ("storing the result never finished" if o.get("stage") == "store" else "loading the result never finished",
                "no progress: " + str(o.get("how")), o.get("stage", "store"))
    if o["o"] == "store_fail":
        return "storing the result raised", o["exc"], "store"
    if o["o"] in ("load_fail", "security"):
        return "loading the result raised", o["exc"], "load"
    if o["o"] == "notexc":
        return "the loaded error is not an exception", o["type"], "load"
    if o["o"] != "loaded":
        return "the round trip did not happen", o["o"], "store"
    bad = oracle_tree(enc, obs["nodes"], o["t"], 0, [])
    return (bad[0], bad[1], "compare") if bad else None


def sig_of(case, obs, enc, stage):
    o = obs["enc"][enc]
    rs = reach(case)
    args = [m for i in rs for m in obs["nodes"][i]["args"]]
    root = obs["nodes"][0]
    first = next((m for m in root["mro"] if m["ok_pickle"]), None)
    return dict(enc=enc, stage=stage, exc=o.get("exc"), msg=o.get("msg", ""), outcome=o["o"],
                reentrant_reachable=any(node_is_reentrant(case["nodes"][i]) for i in rs), cyclic=has_cycle(case),
                surrogate=any(m["surrogate"] for m in args), surrogate_key=any(m["surrogate_key"] for m in args),
                mixin_first=bool(not root["exc_rt_pickle"] and first is not None and not first["is_exc"]),
                falsy_reachable=any(not obs["nodes"][i].get("truthy", True) or obs["nodes"][i].get("bool_raises") for i in rs))


def surrogate_str_json_text(f):
    """exactly: the JSON-TEXT store fails with a UTF-8 / surrogate encoding error and some str reachable in the
    serialised exceptions' args (nested in lists / dicts, dict keys included) contains a surrogate code point"""
    s = f.get("sig") or {}
    return (s.get("enc") == "text" and s.get("stage") == "store" and s.get("exc") == "PydanticSerializationError"
            and "surrogates not allowed" in s.get("msg", "") and bool(s.get("surrogate")))


def surrogate_key_json_dict(f):
    """exactly: the JSON-DICT store fails with UnicodeEncodeError (surrogates) and some dict KEY reachable in the
    serialised exceptions' args is a str containing a surrogate code point"""
    s = f.get("sig") or {}
    return (s.get("enc") == "dict" and s.get("stage") == "store" and s.get("exc") == "UnicodeEncodeError"
            and "surrogates not allowed" in s.get("msg", "") and bool(s.get("surrogate_key")))


def pickle_mixin_base_not_exception(f):
    """exactly: the PICKLE round trip yields a non-exception `error`, Python's own pickling of the root exception fails
    and the first class of its MRO (before Exception/BaseException/object) whose cls(*args) constructs and pickles is
    not a BaseException subclass - all three measured without taskiq"""
    s = f.get("sig") or {}
    return s.get("enc") == "pickle" and s.get("outcome") == "notexc" and bool(s.get("mixin_first"))


# (finding D15 `reentrant_store_on_cyclic_chain` is repaired in /repo c423bc1: no predicate)
# (finding D11 `falsy_exception_in_chain` is repaired in /repo 18e0da2: no predicate - falsy exception objects are ordinary
# inputs, and a failure on one is a VIOLATION like any other)
SIGNATURES = dict(surrogate_str_json_text=surrogate_str_json_text, surrogate_key_json_dict=surrogate_key_json_dict,
                  pickle_mixin_base_not_exception=pickle_mixin_base_not_exception)


# --------------------------------------------------------------------------- run
# a driver process supervises its cases itself (a stage that hangs costs ~3 s and becomes a verdict); this is only the
# fail-closed limit for the whole child process
DRIVER_LIMIT = 900


def tree_stats(rep, t, enc):
    if t is None:
        return
    k = t["k"]
    rep.count("loaded:%s:%s" % (enc, k if isinstance(k, str) else "KBase"))
    a = t["a"]
    if isinstance(a, list):
        for f in a:
            rep.count("argform:%s:%s" % (enc, f))
    else:
        rep.count("largs:%s:%s" % (enc, a))
    tree_stats(rep, t["c"], enc)
    tree_stats(rep, t["x"], enc)


def graph_stats(rep, case, obs):
    rs = reach(case)
    rep.count("nodes:%d" % len(case["nodes"]))
    rep.count("depth:%d" % depth(case))
    cut = shared = 0
    indeg = {}
    for i in rs:
        s, n = case["nodes"][i], obs["nodes"][i]
        rep.count("class:" + s["cls"])
        rep.count("resolve:" + ("RNoModule" if not n["has_module"] else n["resolve"]))
        # which branch of the pickle cascade (model: PExc / PBase i / PWrap / PRepr)
        if n["exc_rt_pickle"]:
            rep.count("prep:pickle:PExc")
        else:
            idx = next((j for j, m in enumerate(n["mro"]) if m["ok_pickle"] and m["is_exc"]), None)
            if any(m["ok_pickle"] and not m["is_exc"] for m in n["mro"][:len(n["mro"]) if idx is None else idx]):
                rep.count("prep:pickle:mixin_skipped")
            rep.count("prep:pickle:" + ("PWrap" if idx is None and n["wrap_rt_pickle"] else "PRepr" if idx is None
                                        else "PBase0" if idx == 0 else "PBase+"))
        for m, a in zip(n["args"], s["args"] if len(s["args"]) == len(n["args"]) else [None] * len(n["args"])):
            rep.count("arg:rt_json=%d,rt_pickle=%d,repr=%d,str=%d" % (m["rt_json"], m["rt_pickle"], m["repr_ok"], m["str_ok"]))
            if m["pickle_dumps_ok"] and not m["rt_pickle"]:
                rep.count("arg:pickle_dumps_ok_but_loads_raises")
        for j in (s.get("cause"), None if s.get("suppress") else s.get("context")):
            if j is not None:
                indeg[j] = indeg.get(j, 0) + 1
        if s.get("suppress") and s.get("context") is not None:
            rep.count("link:context_suppressed")
    if case.get("family") == "eq":
        eq_stats(rep, case, obs)
    falsy_stats(rep, case, obs, rs)
    reent_stats(rep, case, obs, rs)
    rep.count("graph:shared_node", int(any(v > 1 for v in indeg.values())))
    rep.count("graph:cyclic", int(has_cycle(case)))


NEW_VALUE_KINDS = set(A_REENTRANT + A_MODEL)


def reent_stats(rep, case, obs, rs):
    """how often the input kind "a value that is a taskiq object / stores a result itself" really occurs, where, and how
    deep the store was really re-entered (logged by the generated hooks themselves while the real store ran)"""
    here = False
    for i in rs:
        s = case["nodes"][i]
        for a in s["args"]:
            if a in NEW_VALUE_KINDS:
                rep.count("reent:arg:" + a)
        if s.get("res_attr"):
            rep.count("reent:attr:" + s["res_attr"])
        if s["cls"] in REENT_CLS:
            rep.count("reent:class:" + s["cls"])
        if node_is_reentrant(s):
            here = True
            rep.count("reent:position:" + ("root" if i == 0 else "deeper"))
    rep.count("reent:cases_with_reentering_value_reachable", int(here))
    if here:
        rep.count("reent:family:" + str(case.get("family")))
    for enc in ("text", "dict", "pickle"):
        e = obs["enc"][enc]
        h = e.get("hooks")
        if h and h.get("calls"):
            rep.count("reent:store:%s:deepest_prepare_exception_nesting:%d" % (enc, min(h["max_nest"], 4)))
            if h.get("other_thread"):
                rep.count("reent:store:%s:stored_on_helper_thread_meanwhile" % enc)
        if (e.get("load_hooks") or {}).get("calls"):
            rep.count("reent:load:%s:hook_ran" % enc)
        if e["o"] == "hang":
            rep.count("reent:hang:%s:%s:%s" % (enc, e.get("stage"), e.get("how")))


def falsy_stats(rep, case, obs, rs):
    """how often the input kind "exception object that is falsy / has no truth value" really occurs, and where"""
    def odd(i):
        n = obs["nodes"][i]
        return "bool_raises" if n.get("bool_raises") else None if n.get("truthy", True) else "falsy"
    here = [i for i in rs if odd(i)]
    rep.count("falsy:cases_with_falsy_exception_reachable", int(bool(here)))
    if not here:
        return
    for i in here:
        rep.count("falsy:node:" + odd(i))
    if odd(0):
        rep.count("falsy:position:root")
    found = set()
    for i in rs:
        s = case["nodes"][i]
        for what, j in (("cause", s.get("cause")), ("context_suppressed" if s.get("suppress") else "context", s.get("context"))):
            if j is not None and odd(j):
                found.add("falsy:position:" + what)
                if j == i:
                    found.add("falsy:self_link")
        if odd(i) and (s.get("cause") is not None or (s.get("context") is not None and not s.get("suppress"))):
            found.add("falsy:has_own_cause_or_context")
    for k in found:
        rep.count(k)
    if has_cycle(case):
        rep.count("falsy:in_cyclic_graph")
    if case.get("family") in ("eq", "seq"):
        rep.count("falsy:family:" + case["family"])
    n = obs["nodes"][0]
    if not n["exc_rt_pickle"]:            # pickle: which stand-in the cascade takes for the root, and whether it is falsy
        idx = next((j for j, m in enumerate(n["mro"]) if m["ok_pickle"] and m["is_exc"]), None)
        if idx is not None and n["mro"][idx].get("cand_falsy"):
            rep.count("falsy:pickle_nearest_candidate_is_falsy:" + ("same_class" if idx == 0 else "base_class"))
        elif idx is None and odd(0):
            rep.count("falsy:pickle_wrapper_for_falsy_root")


def eq_stats(rep, case, obs):
    """how often the new input kind really occurs: links (of the expected unfolding) to a node that is NOT on the path
    but compares equal (real ==, measured by the driver) to a node that is"""
    found = {}

    def go(i, path, d):
        s = case["nodes"][i]
        p = path + (i,)
        for what, j in (("cause", s.get("cause")), ("context", None if s.get("suppress") else s.get("context"))):
            if j is None or j in p:
                continue
            if any(k in obs["nodes"][j].get("eq_nodes", []) for k in p):
                found["eq:link_to_equal_distinct_node:" + what] = 1
                found["eq:equal_distinct_depth:%d" % min(d + 1, 4)] = 1
                found["eq:equal_distinct_class:" + case["nodes"][j]["cls"]] = 1
                if i not in obs["nodes"][j].get("eq_nodes", []):
                    found["eq:equal_to_non_parent_ancestor"] = 1
            go(j, p, d + 1)
    go(0, (), 0)
    for k in found:
        rep.count(k)
    rep.count("eq:cases_with_equal_distinct_on_path", int(bool(found)))
    rs = reach(case)
    rep.count("eq:comparison_raises_reachable", int(any(obs["nodes"][i].get("eq_raises") for i in rs)))
    rep.count("eq:unhashable_reachable", int(any(not obs["nodes"][i].get("hashable", True) for i in rs)))


def has_cycle(case):
    def go(i, path):
        if i in path:
            return True
        s = case["nodes"][i]
        return any(go(j, path + (i,)) for j in (s.get("cause"), None if s.get("suppress") else s.get("context")) if j is not None)
    return go(0, ())


def count_cuts(rep, case, t, i, path, enc):
    if t is None:
        return
    s = case["nodes"][i]
    p = path + [i]
    for j, sub in ((s.get("cause"), t["c"]), (None if s.get("suppress") else s.get("context"), t["x"])):
        if j is not None and j in p and sub is None:
            rep.count("link:cut_back_to_path")
        elif j is not None and sub is not None and sub.get("id") == j:
            rep.count("link:kept")
            count_cuts(rep, case, sub, j, p, enc)


def seq_stats(rep, c, o):
    prev = None
    for st, so in zip(c["steps"], o["steps"]):
        rep.count("seq:mode:" + st.get("mode", "new"))
        for op in st.get("ops", []):
            rep.count("seq:op:" + op["op"] + (":" + op["mod"] if "mod" in op else ""))
        if not st.get("ops"):
            rep.count("seq:op:none")
        rep.count("seq:env:zoo_registered=%d,nowhere_registered=%d" % (so["env"]["zoo"], so["env"]["nowhere"]))
        if so["env"].get("payload_same_as_fresh_store") is not None:
            rep.count("seq:reused_payload_equals_fresh_store_now:%d" % so["env"]["payload_same_as_fresh_store"])
        res = [("RNoModule" if not n["has_module"] else n["resolve"]) for n in so["nodes"]]
        if prev is not None and st.get("mode") == "reuse":
            # the SAME payload loaded again: how the resolution of its class names moved since the previous load
            for a, b in zip(prev, res):
                rep.count("seq:same_payload_reloaded:%s->%s" % (a, b))
        elif prev is not None and st.get("mode") == "rebuild":
            for a, b in zip(prev, res):
                rep.count("seq:same_names_stored_again:%s->%s" % (a, b))
        prev = res
    rep.count("seq:steps:%d" % len(c["steps"]))


def explore(ctx, rep, cases, label, use_oracle=True, obs=None):
    if obs is None:
        obs = C.run_driver(ctx, "excser_driver", cases, timeout=DRIVER_LIMIT)
    lits, keep = [], []
    nfail = 0
    for c, o in zip(cases, obs):
        seq = c.get("family") == "seq"
        rep.case(c, True if seq else nontrivial(c))
        if "_crash" in o:
            rep.fail("driver crashed (an exception escaped the harness' own measurements)", c, observed=o["_crash"])
            nfail += 1
            continue
        if seq:
            seq_stats(rep, c, o)
        for pc, so, step in (seq_steps(c, o) if seq else [(c, o, None)]):
            graph_stats(rep, pc, so)
            judged = use_oracle and (not seq or seq_oracle_applies(pc, so))
            if seq:
                rep.count("seq:step_judged_by_oracle:%d" % judged)
            for enc in ("text", "dict", "pickle"):
                e = so["enc"][enc]
                rep.count("outcome:%s:%s" % (enc, e["o"]))
                if e["o"] == "loaded":
                    tree_stats(rep, e["t"], enc)
                    if enc == "text":
                        count_cuts(rep, pc, e["t"], 0, [], enc)
                if not judged:
                    continue
                bad = oracle(pc, so, enc)
                if bad:
                    what, detail, stage = bad
                    nfail += 1
                    rep.fail("%s round trip: %s" % ({"text": "JSON-text", "dict": "JSON-dict", "pickle": "pickle"}[enc], what),
                             dict(c, enc=enc) if not seq else dict(c, enc=enc, step=step), observed=dict(e, detail=detail),
                             expected="store and load never fail; original class + equal args when importable, reconstructible "
                                      "and representable, else a named stand-in; JSON keeps cause / unsuppressed context / suppress "
                                      "along duplicate-free paths", sig=sig_of(pc, so, enc, stage))
            lits.append(C.cpair(C.clist([c_node(n) for n in so["nodes"]]), C.cn(0), c_outcome(so["enc"]["text"]),
                                c_outcome(so["enc"]["dict"]), c_outcome(so["enc"]["pickle"])))
            keep.append(c if not seq else dict(c, step=step))
    bad, fails, _ = C.coq_eval(ctx, label, COQ_HEADER, lits, COQ_BODY, shard=250)
    rep.corr(label, len(lits), bad, fails, lambda i: keep[i])
    rep.traces += len(lits) - len(bad)
    return bool(bad or fails), nfail


def run(ctx):
    rep = C.Report(ctx, META)
    rep.add_obligations(C.proof_obligations("C19"))
    corpus_known = {}
    live = {k["signature"] for k in C.load_known() if k["property"] == "C19" and k["status"] == "known"}
    for name, c in C.load_corpus("C19"):
        if c.get("requires_known") and c["requires_known"] not in live:
            # the minimal input of a finding that is reported but not registered in known_findings.json yet
            rep.count("corpus:entry_waiting_for_known_finding:" + c["requires_known"])
            continue
        c = {k: v for k, v in c.items() if k != "requires_known"}
        before = len(rep.failures)
        explore(ctx, rep, [c], "corpus_" + name.replace(".json", "").replace("-", "_"),
                use_oracle=c.get("family") != "shadow")
        for sig, pred in SIGNATURES.items():
            if any(pred(f) for f in rep.failures[before:]):
                corpus_known[sig] = True
    # family "seq": its driver run (own child processes, every group in a forked child of its own) is started now and
    # collected after the other families - it only waits for process start-up otherwise
    rq = ctx.sub_rng("seq")
    rf = ctx.sub_rng("falsy_seq")       # the falsy post-passes draw from their own streams (see falsify)
    seq_cases = [falsify_seq(rf, gen_seq_case(rq)) for _ in range(ctx.n(100, 3000))]
    rr = ctx.sub_rng("reent_seq")      # ... and so do the post-passes adding values that store results themselves
    seq_cases = [reentrify_seq(rr, c) for c in seq_cases]
    pool = ThreadPoolExecutor(1)
    seq_obs = pool.submit(C.run_driver, ctx, "excser_driver", seq_cases, None, 4 if ctx.quick else None, DRIVER_LIMIT)
    r = ctx.sub_rng("gen")
    rf = ctx.sub_rng("falsy_main")
    rr = ctx.sub_rng("reent_main")
    cases = [reentrify_case(rr, falsify_case(rf, gen_case(r))) for _ in range(ctx.n(2000, 60000))]
    broken, _ = explore(ctx, rep, cases, "main")
    rs = ctx.sub_rng("shadow")
    rf = ctx.sub_rng("falsy_shadow")
    rr = ctx.sub_rng("reent_shadow")
    b2, _ = explore(ctx, rep, [reentrify_case(rr, falsify_case(rf, gen_case(rs, shadow=True)))
                               for _ in range(ctx.n(200, 4000))], "shadow", use_oracle=False)
    broken = broken or b2
    re_ = ctx.sub_rng("eq")
    rf = ctx.sub_rng("falsy_eq")
    rr = ctx.sub_rng("reent_eq")
    b3, _ = explore(ctx, rep, [reentrify_case(rr, falsify_eq(rf, gen_eq_case(re_))) for _ in range(ctx.n(250, 6000))], "eq")
    broken = broken or b3
    # family "reent": acyclic graphs that carry values storing results themselves (own streams)
    rr = ctx.sub_rng("reent")
    rf = ctx.sub_rng("falsy_reent")
    b5, _ = explore(ctx, rep, [falsify_case(rf, gen_reent_case(rr)) for _ in range(ctx.n(150, 4000))], "reent")
    broken = broken or b5
    b4, _ = explore(ctx, rep, seq_cases, "seq", obs=seq_obs.result())
    pool.shutdown()
    broken = broken or b4
    unexplained = [f for f in rep.failures if not any(p(f) for name, p in SIGNATURES.items() if name in live)]
    if (broken or any(not o["ok"] for o in rep.obligations)) and not unexplained:
        r2 = ctx.sub_rng("search")
        rf = ctx.sub_rng("falsy_search")
        explore(ctx, rep, [falsify_case(rf, gen_case(r2), .08) for _ in range(ctx.n(8000, 60000))], "search")
    return rep.finish(SIGNATURES, corpus_known)


def replay(ctx, path):
    rec = json.load(open(path))
    c = rec.get("case", rec)
    enc_only = c.get("enc")
    c = {k: v for k, v in c.items() if k not in ("enc", "step", "note", "requires_known")}
    obs = C.run_driver(ctx, "excser_driver", [c], nproc=1)[0]
    print("case:", json.dumps(c))
    if "_crash" in obs:
        print("driver crashed:", obs["_crash"])
        return 1
    seq = c.get("family") == "seq"
    rc = 0
    lits = []
    for pc, so, step in (seq_steps(c, obs) if seq else [(c, obs, None)]):
        judged = pc.get("family") != "shadow" and (not seq or seq_oracle_applies(pc, so))
        if seq:
            st = c["steps"][step]
            print("step %d: environment changes %s, mode %s, then sys.modules has generated module=%s nowhere.mod=%s; "
                  "class names resolve as %s%s" % (step, json.dumps(st.get("ops", [])), st.get("mode", "new"), so["env"]["zoo"],
                                                   so["env"]["nowhere"], [n["resolve"] for n in so["nodes"]],
                                                   "" if judged else " (a class object was replaced since the store: model only)"))
        for enc in ("text", "dict", "pickle"):
            if enc_only and enc != enc_only:
                continue
            print("implementation[%s]:" % enc, json.dumps(so["enc"][enc]))
            bad = oracle(pc, so, enc) if judged else None
            if bad:
                f = dict(sig=sig_of(pc, so, enc, bad[2]))
                known = [k for k, p in SIGNATURES.items() if p(f)]
                print("  statement VIOLATED: %s (%s)%s" % (bad[0], bad[1], (" [known finding %s]" % known[0]) if known else ""))
                rc = 1
            else:
                print("  statement holds" if judged else "  not judged by the oracle")
        lits.append(C.cpair(C.clist([c_node(n) for n in so["nodes"]]), C.cn(0), c_outcome(so["enc"]["text"]),
                            c_outcome(so["enc"]["dict"]), c_outcome(so["enc"]["pickle"])))
    body = ("Eval vm_compute in (map (fun '(g, r, _, _, _) => (roundtrip EText g r, roundtrip EDict g r, roundtrip EPickle g r)) cases).\n"
            + COQ_BODY)
    rcq, out = C.coq_eval_raw(ctx, "replay", COQ_HEADER + "\nDefinition cases := [\n" + ";\n".join(lits) + "\n].\n" + body)
    print("model (text, dict, pickle)%s and differing-case list:" % (" per step" if seq else ""), " ".join(out.split())[-1500:])
    return rc
