"""C01 - every message taken from the broker is executed exactly once."""
import json
import os
import common as C
import recv_props as R

META = dict(
    id="C01",
    design_ref="DESIGN.md section 4, RecvLTS.v and C01; section 5 D1",
    technique="Coq proof (FIFO-conservation invariant of a labelled transition system) + trace acceptance of real "
              "Receiver.listen() runs captured by logging shims under a virtual-time loop + per-message body-entry oracle",
    level_text="Theorems over every configuration (any A, P, N, wait_tasks_timeout) and every event sequence accepted by the receiver "
               "LTS (coq/theories/RecvLTS.v): C01_at_most_once (a callback is spawned at most once per message and only for taken "
               "messages), C01_none_dropped (nothing is ever lost: taken, oldest first = started ++ hand-over queue ++ look-ahead, "
               "in every reachable state - including the look-ahead pending at a stop request or at the max-tasks budget), "
               "C01_all_run_at_return (when prefetcher and runner have returned every taken message was started; with no live "
               "callback every taken message has finished exactly once). The defective pre-2fad6db prefetcher is kept as a model "
               "variant whose refutation (C01_none_dropped_refuted, D1) is the corpus replay. Tied to /repo on every run by trace "
               "acceptance of real listen() runs inside Coq and by the direct oracle on the implementation: exactly one task-function "
               "body entry per valid known-task message taken, none for malformed / unknown-task messages.",
    level_note="Proof is about the model; model = code is trace acceptance on generated schedules (sampled). The callback is opaque "
               "in this model (spawned at ERnGet, ended at ECbEnd): that a spawned callback enters the task function exactly once, "
               "and the effect sequence of a skipped message (C01_skip_isolated), belong to Pipeline.v (C02/C07/C10); here they are "
               "checked by the oracle on the implementation only. A worker with N set that was offered fewer than N messages keeps "
               "listening - not a missing return. A run that is cut while every slot is held by a never-ending task may leave taken "
               "messages queued (no liveness is demanded there). Not exhibited: loss inside a broker's own generator on cancellation "
               "(the scripted broker takes a message only at its yield). Trusted: Coq kernel + vm_compute, shims and raw-log grouping, "
               "virtual-time loop.",
    rule="case = receiver scenario (A, P, N, wait_tasks_timeout, stop instant, stream end, messages valid / malformed / unknown with "
         "arrival, duration, outcome; for ~30 % of the scenarios the wire form of the valid messages is varied the way real producers "
         "write them: sent through the real AsyncKicker with a pre_send middleware stamping labels after typing, labels_types covering "
         "all / some / none of the labels, null, {}, absent, entries for absent labels, the label types of prepare_label, odd / duplicate "
         "task ids, keyword / nested JSON arguments, extra top-level fields, ProxyFormatter+JSON / JSONFormatter / ProxyFormatter+pickle); "
         "for ~25 percent the tasks the messages name are registered late / elsewhere: before the Receiver exists, after it exists, while "
         "listen() runs (between messages), on the worker's broker (decorator / register_task), through async_shared_broker (global "
         "registry, default broker set before / after / never) or on another broker object (unknown to this worker: skipped); "
         "for ~10 percent one task NAME is registered with TWO different functions - a task published through async_shared_broker and "
         "overridden on the worker's broker (shared first / local first; before / after the Receiver exists / while listening), a name "
         "re-registered in one registry, a name also held by another broker object - whose parameter lists differ (injected "
         "TaskiqDepends parameters - TaskiqState, Context, plain / async / generator providers, default or Annotated form - that only "
         "one / both / each has, bare or annotated message parameters, a further optional parameter, a **catch-all; sync vs async): every "
         "message naming it must enter the function find_task designates exactly once (entries of the other one are logged apart);"
         " for ~8 percent 1-2 messages name a task BEFORE it is registered (skipped or run: no claim), the task is then registered while "
         "listen() runs - through async_shared_broker or on the worker's broker - and 1-3 further messages naming it arrive strictly "
         "after the registration: each of those must enter the function exactly once;"
         " Further family (own random stream): the REAL taskiq.api.run_receiver_task coroutine runs for the whole scenario over a scripted listen() that raises 0..3 times (ConnectionError, RuntimeError, TimeoutError, OSError, EOFError, a client's own class, a falsy exception object, an ExceptionGroup, BrokerError) as the first thing a session does / right after taking a message / while tasks are in flight / while idle, the remaining messages going to the re-started listening; N and wait_tasks_timeout set by the receiver class handed to it, stop = the finish event it gave to listen(); decided by the direct oracles only, every listen() session held to the statement by its own messages; "
         "further family: run_receiver_task cancelled by the application that embeds it while sync functions (with durations) wait in a "
         "pool of 1..3 threads (recv_props.gen_live_cancel): a message acknowledged under when_executed / when_saved must have entered its function, un-run un-acknowledged messages are not claimed; "
         "part of the command-line scenarios is run by the real start_listen on the loop it creates; "
         "the event loop's task factory is None unless the application (~6 percent of the scenarios: a plain / Task-subclass factory of "
         "its own) or the code under test sets one - whatever is set on the running loop takes effect (the harness tags tasks apart "
         "from it); further family (recv_props.gen_relisten): ONE Receiver object listens again after listen() failed while every slot "
         "was busy (callbacks of the earlier session still running); "
         "non-trivial iff >= 2 valid messages and (a stop instant, or N, or a malformed / unknown message, "
         "or a backlog > A+P+1); distinct by canonical scenario",
    trusted_base=["model: coq/theories/RecvLTS.v; defective variant coq/findings/FindingsRecv.v",
                  "logging shims + raw log -> LTS event grouping: harness/shims.py; harness/vloop.py"],
    assumptions=["the broker's listen() generator takes a message only at its yield; in the proofs it raises nothing but StopAsyncIteration "
                 "(runs under run_receiver_task with a failing listen() are oracle-checked only: a message that sat in the hand-over "
                 "queue of the session whose listen() raised is outside the statement's quantifier - no claim; one a failed session "
                 "had started is claimed only until run_receiver_task itself has ended)",
                 "a message naming a task that is registered strictly before the message arrives - on the worker's broker or in the "
                 "global registry - is a valid known-task message",
                 "a message that arrives BEFORE the task it names is registered (the registration follows while listen() runs; "
                 "recv_props.decorate_early) is skipped like an unknown-task message or - its callback started only after the "
                 "registration - executed like a valid one: no claim either way (at most one entry); every message naming the task "
                 "that arrives strictly after the registration carries the full claim",
                 "pre_execute hooks that raise are the pipeline's concern (C10): such a message is exempt from 'must enter the body'",
                 "a task name registered with two functions: the function the message's task is = the one AsyncBroker.find_task hands out "
                 "(the worker's own registry first, then the global one; the later registration within one registry). A "
                 "function registered under a name AFTER the Receiver was built with another function visible under that name, the two "
                 "differing in their injected parameters, IS generated (the stale per-name cache of the pinned snapshot, defect D19, is "
                 "repaired in /repo 7e92bc1; regression input corpus/C01/d19_*.json). Not generated: a name re-bound between two messages "
                 "that name it while the first is still executing"],
)
# params_p: task functions with further, annotated message parameters that receive values (recv_props.decorate_params)
# reg_p: when and where the tasks the messages name get registered (recv_props.decorate_reg)
# dup_p: one task name registered with two different functions (recv_props.decorate_dup); dup_stale_any: also pairs whose
# injected parameters differ while the Receiver was built before the designated function was registered - the stale per-name
# cache of the pinned snapshot (defect D19) is repaired in /repo 7e92bc1
# early_p: 1-2 messages name a task BEFORE it is registered (no claim about them), the task is registered while listen() runs, later
# messages naming it carry the full claim (recv_props.decorate_early)
PROF = dict(stop_p=.4, n_p=.35, ends_p=.2, wtt_p=.25, never=.03, wire_p=.3, reg_p=.25, dup_p=.1, dup_stale_any=True, params_p=.12, early_p=.08)
PROF_BACKLOG = dict(backlog=True, stop_p=.3, n_p=.5, ends_p=.1, wtt_p=.2, wire_p=.3, reg_p=.15, dup_p=.1, dup_stale_any=True, params_p=.12,
                    early_p=.08)
# run_receiver_task running for the whole scenario over a listen() that fails 0..3 times (recv_props.gen_live)
PROF_LIVE = dict(stop_p=.4, n_p=.3, ends_p=.15, wtt_p=.2, wire_p=.2, reg_p=.3, dup_p=.1, dup_stale_any=True, params_p=.12, early_p=.08)
# run_receiver_task cancelled by the application that embeds it while sync functions wait in a small pool (recv_props.gen_live_cancel)
PROF_CANCEL = dict(stop_p=.12, n_p=.08, ends_p=.1, wtt_p=.08, slowcancel=.05, aw_p=.12, outage_p=.05, wire_p=.1)

# one Receiver object that listens again after listen() failed while every slot was busy (recv_props.gen_relisten, mode fault only)
PROF_RELISTEN = dict(wire_p=.2, reg_p=.1, relisten_stop_p=0, relisten_any_p=.1, dup_p=.1, dup_stale_any=True, params_p=.1)


def oracle(sc, obs):
    out = []
    f = R.Facts(sc, obs)
    msgs = sc["msgs"]
    taken = [i for _, i in f.takes]
    if len(set(taken)) != len(taken):
        out.append(dict(what="harness: a message was yielded twice", observed=taken, expected="scripted broker yields each once", sig={}))
    # never two; none for malformed / unknown-task messages (whole log, including the second after the return)
    for i, m in enumerate(msgs):
        n = len(f.bodyin.get(i, []))
        # (a task name registered with two functions, recv_props.decorate_dup: `body.in` is the entry of the function find_task
        # designates, `shadow.in` that of the other one - one message, two function runs is "twice" whichever functions ran)
        n2 = n + len(f.shadowin.get(i, []))
        if n2 > 1:
            out.append(dict(what="task function entered more than once for one message",
                            observed=dict(msg=i, entries=n2, of_the_designated_function=n), expected=1, sig=dict(kind="dup")))
        n = n2
        if n and (m["kind"] != "ok" or i not in f.take_t):
            out.append(dict(what="task function entered for a malformed / unknown-task / never-taken message",
                            observed=dict(msg=i, kind=m["kind"], entries=n), expected=0, sig=dict(kind="spurious")))
    # a skipped message is processed and ended like any other, touches nothing (no hook, body, save, ack)
    for i in taken:
        if msgs[i]["kind"] != "ok":
            ev = [e[1] for e in f.raw if e[2] == i and e[1] in ("hook.pre", "hook.post", "body.in", "save", "ack")]
            if ev:
                out.append(dict(what="a malformed / unknown-task message was not simply skipped", observed=dict(msg=i, events=ev),
                                expected="no hook / body / save / ack", sig=dict(kind="skip")))
    # never zero
    must = [i for i in taken if f.must_run(i)]
    missing = [i for i in must if not f.bodyin.get(i)]
    if f.live:
        # run_receiver_task over a listen() that fails: the statement quantifies over arrival timings, configurations and stop
        # instants - not over failures of the broker's stream.  A message that sat in the hand-over queue of the session whose
        # listen() raised was dropped together with that session (never handed to a callback): no claim.  A message a failed
        # session did start is not waited for by the session that replaced it: no claim while its callback has not ended.
        # (nor once run_receiver_task itself has ended: it shuts the pool that runs sync functions down on its way out)
        tags = [e[1] for e in f.raw]
        wend = min([tags.index(t) for t in ("RETURN", "WORKER.END") if t in tags] + [len(tags)])
        over = {e[2] for e in f.raw[:wend] if e[1] == "cb.end"}
        missing = [i for i in missing if i not in f.dropped and (f.final(i) or i in over or not f.cbstart.get(i))]
    if f.cancel_t is not None:
        # the application that embeds the receiver CANCELLED the run_receiver_task task (recv_props.gen_live_cancel): not a
        # graceful stop - what the worker had taken and not yet run stays un-run and, not being acknowledged, goes back to the
        # broker: no claim.  "Never zero (silently dropped)" is still claimed for a message that WAS acknowledged under an
        # acknowledge type that promises the function has run by then (when_executed / when_saved): acknowledged and never run
        # = silently dropped.  (when_received acknowledges first: a cancellation between the two is the price of that type.)
        if (sc.get("ack_type") or "when_saved") != "when_received":
            silently = [i for i in missing if f.acks.get(i) and not msgs[i].get("tlabel_us")]
            for i in silently:       # (one failure per message: each carries the signature elements of known finding D16)
                out.append(dict(what="the worker task was cancelled; a valid message taken from the broker was acknowledged although "
                                     "its task function never ran (silently dropped)",
                                observed=dict(never_run_but_acknowledged=i, cancelled_at_us=f.cancel_t, ack_calls_at_us=f.acks[i],
                                              result_error=f.err.get(i)),
                                expected="a message that is acknowledged (when_executed / when_saved) has entered its task function once",
                                sig=dict(kind="acked-never-run", d16=R.d16_facts(sc, f, i, f.acks[i][0]))))
        missing = []
    if f.same_rcv and (f.limit_only or f.slot_lost):
        # ONE Receiver object listening again (recv_props.gen_relisten) after a session of it ended while its runner held a slot it
        # had given to no callback: that slot is gone by construction of runner(), a message the next session takes may wait for
        # ever - not claimed (such a second listen() is not promised the full capacity)
        missing = []
    older = [i for i in missing if not f.final(i)]
    if older:
        out.append(dict(what="a valid message taken from the broker and handed to a callback before listen() failed never entered "
                             "its task function", observed=dict(taken=taken, never_run=older, sessions={str(i): f.session_of(i) for i in older}),
                        expected="exactly one body entry per valid taken message", sig=dict(kind="lost-before-fault")))
    missing = [i for i in missing if f.final(i)]
    if f.returned:
        if sc.get("wtt_us") is not None:
            # wait_tasks_timeout: listen() may return while callbacks are still running; such a message (here: still inside a
            # slow pre_execute hook at the return) was abandoned by configuration, like one abandoned inside its body - not dropped
            missing = [i for i in missing if not (f.cbstart.get(i) and not any(t <= f.ret_t for t in f.cbend.get(i, [])))]
        if missing:
            out.append(dict(what="listen() returned although a valid message taken from the broker never entered its task function",
                            observed=dict(taken=taken, never_run=missing), expected="exactly one body entry per valid taken message",
                            sig=dict(kind="lost", N=sc["N"])))
    else:
        # cut at the horizon (far beyond every finite duration): messages may stay queued only while every slot is held
        A = sc["A"] if R.limited(sc) else None
        # (slots of the session that is listening at the cut; one Receiver object over several sessions: they share the slots)
        held = len([i for i in f.processing_at_end() if f.final(i) or f.same_rcv])
        if missing and (A is None or held < A):
            out.append(dict(what="a valid message taken from the broker never entered its task function although a slot is free",
                            observed=dict(taken=taken, never_run=missing, processing_at_cut=held), expected="exactly one body entry",
                            sig=dict(kind="stuck")))
    return out


def nontrivial(sc):
    ms = sc["msgs"]
    if sum(1 for m in ms if m["kind"] == "ok") < 2:
        return False
    a = sc["A"] if R.limited(sc) else None
    return (sc["stop_us"] is not None or bool(sc["N"]) or any(m["kind"] != "ok" for m in ms)
            or (a is not None and len(ms) > a + sc["P"] + 1))


def explore(ctx, rep, scs, label):
    obss = C.run_driver(ctx, "recv_driver", scs)
    nfail = 0
    for sc, o in zip(scs, obss):
        rep.case(sc, nontrivial(sc))
        if "_crash" in o:
            rep.fail("driver crashed", sc, observed=o["_crash"])
            continue
        for f in oracle(sc, o):
            nfail += 1
            rep.fail(f["what"], sc, observed=f["observed"], expected=f["expected"], sig=f["sig"])
        rep.count("returned" if o["returned"] else "cut")
        R.count_inputs(rep, sc)
        R.count_early(rep, sc, o)
        rep.count("N=%s" % ("set" if sc["N"] else None))
        rep.count("stop=%s" % ("set" if sc["stop_us"] is not None else None))
        for m in sc["msgs"]:
            rep.count("kind:" + m["kind"])
    bad, fails = R.acceptance(ctx, rep, label, scs, obss, "C01_check")
    return bad or fails or nfail


def run(ctx):
    rep = C.Report(ctx, META)
    rep.add_obligations(C.proof_obligations("C01"))
    corp = C.load_corpus("C01")
    bad = explore(ctx, rep, [c for n, c in corp if n.startswith("d1_")], "corpus")
    rep.extra["corpus_d1_lookahead_after_budget"] = "passes (repaired)" if not bad else "FAILS: D1 is back"
    rest = [c for n, c in corp if n.startswith("valid_messages_")]
    if rest:
        bad = explore(ctx, rep, rest, "corpus:wire-forms")
        rep.extra["corpus_valid_messages_wire_forms"] = "every valid message ran exactly once" if not bad else "FAILS"
    rest = [c for n, c in corp if not n.startswith("d1_") and not n.startswith("valid_messages_")]
    if rest:
        bad = explore(ctx, rep, rest, "corpus:registration-and-life-cycle")
        rep.extra["corpus_late_shared_registration_and_listen_faults"] = "every valid message ran exactly once" if not bad else "FAILS"
    r = ctx.sub_rng("gen")
    scs = [R.gen_scenario(r, PROF if i % 3 else PROF_BACKLOG) for i in range(ctx.n(450, 30000))]
    r4 = ctx.sub_rng("gen-live")             # own stream: the scenarios above are what they were
    scs += [R.gen_live(r4, PROF_LIVE) for _ in range(ctx.n(60, 4000))]
    r5 = ctx.sub_rng("gen-cancel")           # own stream
    # known finding D16 (sync function submitted after the pool was shut down by the cancellation) is registered per property: while
    # known_findings.json has no `known` entry with that signature for C01, this family is generated without its neighbourhood
    # (sync-function messages reach the pool without suspending); with an entry the neighbourhood is explored and exactly that shape
    # is the known finding (R.sig_d16), anything else a violation
    d16_reg = R.d16_registered("C01")
    rep.extra["known_finding_D16_registered_for_C01"] = d16_reg
    scs += [R.gen_live_cancel(r5, dict(PROF_CANCEL, presubmit_restricted=not d16_reg)) for _ in range(ctx.n(40, 2000))]
    r6 = ctx.sub_rng("gen-relisten")         # own stream: ONE Receiver object over several listen() sessions (it listens again
    scs += [R.gen_relisten(r6, PROF_RELISTEN) for _ in range(ctx.n(30, 1500))]      # after listen() failed with every slot busy)
    broken = explore(ctx, rep, scs, "main")
    if not ctx.quick:
        broken = explore(ctx, rep, R.grid_scenarios(), "grid") or broken
        rep.extra["small_scope_grid"] = "A<=3 x P<=2 x N in {None,1,2,3} x 13 stop instants x 4 five-message patterns"
    if (broken or any(not o["ok"] for o in rep.obligations)) and not rep.failures:
        r2 = ctx.sub_rng("search")
        explore(ctx, rep, [R.gen_scenario(r2, PROF_BACKLOG) for _ in range(ctx.n(2000, 20000))], "search")
    d16 = known_d16(ctx, rep) if d16_reg else False
    rep.extra["known_finding_D16_hits_this_run"] = sum(1 for f in rep.failures if R.sig_d16(f))
    return rep.finish({R.SIG_D16: R.sig_d16}, {R.SIG_D16: d16})


def known_d16(ctx, rep):
    """known finding D16 as registered for C01 (known_findings.json; same input as for C02): its replay under corpus/C02/known runs
    on every check through the driver and this property's direct oracle, so that the KNOWN-FINDING line does not depend on the
    generated cancellation family reaching the shape within the quick budget.  True iff it reproduced WITH its signature."""
    d = os.path.join(C.VERIF, "corpus", "C02", "known")
    files = sorted(f for f in os.listdir(d) if f.startswith("d16_") and f.endswith(".json")) if os.path.isdir(d) else []
    cases = []
    for f in files:
        rec = json.load(open(os.path.join(d, f)))
        cases.append(rec["case"] if "case" in rec else rec)
    hit = False
    for f, sc, o in zip(files, cases, C.run_driver(ctx, "recv_driver", cases) if cases else []):
        rep.case(sc, True)
        rep.count("known-finding-replay:" + f[:-5])
        if "_crash" in o:
            rep.fail("driver crashed", sc, observed=o["_crash"], sig=dict(kind="crash"))
            continue
        for fl in oracle(sc, o):
            hit = hit or R.sig_d16(fl)
            rep.fail(fl["what"], sc, observed=fl["observed"], expected=fl["expected"], sig=fl["sig"])
    rep.extra["corpus_d16_sync_function_submitted_after_pool_shutdown"] = \
        "reproduces (known finding)" if hit else "does NOT reproduce on this tree: the known_findings.json entry is stale"
    if files and not hit:
        print("NOTE: property=C01 known finding %s no longer reproduces from corpus/C02/known - its known_findings.json entry is stale" % R.SIG_D16)
    return hit


def replay(ctx, path):
    return R.replay_print(ctx, path, oracle, "C01_check")
