"""pygal unit "labels_send" (property C09): the send side of the label path -
  taskiq/context.py  Context.requeue          the whole `async def` (monadic backend, pygal_m.py): bump the requeue counter
                                              in the received message's own label dict, re-prepare every label, build the
                                              new message, kick it, raise NoResultError;
  taskiq/kicker.py   AsyncKicker._prepare_message   ONLY ITS LABEL LOOP, as a slice: `labels = {}`, `labels_types = {}`,
                                              `for label, label_val in self.labels.items(): labels[label],
                                              labels_types[label] = prepare_label(label_val)` - the rest of the method
                                              (argument formatting, task id) is not translated, see slice_of();
  taskiq/labels.py   LabelType, prepare_label   translated again into this unit's own module (so that the unit does not
                                              depend on the unit "labels" being inside the subset on the same run).
Primitives: coq/theories/PyPreludeLabels.v (parts "send side").  Proofs: coq/srcproofs/Src_labels_send_C09.v.

Trusted: pygal.py, pygal_m.py, pygal_labels.py, this file (tables, slice_of's side conditions), PyPreludeLabels.v, PyStm.v."""
import ast
import hashlib
import os

import pygal
import pygal_m
import pygal_labels as PL
from pygal import INT, NONE, Ext, Opt, Ty, Unsupported, _bad, path_of, tr_expr  # noqa: F401
from pygal_labels import KEY, LABELS, LVAL, PREPARED, PSTR, TMSG, TYPES

WLABELS = Ty("wlabels", g="dict pstr")            # the new message's labels: wire strings
KSELF = Ty("kself", g="dict lval")                # the kicker, as far as the slice looks at it: its labels
RCTX = Ty("rctx", g="tmsg")                       # the Context, as far as requeue looks at it: its message
OPQ = {a: Ty("opq_" + a, g="unit") for a in ("task_id", "task_name", "args", "kwargs")}     # copied, not looked at
BROKER = Ty("qbroker", g="unit")
FORMATTER = Ty("qformatter", g="unit")
OUTMSG = Ty("outmsg", g="wire")                   # the TaskiqMessage that is sent: its labels / labels_types
ITEM = Ty("pair", g="(key * lval)", fst=KEY, snd=LVAL)
KEYS = {"_retries": "K_RETRIES", "max_retries": "K_MAXR", "retry_on_error": "K_ROE", "X-Taskiq-requeue": "K_REQUEUE",
        "timeout": "K_TIMEOUT"}                   # Labels.v's identifiers of the keys taskiq itself interprets


def key_of(fn, node, env):
    if isinstance(node, ast.Constant) and isinstance(node.value, str):
        if node.value not in KEYS:
            _bad("label key %r" % node.value, node)
        return KEYS[node.value]
    g, t = pygal_m.pure(fn, node, env)
    if t != KEY:
        _bad("a label key of type %r" % t, node)
    return g


def make_ext(lift_opt, effects):
    """lift_opt: the prelude's name of `a call that returns or raises` in the unit's monad; effects: Context.requeue
    (in-place updates of the received message and the kick are observable) vs. the effect-free kicker slice"""

    def m_get(fn, node, g, t, env):
        if node.keywords or not 1 <= len(node.args) <= 2:
            _bad("arguments of labels.get", node)
        k = key_of(fn, node.args[0], env)
        if len(node.args) == 1:
            return "(dict_get %s %s)" % (k, g), Opt(LVAL)
        d, td = tr_expr(fn, node.args[1], env)
        d = {"int": "(LInt %s)" % d, "lval": d, "pstr": "(LStr %s)" % d}.get(td.kind)
        if d is None:
            _bad("default of labels.get of type %r" % td, node)
        return "(dict_get_default %s %s %s)" % (k, d, g), LVAL

    def c_str(fn, node, env):
        g, t = tr_expr(fn, PL._one_arg(node, "str()"), env)
        if t == INT:
            return "(str_of_Z %s)" % g, PSTR
        if t == LVAL:
            return "(py_str W %s)" % g, PSTR
        if t == PSTR:
            return g, PSTR
        _bad("str(%r)" % t, node)

    def c_message(fn, node, env):
        """TaskiqMessage(task_id=M.task_id, task_name=M.task_name, labels=.., labels_types=.., args=M.args, kwargs=M.kwargs)"""
        if node.args or sorted(k.arg or "**" for k in node.keywords) != sorted(list(OPQ) + ["labels", "labels_types"]):
            _bad("arguments of TaskiqMessage(...)", node)
        kw = {k.arg: tr_expr(fn, k.value, env) for k in node.keywords}
        for a in OPQ:
            if kw[a][1] != OPQ[a]:
                _bad("TaskiqMessage(%s=...) is not the received message's %s" % (a, a), node)
        if kw["labels"][1] != WLABELS or kw["labels_types"][1] != TYPES:
            _bad("TaskiqMessage(labels=%r, labels_types=%r)" % (kw["labels"][1], kw["labels_types"][1]), node)
        return "(new_message %s %s)" % (kw["labels"][0], kw["labels_types"][0]), OUTMSG

    def labels_target(fn, node, env):
        """<path>.labels[k] with <path> a local or an attribute path below a local, of type tmsg -> (base local, text of
        the message, text of k) | None"""
        if not (isinstance(node, ast.Subscript) and isinstance(node.value, ast.Attribute) and node.value.attr == "labels"):
            return None
        base = node.value.value
        while isinstance(base, ast.Attribute):
            base = base.value
        if not isinstance(base, ast.Name) or base.id not in env:
            return None
        g, t = pygal_m.pure(fn, node.value.value, env)
        if t != TMSG or env[base.id][0] != g:          # the path is the base object itself, seen through attributes
            return None
        return base.id, g, key_of(fn, node.slice, env)

    def prim(fn, node, env):
        if isinstance(node, ast.Call) and path_of(node.func) == "int" and "int" not in env:
            g, t = pygal_m.pure(fn, PL._one_arg(node, "int()"), env)
            if t != LVAL:
                _bad("int(%r)" % t, node)
            return "(%s (py_int %s))" % (lift_opt, g), INT, None
        if isinstance(node, ast.Call) and path_of(node.func) == "prepare_label" and "prepare_label" not in env:
            g, t = pygal_m.pure(fn, PL._one_arg(node, "prepare_label()"), env)
            if t != LVAL:
                _bad("prepare_label(%r)" % t, node)
            return "(%s (prepare_label_py W %s))" % (lift_opt, g), PREPARED, None
        if effects and isinstance(node, ast.Await):
            c = node.value
            ok = isinstance(c, ast.Call) and isinstance(c.func, ast.Attribute) and c.func.attr == "kick" and not c.keywords \
                and len(c.args) == 1 and isinstance(c.args[0], ast.Call) and isinstance(c.args[0].func, ast.Attribute) \
                and c.args[0].func.attr == "dumps" and not c.args[0].keywords and len(c.args[0].args) == 1
            if not ok:
                _bad("await of %s (only broker.kick(formatter.dumps(message)) is read)" % ast.unparse(c)[:50], node)
            (_, tb), (_, tf) = pygal_m.pure(fn, c.func.value, env), pygal_m.pure(fn, c.args[0].func.value, env)
            m, tm = pygal_m.pure(fn, c.args[0].args[0], env)
            if tb != BROKER or tf != FORMATTER or tm != OUTMSG:
                _bad("kick / dumps on %r / %r of %r" % (tb, tf, tm), node)
            return "(q_kick %s)" % m, NONE, None
        return None

    def mutates_target(s):
        out = set()
        for t in (s.targets[0].elts if len(s.targets) == 1 and isinstance(s.targets[0], ast.Tuple) else s.targets):
            if isinstance(t, ast.Subscript):
                b = t.value
                while isinstance(b, ast.Attribute):
                    b = b.value
                if isinstance(b, ast.Name):
                    out.add(b.id)
        return out

    def stmt_m(fn, s, env, cont):
        if not isinstance(s, ast.Assign) or len(s.targets) != 1:
            return None
        tg = s.targets[0]
        # X = {}   (its type is fixed by the tuple assignment that fills it: see dict_types)
        if isinstance(tg, ast.Name) and isinstance(s.value, ast.Dict) and not s.value.keys:
            t = fn.spec["dict_types"].get(tg.id)
            if t is None:
                _bad("an empty dict %s that is not filled by `a[k], b[k] = prepare_label(v)`" % tg.id, s)
            v = fn.fresh(tg.id)
            return "let %s : %s := [] in\n%s" % (v, pygal.gty(t), cont(pygal_m.rebind(env, tg.id, v, t)))
        # A[k], B[k'] = prepare_label(v): the call, then the two stores, left to right
        if isinstance(tg, ast.Tuple):
            ok = len(tg.elts) == 2 and all(isinstance(e, ast.Subscript) and isinstance(e.value, ast.Name) for e in tg.elts) \
                and tg.elts[0].value.id != tg.elts[1].value.id
            if not ok:
                _bad("tuple assignment other than `a[k], b[k] = prepare_label(v)`", s)
            r = prim(fn, s.value, env)
            if r is None or r[1] != PREPARED:
                _bad("tuple assignment from something other than prepare_label(..)", s)
            names = [e.value.id for e in tg.elts]
            for n, want in zip(names, (WLABELS, TYPES)):
                if n not in env or env[n][1] != want:
                    _bad("%s is not a local dict of type %r" % (n, want), s)
            ks = [key_of(fn, e.slice, env) for e in tg.elts]
            p = fn.fresh("prepared")
            v1, v2 = fn.fresh(names[0]), fn.fresh(names[1])
            e2 = pygal_m.rebind(pygal_m.rebind(env, names[0], v1, WLABELS), names[1], v2, TYPES)
            return "%s <~ lift %s ;;\nlet %s := (dict_setitem %s %s (fst %s)) in\nlet %s := (dict_setitem %s %s (snd %s)) in\n%s" % (
                p, r[0], v1, env[names[0]][0], ks[0], p, v2, env[names[1]][0], ks[1], p, cont(e2))
        # <message>.labels[k] = <str / label value>: the received message's own dict is updated in place
        if isinstance(tg, ast.Subscript):
            it = labels_target(fn, tg, env) if effects else None
            if it is None:
                _bad("assignment to %s" % ast.unparse(tg)[:40], s)
            x, gx, k = it
            g, t = pygal_m.pure(fn, s.value, env)
            g = {"pstr": "(LStr %s)" % g, "lval": g, "int": "(LInt %s)" % g}.get(t.kind)
            if g is None:
                _bad("a value of type %r is stored into labels" % t, s)
            nx = fn.fresh(x)
            return "%s <~ lift (q_setitem_labels %s %s %s) ;;\n%s" % (nx, gx, k, g, cont(pygal_m.rebind(env, x, nx, env[x][1])))
        return None

    def exc_new(fn, node, env):
        if isinstance(node, ast.Call) and not node.args and not node.keywords:
            node = node.func
        return "XNoResult" if effects and path_of(node) == "NoResultError" and "NoResultError" not in env else None

    attrs = {("kself", "labels"): ("%s", LABELS), ("rctx", "message"): ("%s", TMSG), ("rctx", "broker"): ("(not_read %s)", BROKER),
             ("qbroker", "formatter"): ("(not_read %s)", FORMATTER), ("tmsg", "labels"): ("(tm_labels %s)", LABELS)}
    for a, t in OPQ.items():
        attrs[("tmsg", a)] = ("(not_read %s)", t)
    return Ext(calls={"str": c_str, "TaskiqMessage": c_message},
               methods={("labels", "get"): m_get,
                        ("labels", "items"): PL._no_args(lambda g: ("(dict_items %s)" % g, pygal_m.List(ITEM)))},
               attrs=attrs, truthy={"lval": "(py_truthy W %s)"}, prim=prim, mutates=lambda s: set(),
               mutates_target=mutates_target, stmt_m=stmt_m, exc_new=exc_new, exc_type=Ty("exc", g="qexc"), isinst=PL.isinst,
               except_classes={"Exception": None})


def dict_types(stmts):
    """{local name: Ty} for the dicts filled by `a[k], b[k'] = prepare_label(v)` (a: wire strings, b: type numbers)"""
    out = {}
    for s in stmts:
        for x in ast.walk(s):
            if isinstance(x, ast.Assign) and len(x.targets) == 1 and isinstance(x.targets[0], ast.Tuple) \
                    and len(x.targets[0].elts) == 2 and all(isinstance(e, ast.Subscript) and isinstance(e.value, ast.Name)
                                                            for e in x.targets[0].elts) \
                    and isinstance(x.value, ast.Call) and path_of(x.value.func) == "prepare_label":
                for e, t in zip(x.targets[0].elts, (WLABELS, TYPES)):
                    if out.setdefault(e.value.id, t) != t:
                        _bad("%s is filled both with strings and with type numbers" % e.value.id, x)
    return out


def _method(tree, qual, fname):
    cname, mname = qual.split(".")
    cs = [c for c in tree.body if isinstance(c, ast.ClassDef) and c.name == cname]
    ms = [m for c in cs for m in c.body if isinstance(m, (ast.FunctionDef, ast.AsyncFunctionDef)) and m.name == mname]
    if len(cs) != 1 or len(ms) != 1:
        raise Unsupported("method %s not found (exactly once) in %s" % (qual, fname))
    return ms[0]


def _imports_prepare_label(tree, fname):
    imp = PL._bindings_anywhere(tree, "prepare_label")
    if len(imp) != 1 or imp[0] not in tree.body or not (
            isinstance(imp[0], ast.ImportFrom) and imp[0].module == "taskiq.labels" and imp[0].level == 0
            and any(a.name == "prepare_label" and a.asname is None for a in imp[0].names)):
        _bad("%s does not bind prepare_label by `from taskiq.labels import prepare_label` (exactly once)" % fname)


def _plain(nd, params, is_async):
    a = nd.args
    if nd.decorator_list or isinstance(nd, ast.AsyncFunctionDef) != is_async or a.kwonlyargs or a.posonlyargs or a.defaults \
            or a.kw_defaults or [x.arg for x in a.args] != params:
        _bad("signature of %s" % nd.name, nd)
    for x in ast.walk(nd):
        if x is not nd and isinstance(x, (ast.FunctionDef, ast.AsyncFunctionDef, ast.Lambda, ast.ClassDef, ast.Global,
                                          ast.Nonlocal, ast.Yield, ast.YieldFrom, ast.NamedExpr)):
            _bad("%s inside %s" % (type(x).__name__, nd.name), x)
        if isinstance(x, ast.Name) and isinstance(x.ctx, (ast.Store, ast.Del)) and x.id in ("self", "prepare_label", "int", "str",
                                                                                     "TaskiqMessage", "NoResultError"):
            _bad("%s re-binds %s" % (nd.name, x.id), x)


def tr_requeue(unit, nd, gname):
    _plain(nd, ["self"], True)
    if nd.args.vararg or nd.args.kwarg:
        _bad("signature of %s" % nd.name, nd)
    fn = pygal.Fn(unit, dict(dict_types=dict_types(nd.body)))
    body = pygal_m.tr_block(fn, nd.body, {"self": ("self", RCTX)}, lambda e: "next tt", set())
    return "Definition %s (self : tmsg) : QM unit :=\nrun_fn (\n%s)." % (gname, pygal_m.indent(body))


def slice_of(nd):
    """AsyncKicker._prepare_message's label loop.  The two dict locals a, b are the ones filled by `a[k], b[k'] =
    prepare_label(v)` (dict_types).  The top-level statements of the method that mention a or b must be exactly `a = {}`,
    `b = {}` and ONE for loop (in this order); the method's last statement must be `return TaskiqMessage(.., labels=<e1>,
    labels_types=<e2>, ..)` and mention a, b only inside e1 / e2 - the slice's value is (e1, e2), translated after the loop.
    Side conditions (syntactic): nothing else in the method stores to an attribute / item of `self` or mentions `.labels`
    / `.with_labels`; the calls in the rest of the method (self._prepare_arg, self.broker.id_generator) are ASSUMED not to
    touch self.labels.  -> (the three statements, (a, b), (e1, e2))"""
    if not isinstance(nd.body[-1], ast.Return) or not isinstance(nd.body[-1].value, ast.Call) \
            or path_of(nd.body[-1].value.func) != "TaskiqMessage" or nd.body[-1].value.args:
        _bad("%s does not end in `return TaskiqMessage(keyword arguments)`" % nd.name, nd.body[-1])
    kw = {k.arg: k.value for k in nd.body[-1].value.keywords}
    if "labels" not in kw or "labels_types" not in kw or None in kw:
        _bad("TaskiqMessage(...) without labels= / labels_types=", nd.body[-1])
    dt = dict_types(nd.body)
    if sorted(t.kind for t in dt.values()) != ["types", "wlabels"]:
        _bad("%s does not fill exactly one dict of strings and one of type numbers by `a[k], b[k] = prepare_label(v)`" % nd.name, nd)
    a = [n for n, t in dt.items() if t == WLABELS][0]
    b = [n for n, t in dt.items() if t == TYPES][0]
    mention = [s for s in nd.body[:-1] if any(isinstance(x, ast.Name) and x.id in (a, b) for x in ast.walk(s))]
    inside = {id(x) for v in (kw["labels"], kw["labels_types"]) for x in ast.walk(v)}
    for x in ast.walk(nd.body[-1]):
        if isinstance(x, ast.Name) and x.id in (a, b) and id(x) not in inside:
            _bad("the return statement mentions %s outside labels= / labels_types=" % x.id, nd.body[-1])
    ok = len(mention) == 3 and all(isinstance(s, ast.Assign) and len(s.targets) == 1 and isinstance(s.targets[0], ast.Name)
                                   and isinstance(s.value, ast.Dict) and not s.value.keys for s in mention[:2]) \
        and {mention[0].targets[0].id, mention[1].targets[0].id} == {a, b} and isinstance(mention[2], ast.For)
    if not ok:
        _bad("the statements of %s that mention %s / %s are not `%s = {}`, `%s = {}`, one for loop" % (nd.name, a, b, a, b), nd)
    for s in nd.body:
        if s in mention:
            continue
        for x in ast.walk(s):
            if isinstance(x, (ast.Attribute, ast.Subscript)) and isinstance(x.ctx, (ast.Store, ast.Del)):
                base = x
                while isinstance(base, (ast.Attribute, ast.Subscript)):
                    base = base.value
                if isinstance(base, ast.Name) and base.id == "self":
                    _bad("%s stores into self outside the label loop" % nd.name, x)
            if isinstance(x, ast.Attribute) and x.attr in ("with_labels", "labels") and not (s is nd.body[-1]):
                _bad("%s mentions .%s outside the label loop" % (nd.name, x.attr), x)
    return mention, (a, b), (kw["labels"], kw["labels_types"])


def tr_slice(unit, nd, gname):
    _plain(nd, ["self"], False)
    stmts, (a, b), (e_labels, e_types) = slice_of(nd)
    fn = pygal.Fn(unit, dict(dict_types={a: WLABELS, b: TYPES}))

    def result(e):
        """what `return TaskiqMessage(labels=<e1>, labels_types=<e2>, ..)` hands on: (e1, e2), e2 Optional"""
        (g1, t1), (g2, t2) = pygal_m.pure(fn, e_labels, e), pygal_m.pure(fn, e_types, e)
        g2 = {"types": "(Some %s)" % g2, "none": "None"}.get(t2.kind)
        if t1 != WLABELS or g2 is None:
            _bad("TaskiqMessage(labels=%r, labels_types=%r)" % (t1, t2), nd.body[-1])
        return "return_v (%s, %s)" % (g1, g2)
    body = pygal_m.tr_block(fn, stmts, {"self": ("self", KSELF)}, result, {a, b})
    return "Definition %s (self : dict lval) : LM (dict pstr * option (dict N)) :=\nrun_fn_ret (\n%s)." % (
        gname, pygal_m.indent(body))


def translate(repo, spec):
    texts, trees = {}, {}
    for f in spec["files"]:
        texts[f] = open(os.path.join(repo, f)).read()
        trees[f] = ast.parse(texts[f])
    sha = hashlib.sha256("\0".join(texts[f] for f in sorted(texts)).encode()).hexdigest()
    info = dict(file=" + ".join(spec["files"]), sha256=sha, functions={})
    f_labels, f_ctx, f_kicker = spec["files"]
    unit = pygal.Unit()
    unit.ext = PL.EXT
    pygal._CUR["ext"] = unit.ext
    out1 = PL.labels_module(unit, trees[f_labels], f_labels, spec["functions"][:1], info, False, ["parse_label"])
    out2 = []
    # ---- the kicker's label loop (no effects: LM)
    unit.ext = make_ext("lift_opt", False)
    pygal._CUR["ext"] = unit.ext
    _imports_prepare_label(trees[f_kicker], f_kicker)
    nd = _method(trees[f_kicker], spec["slice"]["name"], f_kicker)
    out2.append("(* %s, lines %d-%d: the label loop of %s *)\n%s" % (f_kicker, nd.lineno, nd.end_lineno, spec["slice"]["name"],
                                                                tr_slice(unit, nd, spec["slice"]["gname"])))
    info["functions"][spec["slice"]["name"]] = dict(lines=[nd.lineno, nd.end_lineno])
    # ---- Context.requeue (effects: QM)
    unit.ext = make_ext("qlift_opt", True)
    pygal._CUR["ext"] = unit.ext
    _imports_prepare_label(trees[f_ctx], f_ctx)
    nd = _method(trees[f_ctx], spec["method"]["name"], f_ctx)
    out2.append("(* %s, lines %d-%d *)\n%s" % (f_ctx, nd.lineno, nd.end_lineno, tr_requeue(unit, nd, spec["method"]["gname"])))
    info["functions"][spec["method"]["name"]] = dict(lines=[nd.lineno, nd.end_lineno])
    head = "(* GENERATED on every run by harness/pygal_labels_send.py from %s (sha256 %s) - do not edit *)\n" % (
        ", ".join(spec["files"]), sha[:16])
    head += ("From Coq Require Import ZArith NArith Bool String List.\nFrom Coq.Strings Require Import Byte.\n"
             "Import ListNotations.\nFrom TQ Require Import %s.\nOpen Scope string_scope.\nOpen Scope N_scope.\n" % " ".join(spec["imports"]))
    return (head + "\nSection Gen.\nVariable W : pyworld.\n\n" + "\n\n".join(out1) + "\n\nEnd Gen.\n"
            "\nSection GenSend.\nVariable W : pyworld.\nLocal Open Scope Z_scope.\n\n" + "\n\n".join(out2) + "\n\nEnd GenSend.\n"), info


SPEC = dict(
    file="taskiq/{labels,context,kicker}.py", files=["taskiq/labels.py", "taskiq/context.py", "taskiq/kicker.py"], module="Gen_labels_send",
    translate=translate, proofs={"C09": "Src_labels_send_C09"}, imports=["Base64", "Labels", "PyStm", "PyPreludeLabels"],
    ext=None,
    functions=[dict(name="prepare_label", gname="prepare_label_py", params=[("label_value", LVAL)], ret=Opt(PREPARED)),
               dict(name="AsyncKicker._prepare_message(label loop)"), dict(name="Context.requeue")],   # [1:] only name the unit
    slice=dict(name="AsyncKicker._prepare_message", gname="prepare_message_labels_py"),
    method=dict(name="Context.requeue", gname="requeue_py"))
