"""Regenerates /verif/MANIFEST.json from the META of every harness/props/Cxx.py (./check --manifest)."""
import importlib
import json
import os

import common as C

BASELINE_CMD = ("cd /repo && /venv/bin/python -m pytest -ra -q -p no:cacheprovider --timeout=900 "
                "--continue-on-collection-errors")
NOT_BUILT = "check not built yet in this revision (DESIGN.md section 10 gives the build order); no claim is made"


def write():
    ids = [json.loads(l)["id"] for l in open(os.path.join(C.VERIF, "properties.jsonl"))]
    checks, na = [], []
    for pid in ids:
        if not os.path.exists(os.path.join(C.VERIF, "harness", "props", pid + ".py")):
            na.append(dict(property_id=pid, reason=NOT_BUILT))
            continue
        m = importlib.import_module("props." + pid).META
        if m.get("not_applicable"):
            na.append(dict(property_id=pid, reason=m["not_applicable"]))
            continue
        checks.append(dict(
            property_id=pid,
            quick_cmd="./check %s --tier quick" % pid,
            thorough_cmd="./check %s --tier thorough" % pid,
            evidence_file="/verif/evidence/%s.json" % pid,
            replay_cmd_template="./check %s --replay {path}" % pid,
            engine="coq-proof+correspondence",
            level_claimed=dict(category="proof", text=m["level_text"], design_ref=m["design_ref"]),
            level_note=m["level_note"],
            technique=m["technique"],
        ))
    man = dict(
        version=1,
        setup_cmd="cd /verif && ./check --setup",
        hooks=dict(guard="TASKIQ_VERIF", enable="no hooks are needed: every observation point is reached by replacing module "
                   "globals / instance attributes from the harness process (the guard is unused)",
                   baseline_off_cmd=BASELINE_CMD, source_commits=[], add_only=True),
        engines=[dict(name="coq-proof+correspondence", path="/verif/check",
                      serves_properties=[c["property_id"] for c in checks],
                      kind_free_text="Rocq/Coq 8.16.1 theorems over hand-written Gallina models (coq/theories, coq/proofs, "
                      "coq/props) + a correspondence check that runs the model (vm_compute inside coqc) and the current "
                      "/repo sources on the same generated inputs / traces / histories on every run")],
        checks=checks,
        notes="See DESIGN.md. known_findings.json lists genuine defects that are recorded rather than repaired.",
        not_applicable=na,
    )
    json.dump(man, open(os.path.join(C.VERIF, "MANIFEST.json"), "w"), indent=1)
    print("MANIFEST.json: %d checks, %d not_applicable" % (len(checks), len(na)))
