"""Regenerates /verif/MANIFEST.json from the META of every harness/props/Cxx.py (./check --manifest)."""
import importlib
import json
import os

import common as C
import pygal_specs

BASELINE_CMD = ("cd /repo && /venv/bin/python -m pytest -ra -q -p no:cacheprovider --timeout=900 "
                "--continue-on-collection-errors")
NOT_BUILT = "check not built yet in this revision (DESIGN.md section 10 gives the build order); no claim is made"


def source_tie(pid):
    """the functions of /repo whose source text is re-translated into Gallina on every run of this property's check"""
    fns = []
    for key, spec in pygal_specs.SPECS.items():
        if pid in spec.get("proofs", {}):
            fns.append("%s [%s] (unit %s, coq/srcproofs/%s.v)" % (spec["file"], ", ".join(f["name"] for f in spec["functions"]),
                                                              key, spec["proofs"][pid]))
    if not fns:
        return ""
    return (" + source tie by translation: on every run " + "; ".join(fns) + " re-translated from the current source text "
            "into Gallina by a fail-closed translator (harness/pygal.py, pygal_m.py) and the committed proofs that the "
            "generated definition equals the model (and the property theorems over it) re-checked by coqc; a function that "
            "has left the translatable subset makes the unit skipped for that run (NOTE line), not broken")


def write():
    ids = [json.loads(l)["id"] for l in open(os.path.join(C.VERIF, "properties.jsonl"))]
    checks, na = [], []
    for pid in ids:
        if not os.path.exists(os.path.join(C.VERIF, "harness", "props", pid + ".py")):
            na.append(dict(property_id=pid, reason=NOT_BUILT))
            continue
        m = importlib.import_module("props." + pid).META
        if m.get("not_applicable"):
            na.append(dict(property_id=pid, reason=m["not_applicable"]))
            continue
        checks.append(dict(
            property_id=pid,
            quick_cmd="./check %s --tier quick" % pid,
            thorough_cmd="./check %s --tier thorough" % pid,
            evidence_file="/verif/evidence/%s.json" % pid,
            replay_cmd_template="./check %s --replay {path}" % pid,
            engine="coq-proof+correspondence",
            level_claimed=dict(category="proof", text=m["level_text"], design_ref=m["design_ref"]),
            level_note=m["level_note"],
            technique=m["technique"] + source_tie(pid),
        ))
    man = dict(
        version=1,
        setup_cmd="cd /verif && ./check --setup",
        hooks=dict(guard="TASKIQ_VERIF", enable="no hooks are needed: every observation point is reached by replacing module "
                   "globals / instance attributes from the harness process (the guard is unused)",
                   baseline_off_cmd=BASELINE_CMD, source_commits=[], add_only=True),
        engines=[dict(name="coq-proof+correspondence", path="/verif/check",
                      serves_properties=[c["property_id"] for c in checks],
                      kind_free_text="Rocq/Coq 8.16.1 theorems over hand-written Gallina models (coq/theories, coq/proofs, "
                      "coq/props) + a correspondence check that runs the model (vm_compute inside coqc) and the current "
                      "/repo sources on the same generated inputs / traces / histories on every run; for twelve "
                      "translation units (harness/pygal_specs.py) additionally a source-to-Gallina translation of the "
                      "current source text with committed equality proofs re-checked on every run (coq/srcproofs)")],
        checks=checks,
        notes="See DESIGN.md. known_findings.json lists genuine defects that are recorded rather than repaired.",
        not_applicable=na,
    )
    json.dump(man, open(os.path.join(C.VERIF, "MANIFEST.json"), "w"), indent=1)
    print("MANIFEST.json: %d checks, %d not_applicable" % (len(checks), len(na)))
