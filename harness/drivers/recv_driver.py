"""Implementation driver for C01 C03 C04 C05: the real Receiver.listen() under the virtual-time loop.

case = dict(A, P, N, wtt_us, stop_us, ends, horizon_us, ack_type, msgs=[dict(at, kind, style, dur, out,
            ack (none | sync | async | future | task | awaitobj | gencoro: what the ack callable is / returns), ack_us (the
            acknowledgement completes that much later), hook_aw = dict(where: pre | post | post_save | on_error, style, us) (a
            middleware hook that is a plain function returning a non-coroutine awaitable), pre_fail, post_fail, save_fail, psave_fail, onerr_fail, fail_exc (error | cancel | base), fail_after_us, tlabel_us, cleanup_us, payload (byte values of a malformed message))])       (all instants / durations in integer microseconds,
            dur = -1: never ends)
observation = dict(raw=[[t_us, tag, a, b], ...], lts=[Coq event literals], cut, returned)"""
import asyncio
import types

import shims
import vloop

import taskiq.receiver.receiver as rmod
from taskiq import TaskiqMiddleware
from taskiq.abc.broker import AckableMessage, AsyncBroker
from taskiq.abc.result_backend import AsyncResultBackend
from taskiq.acks import AcknowledgeType
from taskiq.exceptions import NoResultError
from taskiq.message import TaskiqMessage
from taskiq.receiver import Receiver

REAL_ASYNCIO = rmod.asyncio


class Boom(BaseException):
    pass


def run_case(sc, opts):
    ids = {}
    box = {}

    def ident(m):
        d = m.data if isinstance(m, AckableMessage) else m
        return ids[bytes(d)]

    async def main(loop):
        log = shims.Log(loop)
        box["log"] = log
        shims.install(rmod, log, ident)

        class B(AsyncBroker):
            async def kick(self, m):
                pass

            async def listen(self):
                for m in box["msgs"]:
                    d = m["at"] / 1e6 - loop.time()
                    if d > 0:
                        await asyncio.sleep(d)
                    log.add("TAKE", m["i"])
                    yield m["wire"]
                if sc.get("ends"):
                    log.add("END")
                    return
                await asyncio.Event().wait()

        def fail(i, what):
            """the injected failure of a hook / of the backend: an ordinary exception unless the scenario says otherwise"""
            k = sc["msgs"][i].get("fail_exc", "error")
            if k == "cancel":
                raise asyncio.CancelledError()
            if k == "base":
                raise Boom()
            raise RuntimeError(what)

        async def afail(i, what):
            """same for async hooks / set_result; with fail_after_us the call first awaits: a sleep, or - for `cancel` - a
            future that somebody else cancels (the awaiting callback task is not itself asked to cancel)"""
            m = sc["msgs"][i]
            d = m.get("fail_after_us")
            if d:
                if m.get("fail_exc") == "cancel":
                    fut = loop.create_future()
                    loop.call_later(d / 1e6, fut.cancel)
                    await fut                        # raises CancelledError here, d later
                else:
                    await asyncio.sleep(d / 1e6)
            fail(i, what)

        def awaitable(style, d, done, result=None):
            """what an ack callable / a hook hands back: it completes d us after the call (`done()` is called at that
            instant) and gives `result`.  async = coroutine object; the others are awaitables that are NOT coroutine objects:
            future = asyncio.Future resolved by a timer (the shape of loop.run_in_executor / a client library's future),
            task = asyncio.ensure_future(coroutine), awaitobj = object with __await__ (the work only runs when awaited),
            gencoro = generator-based coroutine (types.coroutine)"""
            async def work():
                if d:
                    await asyncio.sleep(d / 1e6)
                done()
                return result

            if style == "async":
                return work()
            if style == "future":
                fut = loop.create_future()

                def fin():
                    if not fut.done():
                        done()
                        fut.set_result(result)

                if d:
                    loop.call_later(d / 1e6, fin)
                else:
                    fin()
                return fut
            if style == "task":
                return asyncio.ensure_future(work())
            if style == "awaitobj":
                class Later:
                    def __await__(self):
                        return work().__await__()

                return Later()
            if style == "gencoro":
                @types.coroutine
                def gen():
                    return (yield from work().__await__())

                return gen()
            raise AssertionError("scenario: unknown awaitable style %r" % (style,))

        class RB(AsyncResultBackend):
            async def set_result(self, tid, r):
                i = int(tid)
                log.add("save", i)
                if sc["msgs"][i].get("save_fail"):
                    await afail(i, "backend down")

            async def is_result_ready(self, t):
                return True

            async def get_result(self, t, with_logs=False):
                return None

        class Hooks(TaskiqMiddleware):
            def pre_execute(self, m):
                i = int(m.task_id)
                log.add("hook.pre", i)
                if sc["msgs"][i].get("pre_fail"):
                    fail(i, "hook")
                return m

            async def post_execute(self, m, r):
                i = int(m.task_id)
                log.add("hook.post", i)
                if sc["msgs"][i].get("post_fail"):
                    await afail(i, "hook")

        class Hooks2(TaskiqMiddleware):
            """the two other hooks of the processing path; only installed for scenarios that make one of them fail"""

            async def post_save(self, m, r):
                i = int(m.task_id)
                log.add("hook.post_save", i)
                if sc["msgs"][i].get("psave_fail"):
                    await afail(i, "hook")

            def on_error(self, m, r, exc):
                i = int(m.task_id)
                log.add("hook.on_error", i)
                if sc["msgs"][i].get("onerr_fail"):
                    fail(i, "hook")

        class Hooks3(TaskiqMiddleware):
            """hooks that are plain functions handing back a non-coroutine awaitable (a future of off-loaded work) for the
            messages that ask for it (hook_aw), nothing otherwise; only installed for scenarios that use it"""

            def _h(self, where, m, result):
                h = sc["msgs"][int(m.task_id)].get("hook_aw")
                if not h or h["where"] != where:
                    return result
                i = int(m.task_id)
                log.add("hook.aw", i, where)
                return awaitable(h["style"], h.get("us", 0), lambda: log.add("hook.aw.end", i, where), result)

            def pre_execute(self, m):
                return self._h("pre", m, m)

            def post_execute(self, m, r):
                return self._h("post", m, None)

            def post_save(self, m, r):
                return self._h("post_save", m, None)

            def on_error(self, m, r, exc):
                return self._h("on_error", m, None)

        br = B()
        br.result_backend = RB()
        br.add_middlewares(Hooks())
        if any(m.get("psave_fail") or m.get("onerr_fail") for m in sc["msgs"]):
            br.add_middlewares(Hooks2())
        if any(m.get("hook_aw") for m in sc["msgs"]):
            br.add_middlewares(Hooks3())

        def finish(i, out):
            if out == "raise":
                raise ValueError("task failed")
            if out == "nores":
                raise NoResultError()
            if out == "base":
                raise Boom()
            return i

        @br.task(task_name="ta")
        async def ta(i: int, dur: int, out: str):
            log.add("body.in", i)
            try:
                try:
                    if dur < 0:
                        await asyncio.Event().wait()
                    elif dur > 0:
                        await asyncio.sleep(dur / 1e6)
                except asyncio.CancelledError:
                    # slow cancellation: the body keeps awaiting while it cleans up (closing a connection, ...)
                    cl = sc["msgs"][i].get("cleanup_us")
                    if cl:
                        log.add("body.cleanup", i)
                        await asyncio.sleep(cl / 1e6)
                    raise
                return finish(i, out)
            finally:
                log.add("body.out", i)       # outermost finally: the body has REALLY ended

        @br.task(task_name="ts")
        def ts(i: int, dur: int, out: str):
            log.add("body.in", i)
            try:
                return finish(i, out)
            finally:
                log.add("body.out", i)

        msgs = []
        for i, m in enumerate(sc["msgs"]):
            if m["kind"] == "bad":
                # a fresh bytes object per message (never the receiver's own QUEUE_DONE object, whatever its value)
                data = bytes(bytearray(m["payload"])) if m.get("payload") is not None else b"\xff not a message %d" % i
                assert data is not rmod.QUEUE_DONE and bytes(data) not in ids, "scenario: duplicate payload"
            else:
                name = "unknown_task" if m["kind"] == "unk" else ("ts" if m.get("style") == "sync" else "ta")
                labels = {}
                if m.get("tlabel_us") is not None:
                    labels["timeout"] = m["tlabel_us"] / 1e6
                data = br.formatter.dumps(TaskiqMessage(task_id=str(i), task_name=name, labels=labels,
                                                        args=[i, m["dur"], m["out"]], kwargs={})).message
            ids[bytes(data)] = i
            ack = m.get("ack", "none")
            # `ack` is logged when the ack callable is invoked, `ack.end` when the acknowledgement has COMPLETED
            if ack == "sync":
                def _ack(i=i):
                    log.add("ack", i)
                    log.add("ack.end", i)
                wire = AckableMessage(data=data, ack=_ack)
            elif ack == "async" and not m.get("ack_us"):
                async def _ack(i=i):
                    log.add("ack", i)
                    log.add("ack.end", i)
                wire = AckableMessage(data=data, ack=_ack)
            elif ack != "none":
                # a plain callable returning an awaitable that completes ack_us later
                def _ack(i=i, style=ack, d=m.get("ack_us", 0)):
                    log.add("ack", i, style)
                    return awaitable(style, d, lambda: log.add("ack.end", i))
                wire = AckableMessage(data=data, ack=_ack)
            else:
                wire = data
            msgs.append(dict(i=i, at=m["at"], wire=wire))
        box["msgs"] = msgs

        A = sc["A"]
        if sc.get("cli") is not None:
            # configuration through the real command-line path (harness/cli_glue.py)
            r = Receiver(br, run_startup=False, **box["cli_kw"])
        else:
            r = Receiver(br, max_async_tasks=A, max_prefetch=sc["P"], max_tasks_to_execute=sc["N"], run_startup=False,
                         wait_tasks_timeout=None if sc.get("wtt_us") is None else sc["wtt_us"] / 1e6,
                         ack_type=AcknowledgeType(sc["ack_type"]) if sc.get("ack_type") else None)
        shims.wrap_receiver(r, log, ident, A, sc["P"])
        ev = shims.make_event(log)
        if sc.get("stop_us") is not None:
            loop.call_later(sc["stop_us"] / 1e6, ev.set)
        hz = sc["horizon_us"] / 1e6
        loop.call_later(hz - 0.001, lambda: log.add("CUTMARK"))
        try:
            await asyncio.wait_for(r.listen(ev), hz)
            log.add("RETURN")
            # keep observing for a moment: nothing may start after the return
            await asyncio.sleep(1.0)
        except asyncio.TimeoutError:
            log.add("CUT")
        box["n"] = len(log.ev)      # what follows is the harness' own clean-up (cancelling left-over tasks)
        return log

    if sc.get("cli") is not None:
        import cli_glue
        from taskiq import InMemoryBroker
        # before the virtual loop exists: start_listen runs its own (throw-away) loop; the keyword arguments it
        # hands to the receiver type do not depend on the broker object
        box["cli_kw"] = cli_glue.receiver_kwargs_via_cli(sc["cli"], InMemoryBroker())
    try:
        log = vloop.run(main)
    finally:
        rmod.asyncio = REAL_ASYNCIO
    A = sc["A"]
    raw = log.ev[:box["n"]]
    lts, cut = shims.to_lts(raw, A is not None and A > 0)
    tags = [e[1] for e in raw]
    return dict(raw=raw, lts=lts, cut=cut, returned="RETURN" in tags)
