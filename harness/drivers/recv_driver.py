"""Implementation driver for C01 C03 C04 C05: the real Receiver.listen() under the virtual-time loop.

case = dict(A, P, N, wtt_us, stop_us, ends, horizon_us, ack_type, msgs=[dict(at, kind, style, dur, out,
            ack (none | sync | async | future | task | awaitobj | gencoro: what the ack callable is / returns), ack_us (the
            acknowledgement completes that much later), hook_aw = dict(where: pre | post | post_save | on_error, style, us) (a
            middleware hook that is a plain function returning a non-coroutine awaitable),
            wire = how the (valid) message is written on the wire, mw = per extra middleware what each of its hooks does for
            this message (both: see recv_props.decorate_wire / decorate_mw), pre_fail, post_fail, save_fail, psave_fail, onerr_fail, fail_exc (error | cancel | base), fail_after_us, tlabel_us, cleanup_us, payload (byte values of a malformed message))])       (all instants / durations in integer microseconds,
            dur = -1: never ends)
       sc["fmt"]: formatter / serializer of the broker; sc["mws"]: extra recording middlewares
       sc["late"], sc["shared_default"], m["task"]: tasks registered late / through the shared broker / on another broker
            (recv_props.decorate_reg); m["early"] + a sc["late"] entry with early: the message arrives BEFORE the task it names is
            registered while listen() runs (recv_props.decorate_early; nothing to do here: `when = at` + m["task"]); entries of sc["late"] with role designated / shadowed + shape: ONE task name registered with
            two different functions (recv_props.decorate_dup) - the function find_task designates logs body.in / body.out, the other
            one shadow.in / shadow.out; sc["live"]: the real run_receiver_task coroutine runs for the whole scenario over a
            listen() that fails at scripted points (recv_props.gen_live) - raw log: SESSION s (Receiver.listen called), LISTEN s, TAKE i s,
            FAULT s exc, no LTS trace; sc["live"]["supervisor"]: instead of run_receiver_task a supervisor of the driver runs ONE
            Receiver object over several listen() sessions (recv_props.gen_relisten) - raw log also LISTEN.FAILED s exc, RESUME n
observation = dict(raw=[[t_us, tag, a, b], ...], lts=[Coq event literals], cut, returned, wire={i: printable bytes})"""
import __future__
import asyncio
import base64
import json
import pickle
import random
import threading
import types
from typing import Annotated, Any

import pipeline_driver as PD     # the registry of parameter annotations (ANNOT / param_sources / call_args), shared with the pipeline family
import recv_props
import shims
import vloop

import taskiq.receiver.receiver as rmod
from taskiq import Context, TaskiqDepends, TaskiqMiddleware, TaskiqState
from taskiq.abc.broker import AckableMessage, AsyncBroker
from taskiq.abc.result_backend import AsyncResultBackend
from taskiq.brokers.shared_broker import async_shared_broker
from taskiq.acks import AcknowledgeType
from taskiq.exceptions import NoResultError
from taskiq.formatters.json_formatter import JSONFormatter
from taskiq.kicker import AsyncKicker
from taskiq.message import TaskiqMessage
from taskiq.serializers.pickle import PickleSerializer
from taskiq.receiver import Receiver

import asyncio as REAL_ASYNCIO  # noqa: E402  (not rmod.asyncio: the receiver module may import names from asyncio only)


class Boom(BaseException):
    pass


# taskiq.labels.LabelType as every released client writes it (the harness' own table: the wire form of a message that is
# not sent through the real kicker is built without asking the code under test)
LT = dict(any=1, int=2, str=3, float=4, bool=5, bytes=6)
GHOST_VALUE = {1: None, 2: 1, 3: "s", 4: 1.5, 5: True, 6: b"x"}


def label_py(tn, v):
    return bytes.fromhex(v) if tn == "bytes" else v


def label_typed(tn, py):
    """what a client writes for a label of a declared type"""
    return base64.b64encode(py).decode() if tn == "bytes" else str(py)


def label_plain(tn, py):
    return base64.b64encode(py).decode() if tn == "bytes" else py


def run_case(sc, opts):
    ids = {}
    box = {"kicked": []}
    by_tid = {}         # task id -> indices of the messages that carry it

    def idx(tid):
        """which scripted message a hook / the backend was called for: by task id; when several messages share one id, by
        the callback task the call runs in (tagged by the shims; tasks it creates inherit the tag)"""
        l = by_tid.get(tid) or []
        if len(l) == 1:
            return l[0]
        try:
            v = getattr(asyncio.current_task(), "_vmsg", None)
        except RuntimeError:
            v = None
        if v is None:
            raise AssertionError("harness: cannot tell which message task id %r belongs to" % (tid,))
        return v

    def ident(m):
        d = m.data if isinstance(m, AckableMessage) else m
        return ids[bytes(d)]

    async def main(loop):
        log = shims.Log(loop)
        box["log"] = log
        shims.install(rmod, log, ident)
        if sc.get("app_task_factory"):
            # the application's loop has a task factory of its own (not an eager one) before the worker starts
            class AppTask(asyncio.Task):
                pass

            made = box["app_tasks"] = []

            def app_factory(lp, coro, **kw):
                t = (AppTask if sc["app_task_factory"] == "task-subclass" else asyncio.Task)(coro, loop=lp, **kw)
                made.append(1)
                return t

            loop.set_task_factory(app_factory)

        class B(AsyncBroker):
            async def kick(self, m):
                box["kicked"].append(m)

            async def listen(self):
                for m in box["msgs"]:
                    d = m["at"] / 1e6 - loop.time()
                    if d > 0:
                        await asyncio.sleep(d)
                    log.add("TAKE", m["i"])
                    yield m["wire"]
                if sc.get("ends"):
                    log.add("END")
                    return
                await asyncio.Event().wait()

        live = sc.get("live")
        lv = dict(cur=0, sessions=0, unstarted=set(), waiter=None, events=[], stopped=False, built=0,
                  faults=[dict(f, done=False) for f in (live or {}).get("faults") or []])
        box["lv"] = lv

        class BL(B):
            """the broker of a run under run_receiver_task: every call of listen() (one per receiver session) goes on with the
            messages that were not served yet; a scripted fault makes the call raise"""

            async def listen(self):
                import cli_glue
                s = lv["sessions"] - 1          # the session (call of Receiver.listen) this generator serves
                log.add("LISTEN", s)
                L = box["msgs"]
                while True:
                    k = lv["cur"]
                    fl = next((x for x in lv["faults"] if not x["done"] and x["k"] <= k and not x.get("busy")), None)
                    if fl is not None:
                        if fl.get("at_us") is not None:
                            d = fl["at_us"] / 1e6 - loop.time()
                            if d > 0:
                                await asyncio.sleep(d)
                        if fl.get("hold"):
                            # the connection does not drop while a message this worker took has not been started
                            while lv["unstarted"]:
                                lv["waiter"] = loop.create_future()
                                await lv["waiter"]
                        fl["done"] = True
                        if fl.get("stop"):
                            # (recv_props.gen_rebuild) not a failure of the stream: the supervisor requests a graceful stop of THIS
                            # session - the finish event it gave to this session's listen(); nothing more is delivered to it
                            log.add("SESSION.STOP", s)
                            lv["stopped_session"] = s
                            lv["cur_event"].set()
                            await asyncio.Event().wait()
                        log.add("FAULT", s, fl["exc"])
                        raise cli_glue.listen_fault(fl["exc"])
                    if k >= len(L):
                        break
                    m = L[k]
                    d = m["at"] / 1e6 - loop.time()
                    if d > 0:
                        await asyncio.sleep(d)
                    # a fault scripted for the moment at which EVERY SLOT IS BUSY (`busy`): the connection drops instead of
                    # delivering message k (or a later one, before message `until`) if, at its arrival, max_async_tasks callbacks
                    # are inside bodies that end strictly later, the runner waits for a slot and the prefetcher waits for this
                    # very fetch - otherwise the message is delivered and the fault stays scripted
                    bf = next((x for x in lv["faults"] if not x["done"] and x.get("busy") and x["k"] <= k < x.get("until", len(L))), None)
                    if bf is not None and all_slots_busy():
                        bf["done"] = True
                        log.add("FAULT", s, bf["exc"])
                        raise cli_glue.listen_fault(bf["exc"])
                    lv["cur"] = k + 1
                    lv["unstarted"].add(m["i"])
                    log.add("TAKE", m["i"], s)
                    yield m["wire"]
                if sc.get("ends"):
                    log.add("END")
                    return
                await asyncio.Event().wait()

        # where the worker stands, read off the shims' own entries (only to place scripted faults, see all_slots_busy)
        st = dict(alive=set(), body={}, rn=None, pf=None)

        def all_slots_busy():
            A_ = sc["A"]
            if not A_ or A_ <= 0 or len(st["alive"]) < A_ or st["rn"] != "acquiring" or st["pf"] != "polling":
                return False
            now = loop.time_us()
            for i in st["alive"]:
                m = sc["msgs"][i]
                t_in = st["body"].get(i)
                if t_in is None or m.get("style") != "async":
                    return False
                d = m["dur"]
                if m.get("tlabel_us") is not None and 0 <= m["tlabel_us"] < d:
                    d = m["tlabel_us"]
                if d >= 0 and t_in + d <= now:
                    return False
            return True

        if live is not None:
            plain_add0 = log.add

            def add0(tag, a=None, b=None):
                plain_add0(tag, a, b)
                if tag == "cb.start":
                    st["alive"].add(a)
                    lv["unstarted"].discard(a)
                    w = lv["waiter"]
                    if not lv["unstarted"] and w is not None and not w.done():
                        w.set_result(None)
                elif tag == "cb.done":
                    st["alive"].discard(a)
                elif tag == "body.in":
                    st["body"][a] = loop.time_us()
                elif tag == "SESSION":
                    st["rn"], st["pf"] = "acquiring", None
                elif tag == "spawn":
                    st["rn"] = "acquiring"
                elif tag == "sem.acq" and a == "rn":
                    st["rn"] = "holding"
                elif tag == "semp.acq" and a == "pf":
                    st["pf"] = "polling"
                elif (tag == "semp.rel" and a == "pf") or (tag == "q.put" and b == "pf"):
                    st["pf"] = "idle"

            log.add = add0

        def fail(i, what):
            """the injected failure of a hook / of the backend: an ordinary exception unless the scenario says otherwise"""
            k = sc["msgs"][i].get("fail_exc", "error")
            if k == "cancel":
                raise asyncio.CancelledError()
            if k == "base":
                raise Boom()
            raise RuntimeError(what)

        async def afail(i, what):
            """same for async hooks / set_result; with fail_after_us the call first awaits: a sleep, or - for `cancel` - a
            future that somebody else cancels (the awaiting callback task is not itself asked to cancel)"""
            m = sc["msgs"][i]
            d = m.get("fail_after_us")
            if d:
                if m.get("fail_exc") == "cancel":
                    fut = loop.create_future()
                    loop.call_later(d / 1e6, fut.cancel)
                    await fut                        # raises CancelledError here, d later
                else:
                    await asyncio.sleep(d / 1e6)
            fail(i, what)

        def awaitable(style, d, done, result=None):
            """what an ack callable / a hook hands back: it completes d us after the call (`done()` is called at that
            instant) and gives `result`.  async = coroutine object; the others are awaitables that are NOT coroutine objects:
            future = asyncio.Future resolved by a timer (the shape of loop.run_in_executor / a client library's future),
            task = asyncio.ensure_future(coroutine), awaitobj = object with __await__ (the work only runs when awaited),
            gencoro = generator-based coroutine (types.coroutine)"""
            async def work():
                if d:
                    await asyncio.sleep(d / 1e6)
                done()
                return result

            if style == "async":
                return work()
            if style == "future":
                fut = loop.create_future()

                def fin():
                    if not fut.done():
                        done()
                        fut.set_result(result)

                if d:
                    loop.call_later(d / 1e6, fin)
                else:
                    fin()
                return fut
            if style == "task":
                return asyncio.ensure_future(work())
            if style == "awaitobj":
                class Later:
                    def __await__(self):
                        return work().__await__()

                return Later()
            if style == "gencoro":
                @types.coroutine
                def gen():
                    return (yield from work().__await__())

                return gen()
            raise AssertionError("scenario: unknown awaitable style %r" % (style,))

        def err_text(r):
            """class and message of the error a result carries (None for a successful one): fourth field of `save` / `hook.post`"""
            e = getattr(r, "error", None)
            if not getattr(r, "is_err", False) or e is None:
                return None
            return ("%s: %s" % (type(e).__name__, e))[:120]

        class RB(AsyncResultBackend):
            async def set_result(self, tid, r):
                i = idx(tid)
                log.add("save", i, err_text(r))
                try:
                    if sc["msgs"][i].get("save_fail"):
                        await afail(i, "backend down")
                finally:
                    log.add("save.end", i)       # the attempt to store the result has COMPLETED (stored or failed)

            async def is_result_ready(self, t):
                return True

            async def get_result(self, t, with_logs=False):
                return None

        class Hooks(TaskiqMiddleware):
            def pre_execute(self, m):
                i = idx(m.task_id)
                log.add("hook.pre", i)
                if sc["msgs"][i].get("pre_fail"):
                    fail(i, "hook")
                return m

            async def post_execute(self, m, r):
                i = idx(m.task_id)
                log.add("hook.post", i, err_text(r))
                if sc["msgs"][i].get("post_fail"):
                    await afail(i, "hook")

        class Hooks2(TaskiqMiddleware):
            """the two other hooks of the processing path; only installed for scenarios that make one of them fail"""

            async def post_save(self, m, r):
                i = idx(m.task_id)
                log.add("hook.post_save", i)
                if sc["msgs"][i].get("psave_fail"):
                    await afail(i, "hook")

            def on_error(self, m, r, exc):
                i = idx(m.task_id)
                log.add("hook.on_error", i)
                if sc["msgs"][i].get("onerr_fail"):
                    fail(i, "hook")

        class Hooks3(TaskiqMiddleware):
            """hooks that are plain functions handing back a non-coroutine awaitable (a future of off-loaded work) for the
            messages that ask for it (hook_aw), nothing otherwise; only installed for scenarios that use it"""

            def _h(self, where, m, result):
                h = sc["msgs"][idx(m.task_id)].get("hook_aw")
                if not h or h["where"] != where:
                    return result
                i = idx(m.task_id)
                log.add("hook.aw", i, where)
                return awaitable(h["style"], h.get("us", 0), lambda: log.add("hook.aw.end", i, where), result)

            def pre_execute(self, m):
                return self._h("pre", m, m)

            def post_execute(self, m, r):
                return self._h("post", m, None)

            def post_save(self, m, r):
                return self._h("post_save", m, None)

            def on_error(self, m, r, exc):
                return self._h("on_error", m, None)

        class Stamp(TaskiqMiddleware):
            """client side: a pre_send hook (it runs after the kicker has computed labels_types) that adds labels - tracing /
            correlation / tenant headers - and removes some; only installed for scenarios that send through the kicker"""

            def pre_send(self, message):
                w = box["sending"]

                def do():
                    for k, v in w["stamps"]:
                        message.labels[k] = v
                    for k, _ in w["ghost"]:
                        message.labels.pop(k, None)
                    return message

                if w.get("pre_send") == "async":
                    async def later():
                        return do()

                    return later()
                return do()

        def hook_exc(kind):
            return asyncio.CancelledError() if kind == "cancel" else Boom() if kind == "base" else RuntimeError("hook")

        async def hook_work(i, tag, s, ret, log_begin):
            """one hook invocation as a coroutine: (fails at once) | suspends `us` | (fails) | returns; `hook.end` when it
            has really finished - whoever awaits it, however it ends"""
            if log_begin:
                log.add("hook.begin", i, tag)
            try:
                fk, us = s.get("fail"), s.get("us", 0)
                if fk and s.get("fail_at") == "begin":
                    raise hook_exc(fk)
                if us:
                    if fk == "cancel":
                        fut = loop.create_future()      # a shared future that somebody else cancels
                        loop.call_later(us / 1e6, fut.cancel)
                        await fut
                    else:
                        await asyncio.sleep(us / 1e6)
                if fk:
                    raise hook_exc(fk)
                return ret
            finally:
                log.add("hook.end", i, tag)

        def hook_call(i, tag, s, ret):
            """one hook invocation of a middleware whose hooks are plain functions: returns / raises at once, or hands back
            an awaitable (coroutine object, Future resolved by a timer, Task, object with __await__, generator-based
            coroutine) that completes - or fails - later"""
            log.add("hook.begin", i, tag)
            style, fk, us = s.get("style", "sync"), s.get("fail"), s.get("us", 0)
            if style == "sync" or (fk and s.get("fail_at") == "begin" and style != "coro"):
                try:
                    if fk:
                        raise hook_exc(fk)
                    return ret
                finally:
                    log.add("hook.end", i, tag)
            if style == "future":
                fut = loop.create_future()
                ended = []

                def end(*_):
                    if not ended:
                        ended.append(1)
                        log.add("hook.end", i, tag)

                def fin():
                    if fut.done():
                        return
                    end()
                    if fk == "cancel":
                        fut.cancel()
                    elif fk:
                        fut.set_exception(hook_exc(fk))
                    else:
                        fut.set_result(ret)

                fut.add_done_callback(end)          # cancelled from outside before the timer
                if us:
                    loop.call_later(us / 1e6, fin)
                else:
                    fin()
                return fut
            coro = hook_work(i, tag, s, ret, False)
            if style == "coro":
                return coro
            if style == "task":
                return asyncio.ensure_future(coro)
            if style == "awaitobj":
                class Later:
                    def __await__(self):
                        return coro.__await__()

                return Later()
            if style == "gencoro":
                @types.coroutine
                def gen():
                    return (yield from coro.__await__())

                return gen()
            raise AssertionError("scenario: unknown hook style %r" % (style,))

        def make_mw(k, decl, hooks):
            """recording middleware number k: overrides exactly `hooks`, as `async def` or as plain functions; what an
            invocation does is the message's own spec m["mw"][k][hook] (nothing: returns at once)"""
            def spec(m, where):
                i = idx(m.task_id)
                per = sc["msgs"][i].get("mw") or []
                return i, "%d:%s" % (k, where), (per[k].get(where) if k < len(per) else None) or {}

            if decl == "async":
                async def pre_execute(self, m):
                    return await hook_work(*spec(m, "pre"), m, True)

                async def post_execute(self, m, r):
                    return await hook_work(*spec(m, "post"), None, True)

                async def post_save(self, m, r):
                    return await hook_work(*spec(m, "post_save"), None, True)

                async def on_error(self, m, r, exc):
                    return await hook_work(*spec(m, "on_error"), None, True)
            else:
                def pre_execute(self, m):
                    return hook_call(*spec(m, "pre"), m)

                def post_execute(self, m, r):
                    return hook_call(*spec(m, "post"), None)

                def post_save(self, m, r):
                    return hook_call(*spec(m, "post_save"), None)

                def on_error(self, m, r, exc):
                    return hook_call(*spec(m, "on_error"), None)
            fns = dict(pre=("pre_execute", pre_execute), post=("post_execute", post_execute),
                       post_save=("post_save", post_save), on_error=("on_error", on_error))
            return type("Recording%d" % k, (TaskiqMiddleware,), dict(fns[h] for h in hooks))()

        br = BL() if live is not None else B()
        fmt = sc.get("fmt", "proxy-json")
        if fmt == "json":
            br.with_formatter(JSONFormatter())
        elif fmt == "proxy-pickle":
            br.with_serializer(PickleSerializer())
        elif fmt != "proxy-json":
            raise AssertionError("scenario: unknown format %r" % (fmt,))
        br.result_backend = RB()
        br.add_middlewares(Hooks())
        if any(m.get("psave_fail") or m.get("onerr_fail") for m in sc["msgs"]):
            br.add_middlewares(Hooks2())
        if any(m.get("hook_aw") for m in sc["msgs"]):
            br.add_middlewares(Hooks3())
        for k, mw in enumerate(sc.get("mws") or []):
            br.add_middlewares(make_mw(k, mw["decl"], mw["hooks"]))
        if any((m.get("wire") or {}).get("via") == "kicker" for m in sc["msgs"]):
            br.add_middlewares(Stamp())

        def finish(i, out):
            if out == "raise":
                raise ValueError("task failed")
            if out == "nores":
                raise NoResultError()
            if out == "base":
                raise Boom()
            return i

        def body(style, shape=None, shadowed=False):
            """a fresh task function.  Without `shape`: one of the same two shapes for every task of the scenario.  With a shape
            (recv_props.decorate_dup: the same task NAME registered twice with DIFFERENT functions) the function is written out
            with the parameter list the shape describes (shaped_function).  `shadowed`: the registration of this function is
            hidden by another one of the same name (AsyncBroker.find_task on the unchanged tree never hands it out); it logs
            shadow.in / shadow.out instead of body.in / body.out - the oracle counts the entries of the function find_task
            designates"""
            t_in, t_out = ("shadow.in", "shadow.out") if shadowed else ("body.in", "body.out")

            def ts(i: int, dur: int, out: str, extra: Any = None):
                log.add(t_in, i)
                try:
                    if dur > 0 and not shadowed:
                        # a sync function that takes (virtual) time: only in a pool that can account for it (vloop.VPool)
                        vloop.thread_vsleep(dur)
                    return finish(i, out)
                finally:
                    log.add(t_out, i)

            async def ta(i: int, dur: int, out: str, extra: Any = None):
                log.add(t_in, i)
                try:
                    try:
                        if dur < 0:
                            await asyncio.Event().wait()
                        elif dur > 0:
                            await asyncio.sleep(dur / 1e6)
                    except asyncio.CancelledError:
                        # slow cancellation: the body keeps awaiting while it cleans up (closing a connection, ...)
                        cl = sc["msgs"][i].get("cleanup_us")
                        if cl:
                            log.add("body.cleanup", i)
                            await asyncio.sleep(cl / 1e6)
                        raise
                    return finish(i, out)
                finally:
                    log.add(t_out, i)       # outermost finally: the body has REALLY ended

            core = ts if style == "sync" else ta
            return core if shape is None else shaped_function(style, shape, core)

        def provider(kind):
            """what a custom dependency is resolved by: a plain function, an `async def`, a generator (set-up / tear-down)"""
            if kind == "custom-sync":
                def dep() -> int:
                    return 7
            elif kind == "custom-async":
                async def dep() -> int:
                    return 7
            elif kind == "custom-gen":
                def dep():
                    yield 7
            elif kind == "custom-asyncgen":
                async def dep():
                    yield 7
            else:
                raise AssertionError("scenario: unknown dependency kind %r" % (kind,))
            return dep

        def shaped_function(style, shape, core):
            """a task function with the parameter list of `shape` = dict(hints: the three message parameters are annotated or
            bare, opt_kw: a further optional parameter, varkw: a **catch-all, params: further MESSAGE parameters with annotations of
            the pipeline family's registry (recv_props.decorate_params; written by pipeline_driver.param_sources: positional ones
            after `out`, `*rest`, keyword-only ones; future: `from __future__ import annotations`; ret: return annotation),
            deps = [[parameter, kind, form]]: injected
            parameters - kind state (TaskiqState) | context (Context) | custom-* (TaskiqDepends(provider)); form default
            (`p: T = TaskiqDepends(...)`) | annotated (keyword-only `p: Annotated[T, TaskiqDepends(...)]`, no default)).  A real
            `def` (written out and compiled), so that a call with a keyword it does not have / without one it requires fails
            the way Python makes it fail.  What it does is `core` (the scenario's body)"""
            ns = dict(Any=Any, Annotated=Annotated, TaskiqDepends=TaskiqDepends, TaskiqState=TaskiqState, Context=Context, core=core,
                      __name__=__name__)       # (the function's __module__: this driver, like the built-in two)
            ann = (": int", ": int", ": str") if shape.get("hints", True) else ("", "", "")
            params = ["i%s" % ann[0], "dur%s" % ann[1], "out%s" % ann[2]]
            P = shape.get("params") or {}
            star, kwo, ret = None, [], ""
            if P:
                ns.update(PD.ANNOT_NS)
                pos, star, kwo, _ = PD.param_sources(0, {"params": P}, ns)
                params += pos + ([star] if star else [])
                if P.get("ret"):
                    ns["R"] = PD.ANNOT[P["ret"]]
                    ret = " -> %s" % (repr(ns["R"]) if isinstance(ns["R"], str) else "R")
            params.append("extra: Any = None")
            if shape.get("opt_kw"):
                params.append("tag: str = 't'")
            kwonly = []
            for k, (pname, kind, form) in enumerate(shape.get("deps") or []):
                if kind == "state":
                    ty, dep = "TaskiqState", "TaskiqDepends()"
                elif kind == "context":
                    ty, dep = "Context", "TaskiqDepends()"
                else:
                    ns["prov%d" % k] = provider(kind)
                    ty, dep = "int", "TaskiqDepends(prov%d)" % k
                if form == "annotated":
                    kwonly.append("%s: Annotated[%s, %s]" % (pname, ty, dep))
                else:
                    params.append("%s: %s = %s" % (pname, ty, dep))
            kwonly = kwo + kwonly
            if kwonly:
                params += ([] if star else ["*"]) + kwonly
            if shape.get("varkw"):
                params.append("**more")
            src = "%sdef task_function(%s)%s:\n    return %score(i, dur, out, extra)\n" % (
                "async " if style != "sync" else "", ", ".join(params), ret, "await " if style != "sync" else "")
            flags = __future__.annotations.compiler_flag if P.get("future") else 0
            exec(compile(src, "<scenario task function>", "exec", flags=flags, dont_inherit=True), ns)
            return ns["task_function"]

        ta = br.task(task_name="ta")(body("async"))
        ts = br.task(task_name="ts")(body("sync"))
        tasks = {"ta": ta, "ts": ts}
        other = B()                 # another broker object of the process: what is registered on it is unknown to the worker

        def register(t):
            fn = body(t["style"], t.get("shape"), t.get("role") == "shadowed")
            if t["where"] == "shared":
                tasks[t["name"]] = async_shared_broker.task(task_name=t["name"])(fn)
                box["global_names"].append(t["name"])
            elif t["where"] == "decorator":
                tasks[t["name"]] = br.task(task_name=t["name"])(fn)
            elif t["where"] == "register_task":
                tasks[t["name"]] = br.register_task(fn, task_name=t["name"])
            elif t["where"] == "other":
                other.task(task_name=t["name"])(fn)
            else:
                raise AssertionError("scenario: unknown registration place %r" % (t["where"],))
            log.add("REG", t["name"], t["where"] + (": the function find_task designates" if t.get("role") == "designated" else
                                                    ": ANOTHER function under that name, hidden by the other registration"
                                                    if t.get("role") == "shadowed" else ""))

        def register_when(when):
            for t in sc.get("late") or []:
                if t["when"] == when:
                    register(t)

        if sc.get("shared_default") == "before":
            async_shared_broker.default_broker(br)
        register_when("pre")

        async def on_the_wire(i, m, name, w):
            """the bytes of one VALID message, written as the scenario says (recv_props.decorate_wire)"""
            tid = w["tid"]
            user = [(k, tn, label_py(tn, v), typed) for k, tn, v, typed in w["labels"]]
            if m.get("tlabel_us") is not None:
                user.insert(0, ("timeout", "float", m["tlabel_us"] / 1e6, bool(w.get("timeout_typed"))))
            pos = [i, m["dur"], m["out"]]
            n = dict(pos=3, kw=0, mixed=1)[w.get("argform", "pos")]
            args, kwargs = pos[:n], dict(list(zip(("i", "dur", "out"), pos))[n:])
            if "extra" in w:
                kwargs["extra"] = w["extra"]
            if m.get("params"):
                a2, k2 = PD.call_args({"params": {"list": recv_props.typed_params(sc, m)}})
                assert not a2 or n == 3, "scenario: positional parameter values after keyword arguments"
                args, kwargs = args + a2, dict(kwargs, **k2)
            if w["via"] == "kicker":
                task = {"ta": ta, "ts": ts}.get(name)       # (a late / shared task: a kicker made for its name)
                kicker = task.kicker() if task is not None else AsyncKicker(task_name=name, broker=br, labels={})
                labels = {k: py for k, _, py, _ in user}
                labels.update({k: GHOST_VALUE[t] for k, t in w["ghost"]})     # typed by the kicker, removed by the middleware
                box["sending"] = w
                n0 = len(box["kicked"])
                await kicker.with_task_id(tid).with_labels(**labels).kiq(*args, **kwargs)
                assert len(box["kicked"]) == n0 + 1, "harness: kiq did not hand exactly one message to broker.kick"
                return box["kicked"][-1].message
            labels, types_ = {}, {}
            for k, tn, py, typed in user:
                if typed:
                    labels[k], types_[k] = label_typed(tn, py), LT[tn]
                else:
                    labels[k] = label_plain(tn, py)
            for k, v in w["stamps"]:
                labels[k] = v
            for k, t in w["ghost"]:
                types_[k] = t
            lt = types_ if w["lt"] == "dict" else None
            assert lt is not None or not types_, "scenario: typed label without labels_types"
            if w["via"] == "model":
                return br.formatter.dumps(TaskiqMessage(task_id=tid, task_name=name, labels=labels, labels_types=lt,
                                                        args=args, kwargs=kwargs)).message
            assert w["via"] == "raw", "scenario: unknown via %r" % (w["via"],)
            d = dict(task_id=tid, task_name=name, labels=labels, labels_types=lt, args=args, kwargs=kwargs)
            if w["lt"] == "omit":
                del d["labels_types"]
            d.update(w.get("top") or {})
            tx = w.get("text") or {}
            keys = list(d)
            random.Random(tx.get("order", 0)).shuffle(keys)
            d = {k: d[k] for k in keys}
            if fmt == "proxy-pickle":
                return pickle.dumps(d, protocol=tx.get("proto", 4))
            return json.dumps(d, ensure_ascii=bool(tx.get("ascii", True)),
                              separators=(",", ":") if tx.get("compact") else (", ", ": ")).encode("utf-8")

        msgs = []
        shown = {}
        for i, m in enumerate(sc["msgs"]):
            if m["kind"] != "bad":
                by_tid.setdefault(m["wire"]["tid"] if m.get("wire") else str(i), []).append(i)
        for i, m in enumerate(sc["msgs"]):
            if m["kind"] == "bad":
                # a fresh bytes object per message (never the receiver's own QUEUE_DONE object, whatever its value)
                data = bytes(bytearray(m["payload"])) if m.get("payload") is not None else b"\xff not a message %d" % i
                # (CPython has ONE empty bytes object: if the receiver's sentinel is b"" the empty payload IS the sentinel. That is
                # the implementation's doing, not a flaw of the scenario - the run goes on and the oracles judge it.)
                assert bytes(data) not in ids, "scenario: duplicate payload"
            else:
                name = m.get("task") or ("unknown_task" if m["kind"] == "unk" else ("ts" if m.get("style") == "sync" else "ta"))
                if m.get("wire"):
                    data = await on_the_wire(i, m, name, m["wire"])
                    shown[str(i)] = repr(bytes(data))[:600]
                else:
                    labels = {}
                    if m.get("tlabel_us") is not None:
                        labels["timeout"] = m["tlabel_us"] / 1e6
                    a2, k2 = PD.call_args({"params": {"list": recv_props.typed_params(sc, m)}})
                    data = br.formatter.dumps(TaskiqMessage(task_id=str(i), task_name=name, labels=labels,
                                                            args=[i, m["dur"], m["out"]] + a2, kwargs=k2)).message
                assert bytes(data) not in ids, "scenario: two messages with the same bytes"
            ids[bytes(data)] = i
            ack = m.get("ack", "none")
            # `ack` is logged when the ack callable is invoked, `ack.end` when the acknowledgement has COMPLETED
            if ack == "sync":
                def _ack(i=i):
                    log.add("ack", i)
                    log.add("ack.end", i)
                wire = AckableMessage(data=data, ack=_ack)
            elif ack == "async" and not m.get("ack_us"):
                async def _ack(i=i):
                    log.add("ack", i)
                    log.add("ack.end", i)
                wire = AckableMessage(data=data, ack=_ack)
            elif ack != "none":
                # a plain callable returning an awaitable that completes ack_us later
                def _ack(i=i, style=ack, d=m.get("ack_us", 0)):
                    log.add("ack", i, style)
                    return awaitable(style, d, lambda: log.add("ack.end", i))
                wire = AckableMessage(data=data, ack=_ack)
            else:
                wire = data
            msgs.append(dict(i=i, at=m["at"], wire=wire))
        box["msgs"] = msgs
        box["shown"] = shown

        def after_construction():
            if sc.get("shared_default") == "after":
                async_shared_broker.default_broker(br)
            register_when("post")

        A = sc["A"]

        class LiveReceiver(Receiver):
            """the receiver class handed to run_receiver_task: everything is Receiver's own; the constructor adds the two
            settings run_receiver_task has no parameter for and the logging shims, listen() remembers the finish event"""

            def __init__(self, *a, **kw):
                if sc["N"] is not None:
                    kw["max_tasks_to_execute"] = sc["N"]
                if sc.get("wtt_us") is not None:
                    kw["wait_tasks_timeout"] = sc["wtt_us"] / 1e6
                given = kw.get("on_exit")

                def on_exit(rcv):
                    log.add("RETURN")            # the task group of listen() has ended normally
                    if given is not None:
                        given(rcv)

                kw["on_exit"] = on_exit
                super().__init__(*a, **kw)
                log.add("RECEIVER", lv["built"])
                lv["built"] += 1
                shims.wrap_receiver(self, log, ident, A, sc["P"])

            async def listen(self, finish_event):
                log.add("SESSION", lv["sessions"])
                lv["sessions"] += 1
                lv["unstarted"].clear()          # what the previous session had not handed to a callback went down with it
                lv["cur_event"] = finish_event
                if not any(e is finish_event for e in lv["events"]):
                    lv["events"].append(finish_event)
                if lv["stopped"] and not finish_event.is_set():
                    finish_event.set()           # the stop request stands, whatever event object this session was given
                await super().listen(finish_event)

        if live is not None:
            r = ev = None

            def request_stop():
                if not lv["stopped"]:
                    lv["stopped"] = True
                    log.add("STOP")
                    for e in lv["events"]:
                        e.set()
        elif sc.get("entry") == "start_listen":
            r = ev = None           # start_listen itself builds the receiver (below)
        else:
            if sc.get("cli") is not None or sc.get("api") is not None:
                # configuration through the real command-line path / through the real run_receiver_task (harness/cli_glue.py)
                r = Receiver(br, run_startup=False, **box["cli_kw"])
            else:
                r = Receiver(br, max_async_tasks=A, max_prefetch=sc["P"], max_tasks_to_execute=sc["N"], run_startup=False,
                             wait_tasks_timeout=None if sc.get("wtt_us") is None else sc["wtt_us"] / 1e6,
                             ack_type=AcknowledgeType(sc["ack_type"]) if sc.get("ack_type") else None)
            shims.wrap_receiver(r, log, ident, A, sc["P"])
            ev = shims.make_event(log)

            def request_stop():
                ev.is_set() or ev.set()

        hz = sc["horizon_us"] / 1e6

        def on_event(so, fn):
            """`fn` runs `plus_us` after the first raw-log entry (tag, msg) - something that happens in the run"""
            plain_add, main_thread = log.add, threading.current_thread()
            armed = []

            def add(tag, a=None, b=None):
                plain_add(tag, a, b)
                if tag == so["tag"] and a == so["msg"] and not armed:
                    if threading.current_thread() is main_thread:
                        armed.append(1)
                        loop.call_later(so.get("plus_us", 0) / 1e6, fn)
                    elif so.get("threads"):
                        # the entry was logged by a pool thread (the body of a sync function): the clock is held while
                        # that thread runs, so the timer is armed at the same virtual instant
                        armed.append(1)
                        loop.call_soon_threadsafe(lambda: loop.call_later(so.get("plus_us", 0) / 1e6, fn))

            log.add = add

        def arm(request_stop, at_instant=None):
            if sc.get("stop_us") is not None:
                loop.call_later(sc["stop_us"] / 1e6, at_instant or request_stop)
            so = sc.get("stop_on")
            if so:
                # a stop request placed relative to something that happens in the run: `plus_us` after the first raw-log entry
                # (tag, msg) - e.g. while message i's body is handling its cancellation
                on_event(so, request_stop)
            loop.call_later(hz - 0.001, lambda: log.add("CUTMARK"))

        def late_at():
            for t in sc.get("late") or []:
                if t["when"] == "at":
                    loop.call_later(t["at_us"] / 1e6, register, t)

        async def observe(listening):
            try:
                await asyncio.wait_for(listening, hz)
                log.add("RETURN")
                # keep observing for a moment: nothing may start after the return
                await asyncio.sleep(1.0)
            except asyncio.TimeoutError:
                log.add("CUT")
            box["n"] = len(log.ev)      # what follows is the harness' own clean-up (cancelling left-over tasks)

        if sc.get("entry") == "start_listen":
            # the worker is RUN by the real start_listen (cli_glue.run_start_listen), on the loop start_listen created and
            # configured; this coroutine only prepared the broker / the messages on that loop.  The receiver type handed to
            # --receiver is Receiver's own code + the logging shims; its listen() arms the scenario (stop request = the real
            # signal handler start_listen installed, called from a timer) and cuts it at the horizon.
            eo = sc.get("entry_opts") or {}

            class EntryReceiver(Receiver):
                def __init__(self, *a, **kw):
                    super().__init__(*a, **kw)
                    shims.wrap_receiver(self, log, ident, A, sc["P"])

                async def listen(self, finish_event):
                    # the very event object the signal handlers of start_listen set: made a logging one in place
                    ev = shims.adopt_event(finish_event, log)
                    handlers = box["ctl"]["signal"].handlers
                    import signal as _sig
                    signum = getattr(_sig, "SIG" + eo.get("sig", "INT"))

                    def request_stop():
                        handlers[signum](signum, None)
                        if eo.get("again_us") is not None and not box.get("again"):
                            box["again"] = True      # the operator repeats the signal (still below the hard-kill count)
                            loop.call_later(eo["again_us"] / 1e6, lambda: handlers[signum](signum, None))

                    arm(request_stop)
                    after_construction()
                    late_at()
                    await observe(super().listen(ev))

            box["entry"] = dict(br=br, receiver=EntryReceiver)
            box["n"] = 0
            return log

        if live is not None:
            import taskiq.api.receiver as apimod
            from taskiq.api import run_receiver_task
            arm(request_stop)
            if live.get("vpool"):
                # the pool run_receiver_task builds for sync functions: the real ThreadPoolExecutor, with the account the
                # virtual clock needs (sync bodies that take virtual time, more of them in flight than threads)
                def pool(max_workers=None, **kw):
                    return vloop.VPool(loop, max_workers=max_workers,
                                       on_shutdown=lambda w, c: log.add("pool.shutdown", bool(w), bool(c)), **kw)

                # by identity, wherever taskiq bound the class or its modules (not `apimod.ThreadPoolExecutor = pool`)
                import concurrent.futures as _cf
                import concurrent.futures.thread as _cft
                import patchall
                box["apimod"] = _cft.ThreadPoolExecutor
                patchall.patch_attr(_cft, "ThreadPoolExecutor", pool, prefix="taskiq")
                patchall.replace_everywhere(_cf, patchall._SHIMS[id(_cft)], prefix="taskiq")
            akw = dict(live.get("kw") or {})
            if akw.get("ack_time") is not None:
                akw["ack_time"] = AcknowledgeType(akw["ack_time"])
            sv = live.get("supervisor")
            rb = live.get("rebuild")
            if rb:
                # a NEW Receiver with its OWN configuration per listening session, all on the one broker object
                # (recv_props.gen_rebuild): built when the previous session's listen() failed or returned from the graceful stop
                # scripted for that session
                if rb.get("prebuilt"):
                    # a Receiver somebody built on this broker earlier and never listened with
                    box["prebuilt"] = Receiver(br, max_async_tasks=rb["prebuilt"][0], max_prefetch=rb["prebuilt"][1], run_startup=False)

                async def supervise():
                    k = 0
                    while True:
                        a_, p_ = rb["configs"][min(k, len(rb["configs"]) - 1)]
                        rcv = LiveReceiver(br, max_async_tasks=a_, max_prefetch=p_, run_startup=False,
                                           ack_type=AcknowledgeType(sc["ack_type"]) if sc.get("ack_type") else None)
                        s_ = lv["sessions"]
                        k += 1
                        try:
                            await rcv.listen(asyncio.Event())
                        except asyncio.CancelledError:
                            raise
                        except Exception as exc:         # (an ExceptionGroup of the stream's error: anyio's task group)
                            log.add("LISTEN.FAILED", s_, type(exc).__name__)
                        else:
                            if lv.get("stopped_session") != s_:
                                return                   # the stream ended: the worker is done
                        if rb.get("backoff_us"):
                            await asyncio.sleep(rb["backoff_us"] / 1e6)

                worker = asyncio.ensure_future(supervise())
            elif sv:
                # ONE Receiver object over several listen() sessions (recv_props.gen_relisten): the application supervises
                # listen() itself - it listens again with the SAME receiver after listen() raised (the broker's stream failed)
                # and, in mode "stop", after listen() returned from a graceful stop whose wait_tasks_timeout had expired
                # (callbacks of the earlier session are still in flight either way)
                one = LiveReceiver(br, max_async_tasks=A, max_prefetch=sc["P"], run_startup=False,
                                   ack_type=AcknowledgeType(sc["ack_type"]) if sc.get("ack_type") else None)

                async def supervise():
                    resumed = 0
                    ev_ = asyncio.Event()
                    while True:
                        try:
                            await one.listen(ev_)
                        except asyncio.CancelledError:
                            raise
                        except Exception as exc:         # (an ExceptionGroup of the stream's error: anyio's task group)
                            log.add("LISTEN.FAILED", lv["sessions"] - 1, type(exc).__name__)
                            if sv.get("backoff_us"):
                                await asyncio.sleep(sv["backoff_us"] / 1e6)
                            if sv.get("event") == "fresh":
                                ev_ = asyncio.Event()
                            continue
                        if resumed >= sv.get("relistens", 0):
                            return
                        resumed += 1
                        if sv.get("pause_us"):
                            await asyncio.sleep(sv["pause_us"] / 1e6)
                        lv["stopped"] = False            # the application resumes the worker
                        if sv.get("event") == "cleared":
                            ev_.clear()
                        else:
                            ev_ = asyncio.Event()
                        log.add("RESUME", resumed)

                worker = asyncio.ensure_future(supervise())
            else:
                worker = asyncio.ensure_future(run_receiver_task(br, receiver_cls=LiveReceiver, **akw))
            # registrations "after the Receiver exists": the worker's first step builds the receiver and starts listening; this
            # callback is queued behind that step and ahead of the first step of the prefetcher it starts
            loop.call_soon(after_construction)
            late_at()
            cn = live.get("cancel")
            if cn:
                # the application that embeds the receiver cancels the run_receiver_task task (the only way it has to end it)
                # and goes on running its loop
                def cancel_worker():
                    if not box.get("cancelled"):
                        box["cancelled"] = True
                        log.add("CANCEL")
                    if not worker.done():
                        worker.cancel()
                        loop.call_later(0.25, cancel_worker)     # (a cancellation arriving while listen() fails can be lost)

                if cn.get("on"):
                    on_event(dict(cn["on"], threads=True), cancel_worker)
                else:
                    loop.call_later(cn["at_us"] / 1e6, cancel_worker)
            done, _ = await asyncio.wait({worker}, timeout=hz)
            if done:
                how = "cancelled" if worker.cancelled() else type(worker.exception()).__name__ if worker.exception() else "returned"
                log.add("WORKER.END", None, how)
                # (after a cancellation by the application: its loop goes on - observe what the callbacks left behind do)
                await asyncio.sleep(1.0 if not cn else max(1.0, hz - loop.time()))
            else:
                log.add("CUT")
            box["n"] = len(log.ev)
            # A cancellation that reaches run_receiver_task in the very moment its listen() fails is lost (the task group raises
            # its children's errors instead of CancelledError and run_receiver_task goes on): cancel until it has ended
            for _ in range(50):
                if worker.done():
                    break
                worker.cancel()
                await asyncio.wait({worker}, timeout=1)
            return log
        arm(request_stop, ev.set)
        after_construction()
        late_at()
        await observe(r.listen(ev))
        return log

    if sc.get("entry") == "start_listen":
        pass
    elif sc.get("cli") is not None:
        import cli_glue
        from taskiq import InMemoryBroker
        # before the virtual loop exists: start_listen runs its own (throw-away) loop; the keyword arguments it
        # hands to the receiver type do not depend on the broker object
        box["cli_kw"] = cli_glue.receiver_kwargs_via_cli(sc["cli"], InMemoryBroker())
    elif sc.get("api") is not None:
        import cli_glue
        from taskiq import InMemoryBroker
        # the programmatic path: the real taskiq.api.run_receiver_task builds the receiver (run_receiver_task has no
        # max_tasks_to_execute / wait_tasks_timeout parameter: such scenarios are never given this path)
        assert sc["N"] is None and sc.get("wtt_us") is None, "scenario: run_receiver_task cannot express N / wait_tasks_timeout"
        akw = dict(sc["api"])
        if akw.get("ack_time") is not None:
            akw["ack_time"] = AcknowledgeType(akw["ack_time"])
        box["cli_kw"] = cli_glue.receiver_kwargs_via_api(akw, InMemoryBroker())
    box["global_names"] = []
    try:
        if sc.get("entry") == "start_listen":
            import cli_glue
            ctl = box["ctl"] = {}

            def get_broker(loop):
                # start_listen is importing the broker: its loop exists and is the current one.  Prepare the scripted broker,
                # the tasks and the messages on that loop (no virtual time passes)
                loop.run_until_complete(main(loop))
                return box["entry"]["br"]

            try:
                cli_glue.run_start_listen(sc["cli"], get_broker, lambda: box["entry"]["receiver"], vloop.VLoop, ctl,
                                          broker_as=(sc.get("entry_opts") or {}).get("broker_as", "object"))
            finally:
                for lp in ctl["policy"].created if "policy" in ctl else []:
                    if not lp.is_closed():
                        vloop.finish(lp)
            log = box["log"]
        elif (sc.get("live") or {}).get("vpool"):
            log = vloop.run_on(vloop.PLoop(), main)
        else:
            log = vloop.run(main)
    finally:
        if box.get("apimod"):
            import concurrent.futures as _cf
            import concurrent.futures.thread as _cft
            import patchall
            patchall.patch_attr(_cft, "ThreadPoolExecutor", box["apimod"], prefix="taskiq")
            patchall.replace_everywhere(_cf, _cf, prefix="taskiq")
        rmod.asyncio = REAL_ASYNCIO
        # process-wide state of taskiq this case touched (the child process runs many cases)
        for n in box["global_names"]:
            AsyncBroker.global_task_registry.pop(n, None)
        async_shared_broker._default_broker = None
    A = sc["A"]
    raw = log.ev[:box["n"]]
    tags = [e[1] for e in raw]
    if sc.get("live") is not None:
        lts, cut = [], "RETURN" not in tags      # several sessions: no LTS trace (direct oracles only)
    else:
        lts, cut = shims.to_lts(raw, A is not None and A > 0)
    return dict(raw=raw, lts=lts, cut=cut, returned="RETURN" in tags, wire=box.get("shown") or {})
