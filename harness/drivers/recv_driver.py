"""Implementation driver for C01 C03 C04 C05: the real Receiver.listen() under the virtual-time loop.

case = dict(A, P, N, wtt_us, stop_us, ends, horizon_us, ack_type, msgs=[dict(at, kind, style, dur, out,
            ack (none | sync | async | future | task | awaitobj | gencoro: what the ack callable is / returns), ack_us (the
            acknowledgement completes that much later), hook_aw = dict(where: pre | post | post_save | on_error, style, us) (a
            middleware hook that is a plain function returning a non-coroutine awaitable),
            wire = how the (valid) message is written on the wire, mw = per extra middleware what each of its hooks does for
            this message (both: see recv_props.decorate_wire / decorate_mw), pre_fail, post_fail, save_fail, psave_fail, onerr_fail, fail_exc (error | cancel | base), fail_after_us, tlabel_us, cleanup_us, payload (byte values of a malformed message))])       (all instants / durations in integer microseconds,
            dur = -1: never ends)
       sc["fmt"]: formatter / serializer of the broker; sc["mws"]: extra recording middlewares
observation = dict(raw=[[t_us, tag, a, b], ...], lts=[Coq event literals], cut, returned, wire={i: printable bytes})"""
import asyncio
import base64
import json
import pickle
import random
import threading
import types
from typing import Any

import shims
import vloop

import taskiq.receiver.receiver as rmod
from taskiq import TaskiqMiddleware
from taskiq.abc.broker import AckableMessage, AsyncBroker
from taskiq.abc.result_backend import AsyncResultBackend
from taskiq.acks import AcknowledgeType
from taskiq.exceptions import NoResultError
from taskiq.formatters.json_formatter import JSONFormatter
from taskiq.kicker import AsyncKicker
from taskiq.message import TaskiqMessage
from taskiq.serializers.pickle import PickleSerializer
from taskiq.receiver import Receiver

REAL_ASYNCIO = rmod.asyncio


class Boom(BaseException):
    pass


# taskiq.labels.LabelType as every released client writes it (the harness' own table: the wire form of a message that is
# not sent through the real kicker is built without asking the code under test)
LT = dict(any=1, int=2, str=3, float=4, bool=5, bytes=6)
GHOST_VALUE = {1: None, 2: 1, 3: "s", 4: 1.5, 5: True, 6: b"x"}


def label_py(tn, v):
    return bytes.fromhex(v) if tn == "bytes" else v


def label_typed(tn, py):
    """what a client writes for a label of a declared type"""
    return base64.b64encode(py).decode() if tn == "bytes" else str(py)


def label_plain(tn, py):
    return base64.b64encode(py).decode() if tn == "bytes" else py


def run_case(sc, opts):
    ids = {}
    box = {"kicked": []}
    by_tid = {}         # task id -> indices of the messages that carry it

    def idx(tid):
        """which scripted message a hook / the backend was called for: by task id; when several messages share one id, by
        the callback task the call runs in (tagged by the shims; tasks it creates inherit the tag)"""
        l = by_tid.get(tid) or []
        if len(l) == 1:
            return l[0]
        try:
            v = getattr(asyncio.current_task(), "_vmsg", None)
        except RuntimeError:
            v = None
        if v is None:
            raise AssertionError("harness: cannot tell which message task id %r belongs to" % (tid,))
        return v

    def ident(m):
        d = m.data if isinstance(m, AckableMessage) else m
        return ids[bytes(d)]

    async def main(loop):
        log = shims.Log(loop)
        box["log"] = log
        shims.install(rmod, log, ident)

        class B(AsyncBroker):
            async def kick(self, m):
                box["kicked"].append(m)

            async def listen(self):
                for m in box["msgs"]:
                    d = m["at"] / 1e6 - loop.time()
                    if d > 0:
                        await asyncio.sleep(d)
                    log.add("TAKE", m["i"])
                    yield m["wire"]
                if sc.get("ends"):
                    log.add("END")
                    return
                await asyncio.Event().wait()

        def fail(i, what):
            """the injected failure of a hook / of the backend: an ordinary exception unless the scenario says otherwise"""
            k = sc["msgs"][i].get("fail_exc", "error")
            if k == "cancel":
                raise asyncio.CancelledError()
            if k == "base":
                raise Boom()
            raise RuntimeError(what)

        async def afail(i, what):
            """same for async hooks / set_result; with fail_after_us the call first awaits: a sleep, or - for `cancel` - a
            future that somebody else cancels (the awaiting callback task is not itself asked to cancel)"""
            m = sc["msgs"][i]
            d = m.get("fail_after_us")
            if d:
                if m.get("fail_exc") == "cancel":
                    fut = loop.create_future()
                    loop.call_later(d / 1e6, fut.cancel)
                    await fut                        # raises CancelledError here, d later
                else:
                    await asyncio.sleep(d / 1e6)
            fail(i, what)

        def awaitable(style, d, done, result=None):
            """what an ack callable / a hook hands back: it completes d us after the call (`done()` is called at that
            instant) and gives `result`.  async = coroutine object; the others are awaitables that are NOT coroutine objects:
            future = asyncio.Future resolved by a timer (the shape of loop.run_in_executor / a client library's future),
            task = asyncio.ensure_future(coroutine), awaitobj = object with __await__ (the work only runs when awaited),
            gencoro = generator-based coroutine (types.coroutine)"""
            async def work():
                if d:
                    await asyncio.sleep(d / 1e6)
                done()
                return result

            if style == "async":
                return work()
            if style == "future":
                fut = loop.create_future()

                def fin():
                    if not fut.done():
                        done()
                        fut.set_result(result)

                if d:
                    loop.call_later(d / 1e6, fin)
                else:
                    fin()
                return fut
            if style == "task":
                return asyncio.ensure_future(work())
            if style == "awaitobj":
                class Later:
                    def __await__(self):
                        return work().__await__()

                return Later()
            if style == "gencoro":
                @types.coroutine
                def gen():
                    return (yield from work().__await__())

                return gen()
            raise AssertionError("scenario: unknown awaitable style %r" % (style,))

        class RB(AsyncResultBackend):
            async def set_result(self, tid, r):
                i = idx(tid)
                log.add("save", i)
                try:
                    if sc["msgs"][i].get("save_fail"):
                        await afail(i, "backend down")
                finally:
                    log.add("save.end", i)       # the attempt to store the result has COMPLETED (stored or failed)

            async def is_result_ready(self, t):
                return True

            async def get_result(self, t, with_logs=False):
                return None

        class Hooks(TaskiqMiddleware):
            def pre_execute(self, m):
                i = idx(m.task_id)
                log.add("hook.pre", i)
                if sc["msgs"][i].get("pre_fail"):
                    fail(i, "hook")
                return m

            async def post_execute(self, m, r):
                i = idx(m.task_id)
                log.add("hook.post", i)
                if sc["msgs"][i].get("post_fail"):
                    await afail(i, "hook")

        class Hooks2(TaskiqMiddleware):
            """the two other hooks of the processing path; only installed for scenarios that make one of them fail"""

            async def post_save(self, m, r):
                i = idx(m.task_id)
                log.add("hook.post_save", i)
                if sc["msgs"][i].get("psave_fail"):
                    await afail(i, "hook")

            def on_error(self, m, r, exc):
                i = idx(m.task_id)
                log.add("hook.on_error", i)
                if sc["msgs"][i].get("onerr_fail"):
                    fail(i, "hook")

        class Hooks3(TaskiqMiddleware):
            """hooks that are plain functions handing back a non-coroutine awaitable (a future of off-loaded work) for the
            messages that ask for it (hook_aw), nothing otherwise; only installed for scenarios that use it"""

            def _h(self, where, m, result):
                h = sc["msgs"][idx(m.task_id)].get("hook_aw")
                if not h or h["where"] != where:
                    return result
                i = idx(m.task_id)
                log.add("hook.aw", i, where)
                return awaitable(h["style"], h.get("us", 0), lambda: log.add("hook.aw.end", i, where), result)

            def pre_execute(self, m):
                return self._h("pre", m, m)

            def post_execute(self, m, r):
                return self._h("post", m, None)

            def post_save(self, m, r):
                return self._h("post_save", m, None)

            def on_error(self, m, r, exc):
                return self._h("on_error", m, None)

        class Stamp(TaskiqMiddleware):
            """client side: a pre_send hook (it runs after the kicker has computed labels_types) that adds labels - tracing /
            correlation / tenant headers - and removes some; only installed for scenarios that send through the kicker"""

            def pre_send(self, message):
                w = box["sending"]

                def do():
                    for k, v in w["stamps"]:
                        message.labels[k] = v
                    for k, _ in w["ghost"]:
                        message.labels.pop(k, None)
                    return message

                if w.get("pre_send") == "async":
                    async def later():
                        return do()

                    return later()
                return do()

        def hook_exc(kind):
            return asyncio.CancelledError() if kind == "cancel" else Boom() if kind == "base" else RuntimeError("hook")

        async def hook_work(i, tag, s, ret, log_begin):
            """one hook invocation as a coroutine: (fails at once) | suspends `us` | (fails) | returns; `hook.end` when it
            has really finished - whoever awaits it, however it ends"""
            if log_begin:
                log.add("hook.begin", i, tag)
            try:
                fk, us = s.get("fail"), s.get("us", 0)
                if fk and s.get("fail_at") == "begin":
                    raise hook_exc(fk)
                if us:
                    if fk == "cancel":
                        fut = loop.create_future()      # a shared future that somebody else cancels
                        loop.call_later(us / 1e6, fut.cancel)
                        await fut
                    else:
                        await asyncio.sleep(us / 1e6)
                if fk:
                    raise hook_exc(fk)
                return ret
            finally:
                log.add("hook.end", i, tag)

        def hook_call(i, tag, s, ret):
            """one hook invocation of a middleware whose hooks are plain functions: returns / raises at once, or hands back
            an awaitable (coroutine object, Future resolved by a timer, Task, object with __await__, generator-based
            coroutine) that completes - or fails - later"""
            log.add("hook.begin", i, tag)
            style, fk, us = s.get("style", "sync"), s.get("fail"), s.get("us", 0)
            if style == "sync" or (fk and s.get("fail_at") == "begin" and style != "coro"):
                try:
                    if fk:
                        raise hook_exc(fk)
                    return ret
                finally:
                    log.add("hook.end", i, tag)
            if style == "future":
                fut = loop.create_future()
                ended = []

                def end(*_):
                    if not ended:
                        ended.append(1)
                        log.add("hook.end", i, tag)

                def fin():
                    if fut.done():
                        return
                    end()
                    if fk == "cancel":
                        fut.cancel()
                    elif fk:
                        fut.set_exception(hook_exc(fk))
                    else:
                        fut.set_result(ret)

                fut.add_done_callback(end)          # cancelled from outside before the timer
                if us:
                    loop.call_later(us / 1e6, fin)
                else:
                    fin()
                return fut
            coro = hook_work(i, tag, s, ret, False)
            if style == "coro":
                return coro
            if style == "task":
                return asyncio.ensure_future(coro)
            if style == "awaitobj":
                class Later:
                    def __await__(self):
                        return coro.__await__()

                return Later()
            if style == "gencoro":
                @types.coroutine
                def gen():
                    return (yield from coro.__await__())

                return gen()
            raise AssertionError("scenario: unknown hook style %r" % (style,))

        def make_mw(k, decl, hooks):
            """recording middleware number k: overrides exactly `hooks`, as `async def` or as plain functions; what an
            invocation does is the message's own spec m["mw"][k][hook] (nothing: returns at once)"""
            def spec(m, where):
                i = idx(m.task_id)
                per = sc["msgs"][i].get("mw") or []
                return i, "%d:%s" % (k, where), (per[k].get(where) if k < len(per) else None) or {}

            if decl == "async":
                async def pre_execute(self, m):
                    return await hook_work(*spec(m, "pre"), m, True)

                async def post_execute(self, m, r):
                    return await hook_work(*spec(m, "post"), None, True)

                async def post_save(self, m, r):
                    return await hook_work(*spec(m, "post_save"), None, True)

                async def on_error(self, m, r, exc):
                    return await hook_work(*spec(m, "on_error"), None, True)
            else:
                def pre_execute(self, m):
                    return hook_call(*spec(m, "pre"), m)

                def post_execute(self, m, r):
                    return hook_call(*spec(m, "post"), None)

                def post_save(self, m, r):
                    return hook_call(*spec(m, "post_save"), None)

                def on_error(self, m, r, exc):
                    return hook_call(*spec(m, "on_error"), None)
            fns = dict(pre=("pre_execute", pre_execute), post=("post_execute", post_execute),
                       post_save=("post_save", post_save), on_error=("on_error", on_error))
            return type("Recording%d" % k, (TaskiqMiddleware,), dict(fns[h] for h in hooks))()

        br = B()
        fmt = sc.get("fmt", "proxy-json")
        if fmt == "json":
            br.with_formatter(JSONFormatter())
        elif fmt == "proxy-pickle":
            br.with_serializer(PickleSerializer())
        elif fmt != "proxy-json":
            raise AssertionError("scenario: unknown format %r" % (fmt,))
        br.result_backend = RB()
        br.add_middlewares(Hooks())
        if any(m.get("psave_fail") or m.get("onerr_fail") for m in sc["msgs"]):
            br.add_middlewares(Hooks2())
        if any(m.get("hook_aw") for m in sc["msgs"]):
            br.add_middlewares(Hooks3())
        for k, mw in enumerate(sc.get("mws") or []):
            br.add_middlewares(make_mw(k, mw["decl"], mw["hooks"]))
        if any((m.get("wire") or {}).get("via") == "kicker" for m in sc["msgs"]):
            br.add_middlewares(Stamp())

        def finish(i, out):
            if out == "raise":
                raise ValueError("task failed")
            if out == "nores":
                raise NoResultError()
            if out == "base":
                raise Boom()
            return i

        @br.task(task_name="ta")
        async def ta(i: int, dur: int, out: str, extra: Any = None):
            log.add("body.in", i)
            try:
                try:
                    if dur < 0:
                        await asyncio.Event().wait()
                    elif dur > 0:
                        await asyncio.sleep(dur / 1e6)
                except asyncio.CancelledError:
                    # slow cancellation: the body keeps awaiting while it cleans up (closing a connection, ...)
                    cl = sc["msgs"][i].get("cleanup_us")
                    if cl:
                        log.add("body.cleanup", i)
                        await asyncio.sleep(cl / 1e6)
                    raise
                return finish(i, out)
            finally:
                log.add("body.out", i)       # outermost finally: the body has REALLY ended

        @br.task(task_name="ts")
        def ts(i: int, dur: int, out: str, extra: Any = None):
            log.add("body.in", i)
            try:
                return finish(i, out)
            finally:
                log.add("body.out", i)

        async def on_the_wire(i, m, name, w):
            """the bytes of one VALID message, written as the scenario says (recv_props.decorate_wire)"""
            tid = w["tid"]
            user = [(k, tn, label_py(tn, v), typed) for k, tn, v, typed in w["labels"]]
            if m.get("tlabel_us") is not None:
                user.insert(0, ("timeout", "float", m["tlabel_us"] / 1e6, bool(w.get("timeout_typed"))))
            pos = [i, m["dur"], m["out"]]
            n = dict(pos=3, kw=0, mixed=1)[w.get("argform", "pos")]
            args, kwargs = pos[:n], dict(list(zip(("i", "dur", "out"), pos))[n:])
            if "extra" in w:
                kwargs["extra"] = w["extra"]
            if w["via"] == "kicker":
                task = {"ta": ta, "ts": ts}.get(name)
                kicker = task.kicker() if task is not None else AsyncKicker(task_name=name, broker=br, labels={})
                labels = {k: py for k, _, py, _ in user}
                labels.update({k: GHOST_VALUE[t] for k, t in w["ghost"]})     # typed by the kicker, removed by the middleware
                box["sending"] = w
                n0 = len(box["kicked"])
                await kicker.with_task_id(tid).with_labels(**labels).kiq(*args, **kwargs)
                assert len(box["kicked"]) == n0 + 1, "harness: kiq did not hand exactly one message to broker.kick"
                return box["kicked"][-1].message
            labels, types_ = {}, {}
            for k, tn, py, typed in user:
                if typed:
                    labels[k], types_[k] = label_typed(tn, py), LT[tn]
                else:
                    labels[k] = label_plain(tn, py)
            for k, v in w["stamps"]:
                labels[k] = v
            for k, t in w["ghost"]:
                types_[k] = t
            lt = types_ if w["lt"] == "dict" else None
            assert lt is not None or not types_, "scenario: typed label without labels_types"
            if w["via"] == "model":
                return br.formatter.dumps(TaskiqMessage(task_id=tid, task_name=name, labels=labels, labels_types=lt,
                                                        args=args, kwargs=kwargs)).message
            assert w["via"] == "raw", "scenario: unknown via %r" % (w["via"],)
            d = dict(task_id=tid, task_name=name, labels=labels, labels_types=lt, args=args, kwargs=kwargs)
            if w["lt"] == "omit":
                del d["labels_types"]
            d.update(w.get("top") or {})
            tx = w.get("text") or {}
            keys = list(d)
            random.Random(tx.get("order", 0)).shuffle(keys)
            d = {k: d[k] for k in keys}
            if fmt == "proxy-pickle":
                return pickle.dumps(d, protocol=tx.get("proto", 4))
            return json.dumps(d, ensure_ascii=bool(tx.get("ascii", True)),
                              separators=(",", ":") if tx.get("compact") else (", ", ": ")).encode("utf-8")

        msgs = []
        shown = {}
        for i, m in enumerate(sc["msgs"]):
            if m["kind"] != "bad":
                by_tid.setdefault(m["wire"]["tid"] if m.get("wire") else str(i), []).append(i)
        for i, m in enumerate(sc["msgs"]):
            if m["kind"] == "bad":
                # a fresh bytes object per message (never the receiver's own QUEUE_DONE object, whatever its value)
                data = bytes(bytearray(m["payload"])) if m.get("payload") is not None else b"\xff not a message %d" % i
                assert data is not rmod.QUEUE_DONE and bytes(data) not in ids, "scenario: duplicate payload"
            else:
                name = "unknown_task" if m["kind"] == "unk" else ("ts" if m.get("style") == "sync" else "ta")
                if m.get("wire"):
                    data = await on_the_wire(i, m, name, m["wire"])
                    shown[str(i)] = repr(bytes(data))[:600]
                else:
                    labels = {}
                    if m.get("tlabel_us") is not None:
                        labels["timeout"] = m["tlabel_us"] / 1e6
                    data = br.formatter.dumps(TaskiqMessage(task_id=str(i), task_name=name, labels=labels,
                                                            args=[i, m["dur"], m["out"]], kwargs={})).message
                assert bytes(data) not in ids, "scenario: two messages with the same bytes"
            ids[bytes(data)] = i
            ack = m.get("ack", "none")
            # `ack` is logged when the ack callable is invoked, `ack.end` when the acknowledgement has COMPLETED
            if ack == "sync":
                def _ack(i=i):
                    log.add("ack", i)
                    log.add("ack.end", i)
                wire = AckableMessage(data=data, ack=_ack)
            elif ack == "async" and not m.get("ack_us"):
                async def _ack(i=i):
                    log.add("ack", i)
                    log.add("ack.end", i)
                wire = AckableMessage(data=data, ack=_ack)
            elif ack != "none":
                # a plain callable returning an awaitable that completes ack_us later
                def _ack(i=i, style=ack, d=m.get("ack_us", 0)):
                    log.add("ack", i, style)
                    return awaitable(style, d, lambda: log.add("ack.end", i))
                wire = AckableMessage(data=data, ack=_ack)
            else:
                wire = data
            msgs.append(dict(i=i, at=m["at"], wire=wire))
        box["msgs"] = msgs
        box["shown"] = shown

        A = sc["A"]
        if sc.get("cli") is not None or sc.get("api") is not None:
            # configuration through the real command-line path / through the real run_receiver_task (harness/cli_glue.py)
            r = Receiver(br, run_startup=False, **box["cli_kw"])
        else:
            r = Receiver(br, max_async_tasks=A, max_prefetch=sc["P"], max_tasks_to_execute=sc["N"], run_startup=False,
                         wait_tasks_timeout=None if sc.get("wtt_us") is None else sc["wtt_us"] / 1e6,
                         ack_type=AcknowledgeType(sc["ack_type"]) if sc.get("ack_type") else None)
        shims.wrap_receiver(r, log, ident, A, sc["P"])
        ev = shims.make_event(log)
        if sc.get("stop_us") is not None:
            loop.call_later(sc["stop_us"] / 1e6, ev.set)
        so = sc.get("stop_on")
        if so:
            # a stop request placed relative to something that happens in the run: `plus_us` after the first raw-log entry
            # (tag, msg) - e.g. while message i's body is handling its cancellation
            plain_add, main_thread = log.add, threading.current_thread()

            def add(tag, a=None, b=None):
                plain_add(tag, a, b)
                if tag == so["tag"] and a == so["msg"] and not box.get("so_armed") and threading.current_thread() is main_thread:
                    box["so_armed"] = True
                    loop.call_later(so.get("plus_us", 0) / 1e6, lambda: ev.is_set() or ev.set())

            log.add = add
        hz = sc["horizon_us"] / 1e6
        loop.call_later(hz - 0.001, lambda: log.add("CUTMARK"))
        try:
            await asyncio.wait_for(r.listen(ev), hz)
            log.add("RETURN")
            # keep observing for a moment: nothing may start after the return
            await asyncio.sleep(1.0)
        except asyncio.TimeoutError:
            log.add("CUT")
        box["n"] = len(log.ev)      # what follows is the harness' own clean-up (cancelling left-over tasks)
        return log

    if sc.get("cli") is not None:
        import cli_glue
        from taskiq import InMemoryBroker
        # before the virtual loop exists: start_listen runs its own (throw-away) loop; the keyword arguments it
        # hands to the receiver type do not depend on the broker object
        box["cli_kw"] = cli_glue.receiver_kwargs_via_cli(sc["cli"], InMemoryBroker())
    elif sc.get("api") is not None:
        import cli_glue
        from taskiq import InMemoryBroker
        # the programmatic path: the real taskiq.api.run_receiver_task builds the receiver (run_receiver_task has no
        # max_tasks_to_execute / wait_tasks_timeout parameter: such scenarios are never given this path)
        assert sc["N"] is None and sc.get("wtt_us") is None, "scenario: run_receiver_task cannot express N / wait_tasks_timeout"
        akw = dict(sc["api"])
        if akw.get("ack_time") is not None:
            akw["ack_time"] = AcknowledgeType(akw["ack_time"])
        box["cli_kw"] = cli_glue.receiver_kwargs_via_api(akw, InMemoryBroker())
    try:
        log = vloop.run(main)
    finally:
        rmod.asyncio = REAL_ASYNCIO
    A = sc["A"]
    raw = log.ev[:box["n"]]
    lts, cut = shims.to_lts(raw, A is not None and A > 0)
    tags = [e[1] for e in raw]
    return dict(raw=raw, lts=lts, cut=cut, returned="RETURN" in tags, wire=box.get("shown") or {})
