"""Implementation driver for C19: real exception objects through the real TaskiqResult round trips.

A case is an exception graph given by descriptors:
  {"nodes": [{"cls": <class kind>, "args": [<arg kind>, ...], "set_args": bool, "lock_attr": bool, "raised": bool,
              "cause": idx|None, "context": idx|None, "suppress": bool}, ...]}          (root = node 0)
For every node the driver builds a REAL exception object, measures - with json / pickle / repr / str / pydantic /
the class constructors themselves, never with taskiq's serialization code - the capability flags the Coq model
takes as input, then stores and loads a real TaskiqResult through JSON text, JSON dict and pickle and abstracts
each loaded object back (class kind, name, argument forms, cause / context / suppress tree).
Family "seq" (see run_seq): several store / load steps in ONE (forked) process with environment changes in between, the
flags measured again at every step. Nothing here re-implements prepare_exception / exception_to_python.
Every case runs in a supervised child process (see Supervisor): a store / load that never finishes is the outcome "hang"."""
import collections
import datetime
import decimal
import enum
import json
import os
import pickle
import select
import signal
import sys
import threading
import time
import traceback
import types
from inspect import getmro
from typing import Any, Tuple

import pydantic

import taskiq.exceptions as TX
import taskiq.serialization as S
from taskiq.compat import model_dump, model_dump_json, model_validate, model_validate_json
from taskiq.message import BrokerMessage, TaskiqMessage
from taskiq.result import TaskiqResult
from taskiq.serialization import _UnpickleableExceptionWrapper as Wrapper

ZOO_NAME = "excser_zoo"
ZOO_SRC = r'''
import dataclasses
import threading
class ModLevel(Exception): pass
class ModBase(BaseException): pass
class ModSubVal(ValueError): pass
class Outer:
    class Nested(Exception): pass
    class NestedFalsy(Exception):
        def __bool__(self): return False
    class Inner:
        class Deep(KeyError): pass
class Rewrites(Exception):
    def __init__(self, a, b=2): super().__init__(f"{a}:{b}")
class KwOnly(Exception):
    def __init__(self, *, code): super().__init__(code)
class TwoPos(Exception):
    def __init__(self, a, b): super().__init__(a, b)
class ExtraPos(Exception):
    def __init__(self, a, b): super().__init__(a)
class SubRewrites(Rewrites): pass
class SubTwoPos(TwoPos): pass
class WithLock(Exception):
    def __init__(self, *a):
        super().__init__(*a)
        self.lock = threading.Lock()
class StrRaises(Exception):
    def __str__(self): raise RuntimeError("str")
    def __repr__(self): raise RuntimeError("repr")
class ReduceBad(Exception):
    def __reduce__(self): raise TypeError("no reduce")
class BadRepr:
    def __repr__(self): raise RuntimeError("r")
    __str__ = __repr__
class OnlyStr:
    def __repr__(self): raise RuntimeError("r")
    def __str__(self): return "onlystr"
class Mixin: pass
class MixinArgs:
    def __init__(self, *a): self.a = a
class ModMixin(Mixin, Exception): pass
# --- exception classes whose INSTANCES are falsy (or cannot be tested for truth at all): "is there an exception / a
# cause / a context / a candidate" must be decided by `is None`, never by the truth value of the object
class FalsyLen(Exception):
    def __len__(self): return 0
class FalsyBool(Exception):
    def __bool__(self): return False
class FalsySubVal(ValueError):
    def __bool__(self): return False
class FalsyBase(BaseException):
    def __len__(self): return 0
class LenArgs(Exception):
    """container-like: len() = number of args - an instance without args is falsy, one with args is not"""
    def __len__(self): return len(self.args)
class BoolRaises(Exception):
    """its truth value cannot even be taken"""
    def __bool__(self): raise RuntimeError("bool")
class LenNegative(Exception):
    """bool() raises ValueError: __len__() should return >= 0"""
    def __len__(self): return -1
class FalsyTwoPos(TwoPos):
    def __bool__(self): return False
class FalsyRewrites(Rewrites):
    def __len__(self): return 0
class FalsyWithLock(WithLock):
    def __bool__(self): return False
class FalsyStrRaises(StrRaises):
    def __len__(self): return 0
class FalsyMixin(Mixin, Exception):
    def __len__(self): return 0
class FalsyEq(Exception):
    """value equality AND falsy"""
    def __eq__(self, o): return type(o) is type(self) and o.args == self.args
    def __hash__(self): return 11
    def __bool__(self): return False
@dataclasses.dataclass
class FalsyData(Exception):
    """a dataclass exception (generated __eq__, unhashable) that is falsy while its count is 0 - here: always"""
    code: object
    def __len__(self): return 0
def make_falsy_locals():
    class LocalFalsy(Exception):
        def __bool__(self): return False
    class LocalSubFalsy(FalsyLen): pass              # not picklable itself, its nearest base is - and is falsy
    class LocalSubFalsyVal(FalsySubVal): pass
    class LocalFalsyMixin(MixinArgs, Exception):
        def __len__(self): return 0
    class LocalFalsyEq(FalsyEq): pass
    class LocalTruthySub(FalsyLen):                  # truthy itself - its nearest picklable base class is falsy
        def __len__(self): return 1
    return LocalFalsy, LocalSubFalsy, LocalSubFalsyVal, LocalFalsyMixin, LocalFalsyEq, LocalTruthySub
def _zero(self): return 0
def _false(self): return False
class HttpError(Exception):
    """pickles (by reference + args) but does not UNpickle: cls(*args) does not fit the signature"""
    def __init__(self, status, reason):
        self.status, self.reason = status, reason
        super().__init__(f"{status} {reason}")
def _boom(*a): raise RuntimeError("cannot be rebuilt")
class ReduceLoadsRaises:
    """dumps fine, the callable named by __reduce__ raises at load time"""
    def __reduce__(self): return (_boom, (1,))
class SetstateRaises:
    def __init__(self): self.x = 1
    def __setstate__(self, st): raise ValueError("bad state")
class StrSub(str): pass
class Color(enum.IntEnum):
    RED = 1
def make_locals():
    class Local(Exception): pass
    class LocalSubVal(ValueError): pass
    class LocalSubTwoPos(TwoPos): pass
    class LocalBase(BaseException): pass
    class LocalObj: pass
    class LocalMixin(Mixin, Exception): pass
    class LocalMixinArgs(MixinArgs, Exception): pass
    return Local, LocalSubVal, LocalSubTwoPos, LocalBase, LocalObj, LocalMixin, LocalMixinArgs
# --- exception classes with VALUE-based equality (two distinct objects may compare equal): the cycle guard of
# prepare_exception must go by object identity, never by ==/hash of the exception
class EqHash(Exception):
    """hand-written value equality with a matching hash"""
    def __eq__(self, o): return type(o) is type(self) and o.args == self.args
    def __hash__(self): return hash(type(self).__name__)
class EqNoHash(Exception):
    """__eq__ without __hash__: instances are unhashable"""
    def __eq__(self, o): return type(o) is type(self) and o.args == self.args
class EqTrue(Exception):
    """equal to everything"""
    def __eq__(self, o): return True
    def __hash__(self): return 0
class EqRaises(Exception):
    """comparing it raises"""
    def __eq__(self, o): raise RuntimeError("eq")
    __hash__ = Exception.__hash__
class SubEqVal(ValueError):
    def __eq__(self, o): return isinstance(o, ValueError) and o.args == self.args
    def __hash__(self): return 7
@dataclasses.dataclass
class DataExc(Exception):
    """a dataclass exception: generated __eq__ over the fields, __hash__ = None"""
    account: object
    limit: object
@dataclasses.dataclass(unsafe_hash=True)
class DataHashExc(Exception):
    code: object
def make_eq_locals():
    class LocalEq(Exception):
        def __eq__(self, o): return type(o) is type(self) and o.args == self.args
        def __hash__(self): return 1
    @dataclasses.dataclass
    class LocalData(Exception):
        code: object
    return LocalEq, LocalData
def _dyn_eq(self, o): return type(o) is type(self) and o.args == self.args
# --- values that are themselves taskiq / pydantic objects with their own serialisation hooks, and objects whose
# __repr__ / __str__ / __reduce__ / __getstate__ call back into taskiq's result serialisation (or raise afterwards):
# storing a result is legitimately RE-ENTERED - on the same thread or, through a helper thread, on another one -
# while an outer store is in progress. Every hook logs how many calls of taskiq.serialization.prepare_exception are
# active on its own stack (evidence only).
def _nest():
    f, n = sys._getframe(1), 0
    while f is not None:
        c = f.f_code
        if c.co_name == "prepare_exception" and c.co_filename.replace("\\", "/").endswith("taskiq/serialization.py"):
            n += 1
        f = f.f_back
    return n
def _log(kind, enters=1):
    """enters=1: the hook goes on to store a result itself, i.e. to call prepare_exception one level deeper"""
    HOOK_LOG.append((kind, _nest() + enters, threading.current_thread() is threading.main_thread()))
def _child(err=None, value=None):
    return TaskiqResult(is_err=err is not None, return_value=value, execution_time=0.25, error=err)
def _in_thread(f):
    box = []
    def target():
        try:
            box.append(f())
        except BaseException as x:
            box.append(x)
    t = threading.Thread(target=target, daemon=True)
    t.start()
    t.join()
    if isinstance(box[0], BaseException):
        raise box[0]
    return box[0]
class ProbeErr(Exception):
    """an ordinary picklable exception that notes the nesting depth at which it is pickled"""
    def __reduce__(self):
        _log("probe", 0)
        return super().__reduce__()
class ChildTaskFailed(Exception):
    """what a parent task raises when a child task failed: the child's (failed) result rides on the instance"""
    def __init__(self, *a):
        super().__init__(*a)
        self.child_result = _child(ProbeErr("child failed", 3))
class ReentStr(Exception):
    """its text form is the JSON dump of a failed result"""
    def __str__(self):
        _log("excstr")
        return "failed: " + model_dump_json(_child(ValueError("in str")))
    __repr__ = __str__
class ReentReduce(Exception):
    """its __reduce__ pickles a failed result of its own before answering"""
    def __reduce__(self):
        _log("excreduce")
        pickle.dumps(_child(ProbeErr("in reduce")))
        return super().__reduce__()
class ReentReduceRaises(Exception):
    """... and then refuses to be pickled"""
    def __reduce__(self):
        _log("excreduceraises")
        S.prepare_exception(ProbeErr("x"), pickle)
        raise TypeError("no reduce after all")
class ThreadReduceExc(Exception):
    """its __reduce__ lets a helper thread pickle a failed result and waits for it"""
    def __reduce__(self):
        _log("excthreadreduce")
        _in_thread(lambda: pickle.dumps(_child(ProbeErr("in thread"))))
        return super().__reduce__()
CHILD_JSON = ('{"is_err": true, "log": null, "return_value": null, "execution_time": 0.1, "labels": {}, "error": '
              '{"exc_type": "ValueError", "exc_message": ["boom", 3], "exc_module": "builtins", "exc_cause": '
              '{"exc_type": "Gone", "exc_message": [], "exc_module": "no.where", "exc_cause": null, "exc_context": null, '
              '"exc_suppress_context": false}, "exc_context": null, "exc_suppress_context": false}}')
class LoadsResult(Exception):
    """its constructor LOADS the stored result of the failed child (JSON): whenever taskiq re-creates the exception from a
    stored error - cls(*args) in exception_to_python - exception_to_python is re-entered"""
    def __init__(self, *a):
        super().__init__(*a)
        _log("ctorloads", 0)
        self.child = model_validate_json(TaskiqResult, CHILD_JSON)
def make_reent_locals():
    class LocalChildFailed(ChildTaskFailed): pass
    class LocalReentStr(ReentStr): pass
    return LocalChildFailed, LocalReentStr
class _SameType:
    def __eq__(self, o): return type(o) is type(self)
    def __hash__(self): return 5
class ReprStores(_SameType):
    """picklable, not JSON; repr() = a report that embeds the JSON dump of a failed result"""
    def __repr__(self):
        _log("repr")
        return "<report %s>" % model_dump_json(_child(ValueError("in repr")))
class StrStores(_SameType):
    """un-repr-able; str() stores a failed result (JSON dict) on the way"""
    def __repr__(self): raise RuntimeError("r")
    def __str__(self):
        _log("str")
        return "report(%d)" % len(model_dump(_child(KeyError("in str"))))
class ReduceStores(_SameType):
    def __reduce__(self):
        _log("reduce")
        pickle.dumps(_child(ProbeErr("in reduce")))
        return (ReduceStores, ())
class GetstateStores(_SameType):
    def __getstate__(self):
        _log("getstate")
        S.prepare_exception(ProbeErr("gs"), pickle)
        return {"x": 1}
class ReduceStoresRaises(_SameType):
    """stores a failed result, then turns out to be unpicklable"""
    def __reduce__(self):
        _log("reduceraises")
        pickle.dumps(_child(ProbeErr("in reduce")))
        raise TypeError("cannot pickle after all")
    def __repr__(self): return "<ReduceStoresRaises>"
def _rebuild_converting():
    _log("load", 0)
    S.exception_to_python(S.ExceptionRepr(exc_type="ValueError", exc_message=("at load",), exc_module="builtins",
                                          exc_cause=S.ExceptionRepr(exc_type="Gone", exc_message=(), exc_module="no.where")))
    return LoadConverts()
class LoadConverts(_SameType):
    """unpickling it converts a stored error back to an exception (exception_to_python re-entered at LOAD time)"""
    def __reduce__(self): return (_rebuild_converting, ())
class ThreadReduce(_SameType):
    """its __reduce__ lets a helper THREAD pickle a failed result and waits for it"""
    def __reduce__(self):
        _log("threadreduce")
        _in_thread(lambda: pickle.dumps(_child(ProbeErr("in thread"))))
        return (ThreadReduce, ())
class ThreadRepr(_SameType):
    """its repr() lets a helper THREAD dump a failed result as JSON and waits for it; unpicklable"""
    def __init__(self): self.lock = threading.Lock()
    def __repr__(self):
        _log("threadrepr")
        return "<threaded %s>" % _in_thread(lambda: model_dump_json(_child(ValueError("in thread"))))
class PydModel(pydantic.BaseModel):
    x: int = 1
    tags: list = []
class SubResult(TaskiqResult):
    """a subclass of the result model (applications add fields)"""
    note: str = "n"
def shadow_fn(*a): raise SystemError("trap: a resolved non-exception object was CALLED")
shadow_inst = 5
'''
ZOO = None
CLASSES = {}
HOOK_LOG = []        # (hook kind, active prepare_exception calls on the hook's own stack, on the main thread?) - one list for
                     # every (re-)executed copy of the generated module
LOCAL_OBJ = None
UNWANTED = (Exception, BaseException, object)


def make_table(zoo):
    """class kind -> class object, from one executed copy of the generated source (new class objects on every call)"""
    import builtins
    t = {}
    Local, LocalSubVal, LocalSubTwoPos, LocalBase, local_obj, LocalMixin, LocalMixinArgs = zoo.make_locals()
    for n in ("ValueError KeyError OSError FileNotFoundError KeyboardInterrupt SystemExit StopIteration GeneratorExit "
              "AssertionError ImportError ZeroDivisionError RuntimeError Exception BaseException UnicodeDecodeError "
              "ExceptionGroup LookupError").split():
        t[n] = getattr(builtins, n)
    for n in ("ModLevel ModBase ModSubVal Rewrites KwOnly TwoPos ExtraPos SubRewrites SubTwoPos WithLock StrRaises "
              "ReduceBad FalsyLen FalsyBool EqHash EqNoHash EqTrue EqRaises SubEqVal DataExc DataHashExc "
              "FalsySubVal FalsyBase LenArgs BoolRaises LenNegative FalsyTwoPos FalsyRewrites FalsyWithLock FalsyStrRaises "
              "FalsyMixin FalsyEq FalsyData "
              "ProbeErr ChildTaskFailed ReentStr ReentReduce ReentReduceRaises ThreadReduceExc LoadsResult").split():
        t[n] = getattr(zoo, n)
    t["LocalChildFailed"], t["LocalReentStr"] = zoo.make_reent_locals()
    LocalEq, LocalData = zoo.make_eq_locals()
    LocalFalsy, LocalSubFalsy, LocalSubFalsyVal, LocalFalsyMixin, LocalFalsyEq, LocalTruthySub = zoo.make_falsy_locals()
    t.update({
        "NestedFalsy": zoo.Outer.NestedFalsy, "LocalFalsy": LocalFalsy, "LocalSubFalsy": LocalSubFalsy,
        "LocalSubFalsyVal": LocalSubFalsyVal, "LocalFalsyMixin": LocalFalsyMixin, "LocalFalsyEq": LocalFalsyEq,
        "LocalTruthySub": LocalTruthySub,
        "DynFalsy": type("DynFalsy", (Exception,), {"__module__": "nowhere.mod", "__len__": zoo._zero}),
        "DynFalsyHere": type("DynFalsyHere", (ValueError,), {"__module__": ZOO_NAME, "__bool__": zoo._false}),
        "DynFalsyNoMod": type("DynFalsyNoMod", (Exception,), {"__module__": None, "__len__": zoo._zero}),
        "DynFalsyEq": type("DynFalsyEq", (Exception,), {"__module__": "nowhere.mod", "__eq__": zoo._dyn_eq,
                                                        "__bool__": zoo._false}),
        "LocalEq": LocalEq, "LocalData": LocalData,
        "DynEq": type("DynEq", (Exception,), {"__module__": "nowhere.mod", "__eq__": zoo._dyn_eq}),
        "DynEqHere": type("DynEqHere", (KeyError,), {"__module__": ZOO_NAME, "__eq__": zoo._dyn_eq,
                                                      "__hash__": lambda self: 3}),
        "Nested": zoo.Outer.Nested, "Deep": zoo.Outer.Inner.Deep,
        "Local": Local, "LocalSubVal": LocalSubVal, "LocalSubTwoPos": LocalSubTwoPos, "LocalBase": LocalBase,
        "LocalMixin": LocalMixin, "LocalMixinArgs": LocalMixinArgs, "ModMixin": zoo.ModMixin,
        "DynMixin": type("DynMixin", (zoo.Mixin, Exception), {"__module__": "nowhere.mod"}),
        "Dyn": type("Dyn", (Exception,), {"__module__": "nowhere.mod"}),
        "DynHere": type("DynHere", (ValueError,), {"__module__": ZOO_NAME}),
        "DynK": type("DynK", (KeyError,), {"__module__": ZOO_NAME}),
        "DynNoMod": type("DynNoMod", (Exception,), {"__module__": None}),
        "JSONDecodeError": json.JSONDecodeError, "OSError2": OSError,
        "NoResultError": TX.NoResultError, "TaskiqResultTimeoutError": TX.TaskiqResultTimeoutError,
        # names shadowed by another object of the module (family "shadow": outside the statement's class list)
        "ShadowFn": type("shadow_fn", (Exception,), {"__module__": ZOO_NAME}),
        "ShadowInst": type("shadow_inst", (Exception,), {"__module__": ZOO_NAME}),
        "ShadowExc": type("ModSubVal", (Exception,), {"__module__": ZOO_NAME}),
        "ShadowTwoPos": type("TwoPos", (Exception,), {"__module__": ZOO_NAME}),
    })
    return t, local_obj


def exec_zoo(mod):
    mod.__dict__.update(enum=enum, sys=sys, pickle=pickle, json=json, pydantic=pydantic, S=S, TaskiqResult=TaskiqResult,
                        model_dump_json=model_dump_json, model_dump=model_dump, model_validate_json=model_validate_json,
                        HOOK_LOG=HOOK_LOG)
    exec(compile(ZOO_SRC, "<excser_zoo>", "exec"), mod.__dict__)
    return mod


def install_zoo(same_module=False):
    """(re)create the generated module and the class table: a NEW module object registered under ZOO_NAME, or
    (same_module, = importlib.reload) the source executed again in the dict of the existing module object.
    Either way every generated class is a new class object afterwards."""
    global ZOO, LOCAL_OBJ
    if not (same_module and ZOO is not None):
        ZOO = types.ModuleType(ZOO_NAME)
        sys.modules[ZOO_NAME] = ZOO
    exec_zoo(ZOO)
    table, LOCAL_OBJ = make_table(ZOO)
    CLASSES.clear()
    CLASSES.update(table)


def setup(opts):
    """generated module registered in sys.modules before both store and load (so its classes are importable)"""
    install_zoo()


def _circ():
    a = [1]
    a.append(a)
    return a


def _with_lock(o):
    o.lock = threading.Lock()
    return o


def _res_chain():
    """failed child whose own error has a cause (not importable, unpicklable argument) and a context"""
    e = KeyError("k")
    e.__cause__ = CLASSES["Local"]("deep", lambda: 0)
    e.__context__ = ZOO.ProbeErr("ctx")
    return ZOO._child(e)


def _res_cyc():
    """failed child whose own error chain is cyclic (the inner store has its own path to cut)"""
    a, b = CLASSES["Local"]("a"), CLASSES["Local"]("b", {1, 2})
    a.__cause__, b.__context__ = b, a
    return ZOO._child(a)


def _res_nested():
    """failed child whose error carries the failed result of ITS child: the store is re-entered twice"""
    return ZOO._child(CLASSES["ModLevel"]("grandchild failed", ZOO._child(ZOO.ProbeErr("leaf"))))


ARGS = {
    # JSON-native, equal after a round trip
    "int": lambda: 1, "neg": lambda: -7, "zero": lambda: 0, "big": lambda: 2**70, "big400": lambda: 10**400,
    "str": lambda: "x", "empty": lambda: "", "uni": lambda: "ünï☃", "astral": lambda: "\U0001f600",
    "none": lambda: None, "true": lambda: True, "false": lambda: False,
    "float": lambda: 1.5, "negzero": lambda: -0.0, "fmax": lambda: 1.7976931348623157e308, "denorm": lambda: 5e-324,
    "fint": lambda: 1e22, "list": lambda: [1, 2], "nested": lambda: [[1, "a"], {"k": [None, True, 2.5]}],
    "dict": lambda: {"a": 1}, "dict2": lambda: {"k": [1, {"z": None}], "": "e"}, "elist": lambda: [], "edict": lambda: {},
    # accepted by Python's json, not equal afterwards
    "nan": lambda: float("nan"), "inf": lambda: float("inf"), "ninf": lambda: float("-inf"),
    "tuple": lambda: (1, 2), "etuple": lambda: (), "intkey": lambda: {1: 2}, "boolkey": lambda: {True: 1, None: 2},
    "listnan": lambda: [float("nan")], "listtuple": lambda: [(1,), "x"], "odict": lambda: collections.OrderedDict(a=1),
    "strsub": lambda: ZOO.StrSub("s"), "intenum": lambda: ZOO.Color.RED, "mixedkeys": lambda: {1: "a", "1": "b"},
    "floatkey": lambda: {1.5: 1},
    # rejected by Python's json -> text form
    "bytes": lambda: b"\xff", "set": lambda: {1, 2}, "object": lambda: object(), "complex": lambda: 1 + 2j,
    "decimal": lambda: decimal.Decimal("1.5"), "datetime": lambda: datetime.datetime(2020, 1, 2, 3, 4, 5),
    "class": lambda: CLASSES["ModLevel"], "type": lambda: type, "excinst": lambda: ValueError("inner"),
    "falsyexcinst": lambda: ZOO.FalsyLen("inner"),
    "frozenset": lambda: frozenset([1]), "range": lambda: range(3), "huge": lambda: 10**5000,
    "dictbytes": lambda: {"k": b"x"}, "circular": _circ, "tuplekey": lambda: {(1, 2): 3},
    # un-repr-able / un-str-able
    "badrepr": lambda: ZOO.BadRepr(), "onlystr": lambda: ZOO.OnlyStr(),
    # unpicklable
    "lambda": lambda: (lambda: 0), "lock": lambda: threading.Lock(), "localobj": lambda: LOCAL_OBJ(),
    "gen": lambda: (i for i in range(2)), "listlambda": lambda: [1, (lambda: 0)], "module": lambda: json,
    # unpicklable and un-repr-able at once (text form on the pickle path: str(), or the "<Unrepresentable" placeholder)
    "badreprlock": lambda: _with_lock(ZOO.BadRepr()), "onlystrlock": lambda: _with_lock(ZOO.OnlyStr()),
    # pickle.dumps succeeds, pickle.loads of the result raises: must be replaced by the text form all the same
    "excbadinit": lambda: ZOO.HttpError(503, "unavailable"), "reduceloadraises": lambda: ZOO.ReduceLoadsRaises(),
    "setstateraises": lambda: ZOO.SetstateRaises(), "listexcbadinit": lambda: ["ctx", ZOO.HttpError(404, "gone")],
    "dictsetstate": lambda: {"k": ZOO.SetstateRaises()},
    # lone surrogates (D9): accepted by Python's json, rejected by pydantic's UTF-8 encoder
    "surr": lambda: "\ud800", "surrnest": lambda: ["a", ["\udfff"]], "surrval": lambda: {"k": "a\udc80b"},
    "surrtuple": lambda: ("\ud800",),
    # ... in a dict key: also breaks the JSON-dict path
    "surrkey": lambda: {"\ud800": 1}, "surrkeynest": lambda: [{"k": {"\udfff": None}}],
    # --- taskiq / pydantic objects with their own serialisation hooks. A result whose `error` is set prepares that error
    # in its __getstate__: pickling an exception that carries one RE-ENTERS prepare_exception on the same thread
    "resok": lambda: ZOO._child(None, 5),
    "reserr": lambda: ZOO._child(ValueError("boom", 3)),
    "reserrprobe": lambda: ZOO._child(ZOO.ProbeErr("child failed", 3)),
    "reserrlocal": lambda: ZOO._child(CLASSES["Local"]("not importable")),
    "reserrbadarg": lambda: ZOO._child(ZOO.ProbeErr("arg", threading.Lock())),
    "reserrchain": _res_chain, "reserrcyc": _res_cyc, "reserrnested": _res_nested,
    "listreserr": lambda: ["ctx", ZOO._child(ZOO.ProbeErr("in list"))],
    "dictreserr": lambda: {"child": ZOO._child(ZOO.ProbeErr("in dict"))},
    "tuplereserr": lambda: (ZOO._child(ZOO.ProbeErr("in tuple")), 1),
    "subreserr": lambda: ZOO.SubResult(is_err=True, return_value=None, execution_time=0.5, error=ZOO.ProbeErr("sub")),
    "tmsg": lambda: TaskiqMessage(task_id="id1", task_name="mod:task", labels={"a": 1}, args=[1, "x"], kwargs={"k": None}),
    "brokermsg": lambda: BrokerMessage(task_id="id1", task_name="mod:task", message=b"{}", labels={}),
    "pydmodel": lambda: ZOO.PydModel(x=3, tags=["t"]),
    "excrepr": lambda: S.ExceptionRepr(exc_type="ValueError", exc_message=("x", 1), exc_module="builtins"),
    "wrapperinst": lambda: Wrapper("builtins", "ValueError", ("x",), "ValueError('x')"),
    # --- objects whose own hooks store a result / call taskiq.serialization while the outer store is in progress
    "reprstores": lambda: ZOO.ReprStores(), "reprstoreslock": lambda: _with_lock(ZOO.ReprStores()),
    "strstores": lambda: ZOO.StrStores(), "reducestores": lambda: ZOO.ReduceStores(),
    "getstatestores": lambda: ZOO.GetstateStores(), "reducestoresraises": lambda: ZOO.ReduceStoresRaises(),
    "loadconverts": lambda: ZOO.LoadConverts(),
    # ... on ANOTHER thread (the hook waits for it)
    "threadreduce": lambda: ZOO.ThreadReduce(), "threadrepr": lambda: ZOO.ThreadRepr(),
}


TEXT_MEMO = {}       # id(argument) -> (argument, its repr() texts, its str() texts) since the current case began


class Probe(pydantic.BaseModel):
    """one field of the same declared type as ExceptionRepr.exc_message - measures pydantic's own encoder"""
    v: Tuple[Any, ...]


def deep_eq(a, b, depth=0):
    if depth > 40 or type(a) is not type(b):
        return False
    if isinstance(a, float):
        return a.hex() == b.hex()
    if isinstance(a, (list, tuple)):
        return len(a) == len(b) and all(deep_eq(x, y, depth + 1) for x, y in zip(a, b))
    if isinstance(a, dict):
        try:
            return len(a) == len(b) and all(k in b and deep_eq(v, b[k], depth + 1) for k, v in a.items())
        except Exception:
            return False
    try:
        return bool(a == b)
    except Exception:
        return False


def has_surrogate(a, keys_only=False, depth=0):
    """some str reachable in a (nested lists / tuples / dicts, dict keys) contains a surrogate code point"""
    if depth > 40:
        return False
    if isinstance(a, str):
        return (not keys_only) and any(0xD800 <= ord(ch) <= 0xDFFF for ch in a)
    if isinstance(a, (list, tuple)):
        return any(has_surrogate(x, keys_only, depth + 1) for x in a[:50])
    if isinstance(a, dict):
        return any((isinstance(k, str) and any(0xD800 <= ord(ch) <= 0xDFFF for ch in k)) or
                   has_surrogate(v, keys_only, depth + 1) for k, v in list(a.items())[:50])
    return False


def strict_json(a, depth=0):
    """a is a value of RFC 8259 JSON built from exactly the native Python types (independent of any library)"""
    if depth > 40:
        return False
    t = type(a)
    if a is None or t is bool or t is int:
        return True
    if t is str:
        return not has_surrogate(a)
    if t is float:
        return a == a and a not in (float("inf"), float("-inf"))
    if t is list:
        return all(strict_json(x, depth + 1) for x in a)
    if t is dict:
        return all(type(k) is str and not has_surrogate(k) and strict_json(v, depth + 1) for k, v in a.items())
    return False


def tryf(f):
    try:
        return True, f()
    except Exception:
        return False, None


def measure_arg(a):
    """capability flags of one argument, measured with the real functions"""
    m = {}
    # (pickling a value that holds a result with an error rewrites that result's `error` in place - notes/C19.md (d) - so
    # its text form before the first pickling may differ from the one after it, and a payload stored at an earlier step of
    # a sequence may quote the earlier one: every text form the argument has had since the case began counts as its text form)
    memo = TEXT_MEMO.setdefault(id(a), (a, set(), set()))
    memo[1].add(tryf(lambda: repr(a))[1])
    memo[2].add(tryf(lambda: str(a))[1])
    m["rt_json"], _ = tryf(lambda: json.loads(json.dumps(a)))
    m["rt_pickle"], pv = tryf(lambda: pickle.loads(pickle.dumps(a)))
    m["eq_pickle"] = bool(m["rt_pickle"] and deep_eq(pv, a))
    m["repr_ok"], rtext = tryf(lambda: repr(a))
    m["str_ok"], stext = tryf(lambda: str(a))
    m["repr_text"], m["str_text"] = (rtext if m["repr_ok"] else None), (stext if m["str_ok"] else None)
    memo[1].add(m["repr_text"])
    memo[2].add(m["str_text"])
    m["repr_text0"], m["str_text0"] = memo[1], memo[2]
    text = rtext if m["repr_ok"] else stext if m["str_ok"] else "<Unrepresentable>"
    for e in ("text", "dict"):
        if m["rt_json"]:
            p = Probe(v=(a,))
            if e == "text":
                ok, s = tryf(p.model_dump_json)
                ok2, back = tryf(lambda: Probe.model_validate_json(s).v[0]) if ok else (False, None)
            else:
                ok, s = tryf(lambda: p.model_dump(mode="json"))
                ok2, back = tryf(lambda: Probe.model_validate(s).v[0]) if ok else (False, None)
            m["enc_" + e] = ok and ok2
            m["eq_" + e] = bool(ok and ok2 and deep_eq(back, a))
            m["loaded_" + e] = back if (ok and ok2) else text
        else:
            m["enc_" + e], m["eq_" + e], m["loaded_" + e] = False, False, text
    # facts for the direct oracle (its own notion of "representable" / "un-encodable")
    m["json_encodable"] = tryf(lambda: json.dumps(a))[0]        # whatever json.dumps emits, json.loads reads
    m["pickle_dumps_ok"] = tryf(lambda: pickle.dumps(a))[0]
    m["pickle_encodable"] = m["rt_pickle"]                        # encodable = can be written AND read back
    m["repr_json"] = bool(m["json_encodable"] and strict_json(a))
    m["repr_pickle"] = m["eq_pickle"]
    m["surrogate"] = has_surrogate(a)
    m["surrogate_key"] = has_surrogate(a, keys_only=True)
    return m


def arg_form(loaded, orig, m):
    if deep_eq(loaded, orig):
        return "AEq"
    if isinstance(loaded, str):
        if m["repr_ok"]:
            if loaded == m["repr_text"] or loaded in m["repr_text0"]:
                return "ARepr"
        elif m["str_ok"]:
            if loaded == m["str_text"] or loaded in m["str_text0"]:
                return "AStr"
        elif loaded.startswith("<Unrepresentable "):
            return "AUnrep"
    return "AChanged"


def rel_args(loaded_args, orig_args, ms):
    """largs: the loaded args relative to the original ones"""
    try:
        loaded_args = tuple(loaded_args)
    except Exception:
        return "LMismatch"
    if len(loaded_args) != len(orig_args):
        return "LMismatch"
    return [arg_form(l, o, m) for l, o, m in zip(loaded_args, orig_args, ms)]


def resolve(cls):
    """what sys.modules[module] + getattr chain over the qualified name finds (plain Python, no taskiq)"""
    try:
        o = sys.modules[cls.__module__]
        for p in getattr(cls, "__qualname__", cls.__name__).split("."):
            o = getattr(o, p)
    except (KeyError, AttributeError):
        return "RMissing", None
    if o is cls:
        return "RSelf", o
    if isinstance(o, type) and issubclass(o, BaseException):
        return "ROther", o
    return "RNonExc", o


def build(spec):
    cls = CLASSES[spec["cls"]]
    vals = [ARGS[a]() for a in spec["args"]]
    k = spec["cls"]
    ctor = ["x"] * spec.get("ctor_n", 0) if spec.get("set_args") else vals     # args overridden after construction
    if k == "KwOnly":
        e = cls(code=ctor[0])
    elif k == "UnicodeDecodeError":
        e = cls("utf-8", b"\xff", 0, 1, "bad")
    elif k == "JSONDecodeError":
        e = cls("m", "doc", 0)
    elif k == "NoResultError":
        e = cls()
    elif k == "TaskiqResultTimeoutError":
        e = cls(timeout=1.5)
    elif k == "ExceptionGroup":
        e = cls("g", [ValueError(1)])
    elif k == "OSError2":
        e = OSError(2, "No such file")
    else:
        try:
            e = cls(*ctor)
        except Exception:            # e.g. Rewrites(<un-str-able>): cannot be constructed that way - override .args instead
            e = cls(*["x"] * spec.get("ctor_n", 0))
            e.args = tuple(vals)
    if spec.get("set_args"):
        e.args = tuple(vals)
    if spec.get("res_attr"):
        e.child_result = ARGS[spec["res_attr"]]()      # e.g. `exc.child_result = result_of_the_failed_child`
    if spec.get("lock_attr"):
        e.extra = threading.Lock()
    if spec.get("raised"):
        try:
            raise e
        except BaseException:
            pass
        e.__context__ = None
    return e


def measure_node(e):
    cls = type(e)
    args = tuple(e.args)
    ms = [measure_arg(a) for a in args]
    n = dict(cls=cls, args=args, ms=ms)
    n["name"], n["qualname"], n["module"] = cls.__name__, getattr(cls, "__qualname__", cls.__name__), cls.__module__
    n["has_module"] = cls.__module__ is not None
    n["resolve"], target = resolve(cls) if n["has_module"] else ("RMissing", None)
    for enc in ("text", "dict"):
        acc = rec = False
        if target is not None and n["resolve"] in ("RSelf", "ROther"):
            loaded = tuple(m["loaded_" + enc] for m in ms)
            acc, inst = tryf(lambda: target(*loaded))
            # reconstructible: the constructor returns an instance of exactly that class (OSError(errno, ..) picks a
            # subclass by errno) and keeps the args
            rec = bool(acc and type(inst) is target and deep_eq(tuple(inst.args), loaded))
        n["accepts_" + enc], n["recon_" + enc] = acc, rec
    n["exc_rt_json"] = tryf(lambda: json.loads(json.dumps(e)))[0]
    ok, back = tryf(lambda: pickle.loads(pickle.dumps(e)))
    n["exc_rt_pickle"] = ok
    n["native"] = rel_args(back.args, args, ms) if ok and isinstance(back, BaseException) else "LMismatch"
    n["native_same_class"] = bool(ok and type(back) is cls)
    mro = []
    for sup in getmro(cls):
        if sup in UNWANTED:
            break
        okc, inst = tryf(lambda: sup(*args))
        # (the truth value of the candidate plays no part: a falsy instance that round-trips is a candidate like any other)
        okj = bool(okc and tryf(lambda: json.loads(json.dumps(inst)))[0])
        okp, back = tryf(lambda: pickle.loads(pickle.dumps(inst))) if okc else (False, None)
        mro.append(dict(ok_json=okj, ok_pickle=okp, is_exc=issubclass(sup, BaseException),
                        cand_falsy=bool(okc and tryf(lambda: bool(inst)) == (True, False)),
                        loaded=rel_args(back.args, args, ms) if okp and isinstance(back, BaseException) else "LMismatch"))
    n["mro"] = mro
    n["mro_classes"] = [c for c in getmro(cls)][:len(mro)]
    text = "text"
    wj = Wrapper(cls.__module__, cls.__name__, tuple(a if m["rt_json"] else "t" for a, m in zip(args, ms)), text)
    wp = Wrapper(cls.__module__, cls.__name__, tuple(a if m["rt_pickle"] else "t" for a, m in zip(args, ms)), text)
    n["wrap_rt_json"] = tryf(lambda: json.loads(json.dumps(wj)))[0]
    n["wrap_rt_pickle"] = tryf(lambda: pickle.loads(pickle.dumps(wp)))[0]
    # facts for the direct oracle
    okc, inst = tryf(lambda: cls(*args))
    n["own_ctor_ok"] = okc
    n["own_recon"] = bool(okc and type(inst) is cls and deep_eq(tuple(inst.args), args))
    n["importable"] = n["has_module"] and n["resolve"] == "RSelf"
    # the truth value of the exception OBJECT (fact for the evidence distribution only: neither the model nor the oracle
    # reads it - a falsy exception is an exception like any other)
    okb, tv = tryf(lambda: bool(e))
    n["bool_raises"] = not okb
    n["truthy"] = not (okb and tv is False)
    return n


def abstract(l, i, nodes, links, enc, depth=0):
    """the loaded object relative to original node i (None = no link)"""
    if l is None:
        return None
    if i is None or depth > 12 or not isinstance(l, BaseException):
        return dict(id=None, k="KUnknown", named=False, a="LMismatch", c=None, x=None, s=False,
                    why="unexpected link / not an exception: %s" % type(l).__name__)
    n = nodes[i]
    cls, t = n["cls"], type(l)
    named, a = False, None
    if t is cls:
        k, named = "KOrig", True
    elif t is Wrapper:
        k = "KWrap"
        named = l.exc_cls_name == n["name"] and l.exc_module == n["module"]
        a = rel_args(l.exc_args, n["args"], n["ms"])
    elif t in n["mro_classes"]:
        k = ["KBase", n["mro_classes"].index(t)]
    elif t.__bases__ == (Exception,) and t.__module__ in ("taskiq.exceptions", "taskiq.serialization") \
            and getattr(sys.modules[t.__module__], t.__name__, None) is not t:
        k = "KSynth" if t.__module__ == "taskiq.exceptions" else "KSynthSer"
        named = t.__name__ == n["qualname"]
    elif t is Exception and len(l.args) == 1 and isinstance(l.args[0], str) and l.args[0].startswith("<class "):
        k, a = "KGeneric", "LText"
        named = (n["qualname"] in l.args[0]) if n["resolve"] == "RSelf" else True
    elif n["resolve"] == "ROther" and t is resolve(cls)[1]:
        k = "KOther"
    elif isinstance(l, cls):
        k, named = "KOrig", True       # the class' own constructor / reduce picked a subclass (OSError by errno)
    else:
        k = "KUnknown"
    if a is None:
        if enc != "pickle" and k in ("KOrig", "KOther") and not n["recon_" + enc]:
            a = "LRewritten"
        else:
            a = rel_args(l.args, n["args"], n["ms"])
    ci, xi = links[i]
    return dict(id=i, k=k, named=bool(named), a=a, s=bool(l.__suppress_context__),
                c=abstract(l.__cause__, ci, nodes, links, enc, depth + 1),
                x=abstract(l.__context__, xi, nodes, links, enc, depth + 1))


STORE = {
    "text": lambda r: model_dump_json(r),
    "dict": lambda r: model_dump(r),
    "pickle": lambda r: pickle.dumps(r),
}
LOAD = {
    "text": lambda s: model_validate_json(TaskiqResult, s),
    "dict": lambda s: model_validate(TaskiqResult, s),
    "pickle": lambda s: pickle.loads(s),
}


NODE_KEYS = ("name", "qualname", "module", "has_module", "resolve", "accepts_text", "accepts_dict",
             "recon_text", "recon_dict", "exc_rt_json", "exc_rt_pickle", "native", "native_same_class",
             "mro", "wrap_rt_json", "wrap_rt_pickle", "own_ctor_ok", "own_recon", "importable", "truthy", "bool_raises",
             "eq_nodes", "eq_raises", "hashable")


def build_graph(specs):
    excs = [build(s) for s in specs]
    links = []
    for e, s in zip(excs, specs):
        if s.get("cause") is not None:
            e.__cause__ = excs[s["cause"]]
        if s.get("context") is not None:
            e.__context__ = excs[s["context"]]
        e.__suppress_context__ = bool(s.get("suppress"))
        links.append((s.get("cause"), s.get("context")))
    return excs, links


def measure_graph(excs):
    """capability flags of every node, measured in the environment (sys.modules, class objects) that holds NOW"""
    nodes = [measure_node(e) for e in excs]
    # value equality between DISTINCT exception objects of the graph and hashability, measured with the real == / hash()
    # before any round trip (facts for the evidence distribution only: neither the model nor the oracle reads them -
    # "already on the path" is about the object, i.e. the node index)
    for i, (n, e) in enumerate(zip(nodes, excs)):
        n["eq_nodes"], n["eq_raises"] = [], False
        for j, f in enumerate(excs):
            if j != i:
                ok, v = tryf(lambda: bool(e == f))
                if not ok:
                    n["eq_raises"] = True
                elif v:
                    n["eq_nodes"].append(j)
        n["hashable"] = tryf(lambda: hash(e))[0]
    return nodes


def export_nodes(nodes, specs):
    out = []
    for n, s in zip(nodes, specs):
        d = {k: n[k] for k in NODE_KEYS}
        d["args"] = [{k: v for k, v in m.items() if k not in ("repr_text", "str_text", "repr_text0", "str_text0", "loaded_text", "loaded_dict")}
                     for m in n["ms"]]
        d["cause"], d["context"], d["suppress"] = s.get("cause"), s.get("context"), bool(s.get("suppress"))
        out.append(d)
    return out


# ---- every store and every load is a STAGE: announced to the supervising process before it starts (see Supervisor), so
# that a stage that never finishes becomes the outcome "hang" of exactly that encoding, and skipped - with that outcome -
# when the case is run again in a fresh process
GUARD = dict(skip={}, progress=None)


def guarded(key, f):
    k = json.dumps(key)
    if k in GUARD["skip"]:
        return dict(GUARD["skip"][k])
    say = GUARD["progress"]
    if say is not None:
        say(key)
    try:
        return f()
    finally:
        if say is not None:
            say(None)


def hook_facts(n0):
    """what the generated hooks logged since mark n0 (evidence only: neither the model nor the oracle reads it)"""
    log = HOOK_LOG[n0:]
    return dict(calls=len(log), max_nest=max([n for _, n, _ in log], default=0),
                nested_main=sum(1 for _, n, m in log if m and n >= 2), other_thread=sum(1 for _, _, m in log if not m),
                kinds=sorted({k for k, _, _ in log}))


def store(enc, excs, step=None):
    """("stored", payload, hook facts) or the failure outcome"""
    def go():
        n0 = len(HOOK_LOG)
        try:
            r = TaskiqResult(is_err=True, return_value=None, execution_time=0.0, error=excs[0])
        except BaseException as x:  # noqa: B036 - building the result that is to be stored is part of storing it
            return dict(o="store_fail", exc=type(x).__name__, msg=str(x)[:300], at="construct")
        if r.error is not excs[0]:
            return dict(o="construct_lost", detail=type(r.error).__name__)
        try:
            return ("stored", STORE[enc](r), hook_facts(n0))
        except BaseException as x:  # noqa: B036 - the statement says "never fails"
            return dict(o="store_fail", exc=type(x).__name__, msg=str(x)[:300], hooks=hook_facts(n0))
    return guarded([step, enc, "store"], go)


def load(enc, stored, nodes, links, step=None):
    if isinstance(stored, dict):
        return stored                     # the store already failed (or never finished)

    def go():
        n0 = len(HOOK_LOG)
        try:
            back = LOAD[enc](stored[1])
        except BaseException as x:  # noqa: B036
            return dict(o="security" if type(x) is TX.SecurityError else "load_fail", exc=type(x).__name__, msg=str(x)[:300])
        err = back.error
        if not isinstance(err, BaseException):
            return dict(o="notexc", type=type(err).__name__)
        return dict(o="loaded", t=abstract(err, 0, nodes, links, enc), hooks=stored[2], load_hooks=hook_facts(n0))
    return guarded([step, enc, "load"], go)


def check_links(excs, links):
    # the links of the originals must be untouched by the round trips (the driver's own sanity)
    for e, (ci, xi) in zip(excs, links):
        assert e.__cause__ is (excs[ci] if ci is not None else None)
        assert e.__context__ is (excs[xi] if xi is not None else None)


def run_case(case, opts):
    """entry of harness/drivers/_main.py: the case runs in a supervised child process, never in this one"""
    return SUPERVISOR.run(case)


def run_here(case):
    TEXT_MEMO.clear()
    if case.get("family") == "seq":
        return run_seq(case)
    specs = case["nodes"]
    excs, links = build_graph(specs)
    nodes = guarded([None, "measure", "measure"], lambda: measure_graph(excs))
    out = {"nodes": export_nodes(nodes, specs), "enc": {}}
    for enc in ("text", "dict", "pickle"):
        out["enc"][enc] = load(enc, store(enc, excs), nodes, links)
    check_links(excs, links)
    return out


# --------------------------------------------------------------------------- family "seq": one process, several loads
# A case is a SEQUENCE of steps run in ONE process:
#   {"family": "seq", "steps": [{"ops": [<environment change>, ...], "mode": "new" | "rebuild" | "reuse", "nodes": [...]}, ...]}
# Before each step the environment of the process is changed (ops), then
#   mode "new"     - the step's own graph is built from the classes that exist NOW and stored (JSON text, JSON dict),
#   mode "rebuild" - the previous graph's descriptors are built again from the classes that exist NOW and stored,
#   mode "reuse"   - nothing is stored: the payloads (and original exception objects) of the previous step are kept,
# the capability flags of every node are measured in the environment that holds AT THIS STEP and the JSON payloads are
# loaded (pickle: a fresh store + load at this step - pickle resolves classes by itself on both sides). Every step yields
# an observation of the same shape as a plain case. Environment changes ("the module gets imported later", "the module is
# reloaded", "a class factory re-creates a class under the same name") are done with plain Python on sys.modules / the
# generated module / the class table of this driver - never through taskiq.
NOWHERE = "nowhere.mod"


def container_of(cls):
    """(object holding the class under its name, name) along the qualified name inside the generated module, or None"""
    q = getattr(cls, "__qualname__", cls.__name__)
    if cls.__module__ != ZOO_NAME or "<locals>" in q:
        return None
    o = ZOO
    parts = q.split(".")
    for p in parts[:-1]:
        o = getattr(o, p, None)
        if o is None:
            return None
    return o, parts[-1]


def publish_nowhere():
    pkg = types.ModuleType("nowhere")
    pkg.__path__ = []
    m = types.ModuleType(NOWHERE)
    for c in CLASSES.values():
        if getattr(c, "__module__", None) == NOWHERE:
            setattr(m, c.__name__, c)
    pkg.mod = m
    sys.modules["nowhere"], sys.modules[NOWHERE] = pkg, m


def apply_op(op):
    k = op["op"]
    if k == "unregister":                      # the module is not (yet / any more) imported in this process
        if op["mod"] == "zoo":
            sys.modules.pop(ZOO_NAME, None)
        else:
            sys.modules.pop(NOWHERE, None)
            sys.modules.pop("nowhere", None)
    elif k == "register":                      # lazy import: the module object (with its current classes) appears
        if op["mod"] == "zoo":
            sys.modules[ZOO_NAME] = ZOO
        else:
            publish_nowhere()
    elif k in ("delattr", "setattr"):          # the class is removed from / (re)published under its qualified name
        cls = CLASSES[op["cls"]]
        if cls.__module__ == NOWHERE:
            m = sys.modules.get(NOWHERE)
            if m is not None:
                if k == "setattr":
                    setattr(m, cls.__name__, cls)
                elif hasattr(m, cls.__name__):
                    delattr(m, cls.__name__)
            return
        at = container_of(cls)
        if at is None:
            return
        if k == "setattr":
            setattr(at[0], at[1], cls)
        elif at[1] in vars(at[0]):
            delattr(at[0], at[1])
    elif k in ("reload", "reimport"):          # every generated class becomes a new class object under the same name
        registered = ZOO_NAME in sys.modules
        install_zoo(same_module=(k == "reload"))
        if k == "reload" and not registered:
            sys.modules.pop(ZOO_NAME, None)
        if NOWHERE in sys.modules:
            publish_nowhere()
    elif k == "replace":                       # class factory: ONE class re-created under the same module / qualified name
        old = CLASSES[op["cls"]]
        scratch = exec_zoo(types.ModuleType(ZOO_NAME))
        new = make_table(scratch)[0][op["cls"]]
        if new is old:                          # builtin / library class: nothing to re-create
            return
        CLASSES[op["cls"]] = new
        if old.__module__ == NOWHERE:
            m = sys.modules.get(NOWHERE)
            if m is not None and getattr(m, old.__name__, None) is old:
                setattr(m, old.__name__, new)
        else:
            at = container_of(old)
            if at is not None and vars(at[0]).get(at[1]) is old:
                setattr(at[0], at[1], new)
    else:
        raise ValueError("unknown op %r" % (op,))


def canon_payload(p):
    if isinstance(p, dict):
        return "failed:" + json.dumps(p, sort_keys=True, default=str)
    return p[1] if isinstance(p[1], str) else json.dumps(p[1], sort_keys=True, default=repr)


def run_seq(case):
    out = {"steps": []}
    excs = links = specs = payloads = None
    try:
        for step, st in enumerate(case["steps"]):
            for op in st.get("ops", []):
                apply_op(op)
            mode = st.get("mode", "new")
            if mode == "new" or specs is None:
                specs = st["nodes"]
            fresh_graph = mode != "reuse" or excs is None
            if fresh_graph:
                excs, links = build_graph(specs)
            # ONE call site for every JSON store of the sequence (the "<Unrepresentable ..>" text form of an un-printable
            # argument quotes the call stack)
            stored_now = {enc: store(enc, excs, step) for enc in ("text", "dict")}
            if fresh_graph:
                payloads, same = stored_now, None
            else:
                # evidence for the assumption "what a JSON store writes does not depend on the environment": the same
                # objects stored again NOW give the payload that was stored before the environment changed
                same = all(canon_payload(stored_now[enc]) == canon_payload(payloads[enc]) for enc in ("text", "dict"))
            nodes = guarded([step, "measure", "measure"], lambda: measure_graph(excs))
            o = {"nodes": export_nodes(nodes, specs), "enc": {}, "specs": specs,
                 "env": dict(zoo=ZOO_NAME in sys.modules, nowhere=NOWHERE in sys.modules, payload_same_as_fresh_store=same)}
            for enc in ("text", "dict"):
                o["enc"][enc] = load(enc, payloads[enc], nodes, links, step)
            o["enc"]["pickle"] = load("pickle", store("pickle", excs, step), nodes, links, step)
            check_links(excs, links)
            out["steps"].append(o)
    finally:
        # back to the environment every other case expects (matters only when the case did not run in a forked child)
        sys.modules.pop(NOWHERE, None)
        sys.modules.pop("nowhere", None)
        install_zoo()
    return out


# --------------------------------------------------------------------------- supervision: hangs become verdicts
# "Never fails" includes "finishes". No case runs in the driver process itself (which only imports and creates the
# generated module - it stays pristine and single-threaded): plain cases run one after the other in a WORKER forked from it,
# a family-"seq" group in a child of its own (it starts from the pristine state whatever ran before, so a group does not
# depend on sharding and replays alone exactly as it ran). The child announces every store / load before it starts. A stage
# is declared hung when - after a grace period - EVERY thread of the child has been asleep without using any CPU time for
# HANG_WINDOW seconds (blocked for good: a deadlock; a machine under load cannot fake that - a starved process is
# runnable, not asleep), or when the stage has burnt CPU_LIMIT seconds of CPU time or WALL_LIMIT seconds of wall time
# (fail closed). Then the child is killed (its stuck threads and whatever lock they hold go with it), the stage gets the
# outcome "hang", and the SAME case is run again in a fresh child with that stage skipped, so the other encodings of the
# case are still observed from a clean state and the cases that follow are not affected.
HANG_GRACE, HANG_WINDOW, CPU_LIMIT, WALL_LIMIT, MAX_HANGS = 0.6, 1.4, 30.0, 240.0, 12
POLL = 0.2
# once a driver process has SEEN stages hang (never on a sound tree), later ones are declared hung sooner - same criterion
FAST_AFTER, FAST_GRACE, FAST_WINDOW = 3, 0.3, 0.7


def _die_with_parent():
    try:
        import ctypes
        ctypes.CDLL(None).prctl(1, signal.SIGKILL)       # PR_SET_PDEATHSIG
    except Exception:
        pass


def _child_main(cmd_rd, res_wr, once):
    """in the forked child: jobs in (one JSON line each), progress and results out"""
    _die_with_parent()
    out = os.fdopen(res_wr, "w")

    def say(msg):
        out.write(json.dumps(msg, default=str) + "\n")
        out.flush()
    GUARD["progress"] = lambda key: say({"at": key})
    with os.fdopen(cmd_rd) as jobs:
        for line in jobs:
            job = json.loads(line)
            GUARD["skip"] = job["skip"]
            try:
                obs = run_here(job["case"])
            except BaseException:  # noqa: B036 - a driver crash is an observation, never a silent pass
                obs = {"_crash": traceback.format_exc()[-2000:]}
            say({"done": obs})
            if once:
                break


class Child:
    def __init__(self, once=False):
        c_rd, c_wr = os.pipe()
        r_rd, r_wr = os.pipe()
        sys.stdout.flush()
        sys.stderr.flush()
        self.pid = os.fork()
        if self.pid == 0:
            code = 0
            try:
                os.close(c_wr)
                os.close(r_rd)
                _child_main(c_rd, r_wr, once)
            except BaseException:  # noqa: B036
                code = 1
            finally:
                os._exit(code)
        os.close(c_rd)
        os.close(r_wr)
        self.cmd, self.res, self.buf = os.fdopen(c_wr, "w"), r_rd, b""

    def send(self, case, skip):
        self.cmd.write(json.dumps(dict(case=case, skip=skip)) + "\n")
        self.cmd.flush()

    def state(self):
        """(every thread asleep?, CPU ticks used by the process so far)"""
        ticks, asleep = 0, True
        try:
            for t in os.listdir("/proc/%d/task" % self.pid):
                with open("/proc/%d/task/%s/stat" % (self.pid, t)) as fh:
                    st = fh.read()
                f = st[st.rindex(")") + 2:].split()
                asleep = asleep and f[0] == "S"
                ticks += int(f[11]) + int(f[12])
        except (OSError, ValueError, IndexError):
            return False, None
        return asleep, ticks

    def wait(self, fast=False):
        """("done", obs) | ("hang", stage key, how) | ("died", text)"""
        grace, window = (FAST_GRACE, FAST_WINDOW) if fast else (HANG_GRACE, HANG_WINDOW)
        stage, t0, quiet, last, cpu0 = None, time.monotonic(), None, None, None
        hz = os.sysconf("SC_CLK_TCK") if hasattr(os, "sysconf") else 100
        while True:
            if select.select([self.res], [], [], POLL)[0]:
                data = os.read(self.res, 1 << 16)
                if not data:
                    return "died", "child ended without a result (stage %r)" % (stage,)
                self.buf += data
                while b"\n" in self.buf:
                    line, self.buf = self.buf.split(b"\n", 1)
                    msg = json.loads(line)
                    if "done" in msg:
                        return "done", msg["done"]
                    stage, t0, quiet, last, cpu0 = msg["at"], time.monotonic(), None, None, None
                continue
            now = time.monotonic()
            if now - t0 < grace:
                continue
            asleep, ticks = self.state()
            if ticks is not None:
                cpu0 = ticks if cpu0 is None else cpu0
                quiet = (quiet or now) if (asleep and ticks == last) else None
                last = ticks
                if quiet is not None and now - quiet >= window:
                    return "hang", stage, "blocked"
                if (ticks - cpu0) / hz > CPU_LIMIT:
                    return "hang", stage, "spinning"
            if now - t0 > (WALL_LIMIT if ticks is not None else 20.0):
                return "hang", stage, "timeout"

    def kill(self):
        try:
            self.cmd.close()
        except Exception:
            pass
        try:
            os.kill(self.pid, signal.SIGKILL)
        except OSError:
            pass
        try:
            os.waitpid(self.pid, 0)
        except OSError:
            pass
        try:
            os.close(self.res)
        except OSError:
            pass


class Supervisor:
    def __init__(self):
        self.worker = None
        self.hangs = 0

    def run(self, case):
        if not hasattr(os, "fork"):
            return run_here(case)
        seq = case.get("family") == "seq"
        skip = {}
        while True:
            if seq:
                child = Child(once=True)
            else:
                if self.worker is None:
                    self.worker = Child()
                child = self.worker
            try:
                child.send(case, skip)
                r = child.wait(fast=self.hangs >= FAST_AFTER)
            except (OSError, ValueError) as x:
                r = ("died", "%s: %s" % (type(x).__name__, x))
            if r[0] == "done":
                if seq:
                    child.kill()
                return r[1]
            child.kill()
            if not seq:
                self.worker = None
            if r[0] == "died":
                return {"_crash": "supervised child: " + r[1]}
            _, stage, how = r
            self.hangs += 1
            if isinstance(stage, list) and len(stage) == 3 and stage[2] == "measure":
                return {"_crash": "measuring the capability flags of the arguments / exceptions (real json / pickle / repr / str on "
                                  "them - some of them are results or objects that store results) did not finish: %s%s"
                                  % (how, "" if stage[0] is None else ", step %r" % stage[0])}
            if not (isinstance(stage, list) and len(stage) == 3 and stage[2] in ("store", "load")):
                return {"_crash": "the harness' own code (outside a store / load of taskiq) did not finish: %s, at %r" % (how, stage)}
            if len(skip) >= MAX_HANGS:
                return {"_crash": "more than %d stages of one case did not finish; last: %s at %r" % (MAX_HANGS, how, stage)}
            skip[json.dumps(stage)] = dict(o="hang", stage=stage[2], how=how)


SUPERVISOR = Supervisor()
