"""Implementation driver for C15: the real run_scheduler_loop (optionally through taskiq.api.scheduler.run_scheduler_task)
on an exact virtual-time loop, with scripted / removing / label based sources, a recording broker, and observation
shims installed on module globals of taskiq.cli.scheduler.run (datetime, asyncio.sleep, delayed_send, get_task_delay).
Nothing of /repo is re-implemented here.

A case may carry "host": the time zone of the machine the scheduler process runs on (a POSIX TZ string such as "MSK-3" /
"IST-5:30" / "EST5EDT", or an IANA name resolved by the C library, ":name" = glibc's explicit file form; absent / None =
"UTC", the harness environment).  It is installed with os.environ["TZ"] + time.tzset() before the real code is called, and
the controlled clock answers exactly like the real datetime class on such a host: now(tz) / utcnow() report the instant,
now() WITHOUT tz the naive local wall clock of the host zone (C library localtime()).  Everything the case SAYS is an instant
(microseconds since the epoch, UTC): a naive one-shot time is that instant's UTC wall clock (taskiq's convention), whatever
the host zone is - nothing the harness expects depends on the host zone."""
import asyncio
import collections
import contextvars
import datetime as dt
import functools
import os
import sys
import time
import types

import taskiq.api.scheduler as api
import taskiq.cli.scheduler.run as run
import patchall
from taskiq.abc.broker import AsyncBroker
from taskiq.abc.schedule_source import ScheduleSource
from taskiq.schedule_sources.label_based import LabelScheduleSource
from taskiq.scheduler.scheduled_task import ScheduledTask
from taskiq.scheduler.scheduler import TaskiqScheduler
from source_driver import CallableObj, deliver     # the C16 helpers: how a plain def hands an awaitable back
from source_driver import dec                      # ... and how a case spells values that are not JSON natives
from vloop import VLoop

EP = dt.datetime(1970, 1, 1, tzinfo=dt.timezone.utc)
REAL_DELAYED_SEND = run.delayed_send
REAL_GET_TASK_DELAY = run.get_task_delay
CUR = contextvars.ContextVar("cur_send", default=None)


class XLoop(VLoop):
    """VLoop with exact deadlines: every delay used by the scheduler and by this driver is a whole number of
    microseconds, so a timer fires at exactly start + delay (VLoop alone rounds the float deadline up, which can
    add 1 us)."""

    def __init__(self):
        super().__init__(0)
        sel = self._selector
        real = type(sel).select.__get__(sel)
        loop = self

        def select(timeout=None):
            ev = real(0)
            if ev or loop._ready:
                return ev
            if loop._exec_pending > 0:
                return real(0.05)
            if loop._scheduled:
                us = round(loop._scheduled[0]._when * 1_000_000)
                if us > loop._vt_us:
                    loop._vt_us = us
            return ev

        sel.select = select

    def call_later(self, delay, callback, *args, context=None):
        us = self._vt_us + max(0, round(delay * 1_000_000))
        return self.call_at(us / 1_000_000, callback, *args, context=context)


class St:
    """state of the running case, consulted by the module-global shims"""
    loop = None
    base = 0
    log = None
    attempts = None
    src_index = None
    by_task = None
    started = None


def now_us():
    return St.base + St.loop._vt_us


HOST = [None]


def set_host(host):
    """make `host` the system time zone of this process (what TZ / /etc/localtime is on the scheduler machine)"""
    host = host or "UTC"
    if HOST[0] != host:
        os.environ["TZ"] = host
        time.tzset()
        HOST[0] = host


def td_us(d):
    return (d.days * 86400 + d.seconds) * 10**6 + d.microseconds


def host_off_us(us):
    """UTC offset of the installed host zone at the instant `us` (C library) - for the evidence only"""
    return td_us((EP + dt.timedelta(microseconds=us)).astimezone().utcoffset())


class VDT(dt.datetime):
    """datetime whose now() / utcnow() are the virtual clock, answered the way the real class answers them on the host:
    now(tz) = the instant in tz, utcnow() = naive UTC, now() = naive wall clock of the SYSTEM zone (TZ / tzset)"""

    @classmethod
    def now(cls, tz=None):
        t = EP + dt.timedelta(microseconds=now_us())
        if tz is not None:
            return t.astimezone(tz)
        return t.astimezone().replace(tzinfo=None)     # system local time: time.localtime(), honours tzset()

    @classmethod
    def utcnow(cls):
        return (EP + dt.timedelta(microseconds=now_us())).replace(tzinfo=None)


def sid_of(task):
    """which entry of the case a ScheduledTask stands for.  The number travels where the case's payload shape (`pay.carrier`)
    put it: first positional argument (the default), kwargs["sid"], labels["sid"], or - for a schedule that carries no number
    at all - the name of its task (such an entry is the only one of its task)."""
    if type(task.kwargs.get("sid")) is int:
        return task.kwargs["sid"]
    if type(task.labels.get("sid")) is int:
        return task.labels["sid"]
    if task.task_name in St.by_task:
        return St.by_task[task.task_name]
    return task.args[0]


def delayed_send_shim(scheduler, source, task, delay, *more, **kw):
    i = St.src_index.get(id(source), -1)
    sid = sid_of(task)
    n = St.attempts.get((i, sid), 0)
    St.attempts[(i, sid)] = n + 1
    St.log.append(("spawn", now_us(), i, sid, n, delay))

    async def inner():
        CUR.set((i, sid, n))
        await REAL_DELAYED_SEND(scheduler, source, task, delay, *more, **kw)

    return inner()


def get_task_delay_shim(task, *a, **k):
    try:
        r = REAL_GET_TASK_DELAY(task, *a, **k)
    except ValueError:
        St.log.append(("delay", now_us(), sid_of(task), "ValueError"))
        raise
    St.log.append(("delay", now_us(), sid_of(task), r))
    return r


class AsyncioShim(types.ModuleType):
    def __getattr__(self, name):
        return getattr(asyncio, name)


def make_asyncio_shim():
    m = AsyncioShim("asyncio_shim")

    def sleep(delay, *a, **k):
        # the loop's own sleep: made by the loop's task, not by one of the delayed sends it spawned (those run with CUR set)
        if CUR.get() is None:
            St.log.append(("sleep", now_us(), delay))
        return asyncio.sleep(delay, *a, **k)

    m.sleep = sleep
    return m


def setup(opts):
    # (not `run.datetime = VDT`: the name may be bound to the datetime MODULE in another spelling of the imports)
    patchall.patch_attr(dt, "datetime", VDT, later_imports=True)   # wherever else the package reads the clock: the class under any name,
    #                                        or the datetime module itself under any name (import datetime as dt)
    # the loop's two helpers and asyncio, wherever the package bound them (moved code, re-exports, aliases)
    patchall.replace_everywhere(REAL_DELAYED_SEND, delayed_send_shim)
    patchall.replace_everywhere(REAL_GET_TASK_DELAY, get_task_delay_shim)
    shim = make_asyncio_shim()
    patchall.replace_everywhere(asyncio, shim, prefix="taskiq.cli.scheduler")
    patchall.replace_everywhere(asyncio.sleep, shim.sleep, prefix="taskiq.cli.scheduler")


class Inject(Exception):
    pass


def attempt_now():
    """the attempt number of the delayed send in whose task the caller runs (None outside one)"""
    cur = CUR.get()
    return cur[2] if cur else None


class Runaway(BaseException):
    """the loop polls far more often than once per minute (it would never reach the end of the run in virtual time)"""


class Broker(AsyncBroker):
    def __init__(self, case):
        super().__init__()
        self.klat = case.get("klat", {})
        self.kfail = {tuple(x) for x in case.get("kfail", [])}

    async def kick(self, message):
        cur = CUR.get()
        i, sid, n = cur if cur else (-1, -1, -1)
        rec = ["kick", now_us(), i, sid, n, message.labels.get("schedule_id"), message.task_name, None, None]
        St.log.append(rec)
        await asyncio.sleep(self.klat.get("%d:%d:%d" % (i, sid, n), 1) / 1_000_000)
        rec[8] = now_us()                  # the instant at which kick() returns / raises
        if (i, sid, n) in self.kfail:
            rec[7] = False
            raise Inject("kick")
        rec[7] = True

    async def listen(self):
        yield b""


def to_naive(us):
    return (EP + dt.timedelta(microseconds=us)).replace(tzinfo=None)


def cron_offset_of(e):
    """the schedule's cron_offset: absent, an IANA zone name (str) or a timedelta"""
    off = e.get("off")
    if not off:
        return None
    if off["kind"] == "zone":
        return off["zone"]
    return dt.timedelta(microseconds=off["us"])


class SubDT(dt.datetime):
    """a datetime subclass (what pendulum / arrow-like libraries hand out)"""


def time_of(e):
    """the one-shot's time as the case's payload shape gives it: naive UTC (default), aware UTC (`naive` false), aware at a
    fixed offset (`pay.tz`, minutes) or in the HOST's own zone as CPython reports it (`pay.tz` = "host": datetime.astimezone()
    without argument, after set_host()), optionally as an instance of a datetime subclass (`pay.tcls`)"""
    p = e.get("pay") or {}
    if p.get("tz") == "host":
        t = (EP + dt.timedelta(microseconds=e["T"])).astimezone()
    elif p.get("tz") is not None:
        t = (EP + dt.timedelta(microseconds=e["T"])).astimezone(dt.timezone(dt.timedelta(minutes=p["tz"])))
    elif not e.get("naive", True):
        t = EP + dt.timedelta(microseconds=e["T"])
    else:
        t = to_naive(e["T"])
    if p.get("tcls"):
        t = SubDT.combine(t.date(), t.timetz())
    return t


def payload_of(e):
    """(args, kwargs, labels, extra keys) of the schedule as the case's `pay` describes them; None = the key is left out
    (label dict only).  args: a list, a tuple or a deque (pydantic turns the last two into a list), with the entry's number
    first when it travels there, then nested JSON values; without `pay`: args = [number], kwargs = {}, no labels."""
    p = e.get("pay")
    if not p:
        return [e["sid"]], {}, None, {}
    car = p.get("carrier", "args")
    items = ([e["sid"]] if car == "args" else []) + list(p.get("xargs") or [])
    shape = p.get("args", "list")
    args = None if shape == "missing" else tuple(items) if shape == "tuple" else collections.deque(items) if shape == "deque" \
        else items
    assert args is not None or not items
    kwargs = p.get("kwargs")
    if car == "kwargs":
        kwargs = dict(kwargs or {}, sid=e["sid"])
    # label values may be spelled the way the C16 cases spell values that are not JSON natives ({"__enum__": ["Kind", "A"]} = a
    # member of a str-mixin Enum, {"__sub__": ["int", 3]} = an instance of an int subclass ...): decoded by source_driver.dec -
    # the identity on everything else
    labels = dec(p.get("labels"))
    if car == "labels":
        labels = dict(labels or {}, sid=e["sid"])
    return args, (None if kwargs is None else dict(kwargs)), (None if labels is None else dict(labels)), dict(p.get("extra") or {})


def make_sched(i, e):
    args, kwargs, labels, _ = payload_of(e)
    kw = dict(task_name=e.get("task") or "task_%d" % i, labels=dict(labels or {}, src=i), args=[] if args is None else args,
              kwargs=kwargs or {}, schedule_id="s%d" % e["sid"])
    if e["kind"] == "one":
        kw["time"] = time_of(e)
    else:
        kw["cron"] = e["cron"]
    if e.get("off"):
        kw["cron_offset"] = cron_offset_of(e)
    return ScheduledTask(**kw)


class Common:
    def _begin(self):
        k = self.polls
        self.polls += 1
        St.log.append(("list_call", now_us(), self.idx, k))
        if k > (self.case["end"] - self.case["start"]) // 60_000_000 + 8:
            raise Runaway("source %d polled %d times" % (self.idx, k + 1))
        return k

    async def _wait(self, k):
        lat = self.case["lat"][k][self.idx] if k < len(self.case["lat"]) else 0
        await asyncio.sleep(lat / 1_000_000)
        if [k, self.idx] in self.case.get("lfail", []):
            St.log.append(("list_fail", now_us(), self.idx, k))
            raise Inject("listing")

    def _pre(self, task):
        """pre_send of a source that overrides it (`cb.pre`): observed, then the inherited one"""
        St.log.append(("pre", now_us(), self.idx, sid_of(task), attempt_now()))
        return super().pre_send(task)


# ------------------------------------------------------------------ how a source's callbacks are WRITTEN (`cb` of a source)
# Without `cb` a source is what it always was here: `async def get_schedules`, inherited pre_send, post_send a plain def that
# does its work.  With it, get_schedules / pre_send / post_send do the SAME work at the same virtual instants but are written
# the way `cb.list` / `cb.pre` / `cb.post` say: sync = plain def doing the work, async = `async def`, every other style a
# plain def that RETURNS an awaitable - coro = a coroutine object, task / future / awaitobj (object with __await__ only: the
# work runs when it is awaited - a lazy ORM query) / gencoro (generator-based) / gather / shield as in source_driver.deliver,
# done_future = a Future already holding the outcome - and are found by the scheduler where `cb.bind` says: methods of the
# class, or attributes set on the instance AFTER the scheduler was built (bound method / callable object / functools.partial).
def hand_back(style, do):
    if style == "sync":
        return do()
    if style == "done_future":
        fut = asyncio.get_running_loop().create_future()
        try:
            fut.set_result(do())
        except Exception as e:  # noqa: BLE001 - handed over through the future
            fut.set_exception(e)
        return fut

    async def work():
        return do()

    return deliver("async" if style == "coro" else style, work, St.started)


def written(style, do):
    """the function (self, task) that does `do(self, task)` in the given style"""
    if style == "sync":
        return do
    if style == "async":
        async def cb(self, task):
            return do(self, task)
    else:
        def cb(self, task):
            return hand_back(style, lambda: do(self, task))
    return cb


def styled(base, cb):
    """(subclass of the driver source `base` written as `cb` says, the late-bound attributes {name: function (self, task)})"""
    ls, bind = cb.get("list", "async"), cb.get("bind", "class")
    ns, fns = {}, {}
    if ls != "async":
        def get_schedules(self):
            return deliver("async" if ls == "coro" else ls, lambda: base.get_schedules(self), St.started)
        ns["get_schedules"] = get_schedules
    if cb.get("pre"):
        fns["pre_send"] = written(cb["pre"], base._pre)
    if cb.get("post", "sync") != "sync" or bind != "class":
        fns["post_send"] = written(cb.get("post", "sync"), base.post_send)
    if bind == "class":
        ns.update(fns)
        fns = {}
    return type(base.__name__ + "Written", (base,), ns), fns


def late_bind(src, fns, bind):
    for name, fn in fns.items():
        setattr(src, name, types.MethodType(fn, src) if bind == "instance" else functools.partial(fn, src) if bind == "partial"
                else CallableObj(types.MethodType(fn, src)))


class Scripted(Common, ScheduleSource):
    def __init__(self, idx, spec, case):
        self.idx, self.case, self.polls = idx, case, 0
        self.removing = spec["kind"] == "removing"
        self.items = []

    def add(self, e):
        self.items.append((e["sid"], make_sched(self.idx, e)))

    def delete(self, e):
        self.items = [x for x in self.items if x[0] != e["sid"]]

    async def get_schedules(self):
        k = self._begin()
        await self._wait(k)
        snap = [st for _, st in self.items]
        St.log.append(("listed", now_us(), self.idx, k, [sid for sid, _ in self.items]))
        return snap

    def post_send(self, task):
        sid = sid_of(task)
        gone = []
        if self.removing and task.cron is None and task.time is not None:   # like the label source: one-shots only
            gone = [x[0] for x in self.items if x[1].schedule_id == task.schedule_id]
            self.items = [x for x in self.items if x[1].schedule_id != task.schedule_id]
        St.log.append(("post", now_us(), self.idx, sid, attempt_now(), gone))


class Lab(Common, LabelScheduleSource):
    def __init__(self, idx, spec, case, broker):
        LabelScheduleSource.__init__(self, broker)
        self.idx, self.case, self.polls = idx, case, 0
        self.tasks, self.dicts, self.shared = {}, {}, {}
        for name in sorted({e["task"] for e in spec["entries"]}):
            def fn(*a, **k):
                return None
            # `tlabels`: labels of the TASK itself (the label source merges them into every schedule of the task)
            self.tasks[name] = broker.register_task(fn, task_name=name, schedule=[], **dec((spec.get("tlabels") or {}).get(name) or {}))
        # dicts with neither `cron` nor `time` in a task's schedule list (the source skips them): [task, position, dict]
        self.noise = [(t, pos, dict(d)) for t, pos, d in spec.get("noise", [])]

    def entry(self, e):
        p = e.get("pay") or {}
        g = p.get("share")
        if g is not None and g in self.shared:      # ONE dict object in the schedule lists of several tasks
            return self.shared[g]
        args, kwargs, labels, extra = payload_of(e)
        d = dict(extra)
        d["_uid"] = e["sid"]
        for key, v in (("args", args), ("kwargs", kwargs), ("labels", labels)):
            if v is not None:
                d[key] = v
        if e["kind"] == "one":
            d["time"] = time_of(e)
        else:
            d["cron"] = e["cron"]
        if e.get("off"):
            d["cron_offset"] = cron_offset_of(e)
        if g is not None:
            self.shared[g] = d
        return d

    def add(self, e):
        d = self.dicts[e["sid"]] = self.entry(e)
        self.tasks[e["task"]].labels["schedule"].append(d)

    def delete(self, e):
        l = self.tasks[e["task"]].labels["schedule"]
        l[:] = [x for x in l if x is not self.dicts.get(e["sid"])]

    def add_noise(self):
        for t, pos, d in self.noise:
            l = self.tasks[t].labels["schedule"]
            l.insert(min(pos, len(l)), d)

    async def get_schedules(self):
        k = self._begin()
        await self._wait(k)
        got = await LabelScheduleSource.get_schedules(self)
        St.log.append(("listed", now_us(), self.idx, k, [sid_of(s) for s in got]))
        return got

    def lists(self):
        return {name: list(t.labels.get("schedule", [])) for name, t in self.tasks.items()}

    def post_send(self, task):
        """the real post_send; observed: WHICH trigger dicts it took out of the schedule lists (by object identity), named by
        the entry they were built for - the sent entry itself, or another one"""
        sid = sid_of(task)
        rec = ["post", now_us(), self.idx, sid, attempt_now(), []]
        St.log.append(rec)
        before = self.lists()
        try:
            return LabelScheduleSource.post_send(self, task)
        finally:
            after = self.lists()
            own = self.dicts.get(sid)
            for name, l in before.items():
                for d in l:
                    if sum(1 for x in l if x is d) > sum(1 for x in after.get(name, []) if x is d):
                        rec[5].append(sid if d is own else d.get("_uid", -1))


def run_case(case, opts):
    set_host(case.get("host"))          # one scheduler process has one system zone
    loop = XLoop()
    asyncio.set_event_loop(loop)
    loop.set_exception_handler(lambda *_: None)      # a future nobody waited for is an observation, not noise
    St.loop, St.base, St.log, St.attempts, St.src_index, St.started = loop, case["start"], [], {}, {}, []
    St.by_task = {e["task"]: e["sid"] for spec in case["sources"] for e in spec["entries"]
                  if (e.get("pay") or {}).get("carrier") == "task"}
    AsyncBroker.global_task_registry.clear()
    broker = Broker(case)
    sources, script, late = [], [], []
    for i, spec in enumerate(case["sources"]):
        cls, fns = (Lab if spec["kind"] == "label" else Scripted), {}
        if spec.get("cb"):
            cls, fns = styled(cls, spec["cb"])
        src = cls(i, spec, case, broker) if spec["kind"] == "label" else cls(i, spec, case)
        late.append((src, fns, (spec.get("cb") or {}).get("bind")))
        St.src_index[id(src)] = i
        sources.append(src)
        for e in spec["entries"]:
            if e.get("add") is None:
                src.add(e)
            else:
                script.append((e["add"], 0, src.add, e))
            if e.get("del") is not None:
                script.append((e["del"], 1, src.delete, e))
        if spec["kind"] == "label":
            src.add_noise()
    script.sort(key=lambda x: (x[0], x[1]))
    sch = TaskiqScheduler(broker, sources)
    for x in late:
        late_bind(*x)
    dead = {}

    async def scripter():
        for at, _, fn, e in script:
            d = at - now_us()
            if d > 0:
                await asyncio.sleep(d / 1_000_000)
            fn(e)

    async def main():
        entry = api.run_scheduler_task(sch) if case.get("api") else run.run_scheduler_loop(sch)
        t = asyncio.ensure_future(entry)
        s = asyncio.ensure_future(scripter())
        await asyncio.sleep((case["end"] - case["start"]) / 1_000_000)
        if t.done():
            dead["loop"] = repr(t.exception()) if not t.cancelled() else "cancelled"
        for x in (t, s):
            x.cancel()
        await asyncio.gather(t, s, return_exceptions=True)

    try:
        loop.run_until_complete(main())
    finally:
        pending = [t for t in asyncio.all_tasks(loop) if not t.done()]
        for t in pending:
            t.cancel()
        if pending:
            loop.run_until_complete(asyncio.gather(*pending, return_exceptions=True))
        asyncio.set_event_loop(None)
        loop.close()
    obs = assemble(case, St.log, dead)
    if case.get("host"):   # evidence only: what the C library makes of the host zone at the start / the end of the run
        obs["host"] = dict(zone=HOST[0], off_start_us=host_off_us(case["start"]), off_end_us=host_off_us(case["end"]),
                           local_start=(EP + dt.timedelta(microseconds=case["start"])).astimezone().replace(tzinfo=None).isoformat())
    return obs


def assemble(case, log, dead):
    """group the event log into polls: a poll ends with the loop's sleep"""
    polls, anomalies = [], []
    cur = None
    kicks, posts, pres = [], [], []

    def fresh():
        return dict(calls={}, listed={}, failed=set(), delays={}, spawns=[])

    cur = fresh()
    for ev in log:
        kind = ev[0]
        if kind == "list_call":
            cur["calls"][ev[2]] = ev[1]
        elif kind == "listed":
            cur["listed"][ev[2]] = (ev[1], ev[4])
        elif kind == "list_fail":
            cur["failed"].add(ev[2])
        elif kind == "delay":
            if ev[2] in cur["delays"]:
                anomalies.append("get_task_delay called twice for schedule %r in one poll" % ev[2])
            cur["delays"][ev[2]] = (ev[1], ev[3])
        elif kind == "spawn":
            if polls and ev[1] == polls[-1]["b"] and not (cur["calls"] or cur["listed"] or cur["delays"] or cur["spawns"]):
                # the send was handed to the loop through a wrapper coroutine: delayed_send() itself is called at the spawned
                # task's first step - after the loop's own sleep began, at the very same instant.  It belongs to the poll that
                # created it (a spawn at a LATER instant stays where it is and is flagged as before).
                polls[-1]["spawns"].append([ev[2], ev[3], ev[4], ev[5]])
            else:
                cur["spawns"].append([ev[2], ev[3], ev[4], ev[5], ev[1]])
        elif kind == "kick":
            kicks.append(ev)
        elif kind == "post":
            posts.append([ev[1], ev[2], ev[3], ev[4], sorted(set(ev[5]))])     # instant, source, entry, attempt, triggers removed
        elif kind == "pre":
            pres.append([ev[1], ev[2], ev[3], ev[4]])                              # instant, source, entry, attempt
        elif kind == "sleep":
            polls.append(close(case, cur, ev, anomalies))
            cur = fresh()
    tail = None
    if cur["calls"] or cur["listed"] or cur["spawns"]:
        tail = dict(calls=sorted(cur["calls"].items()), spawns=cur["spawns"])
    return dict(polls=polls, tail=tail, anomalies=anomalies, dead=dead,
                kicks=[[k[2], k[3], k[4], k[1], k[7], k[5], k[6], k[8]] for k in kicks], posts=posts, pres=pres)


def close(case, cur, sleep_ev, anomalies):
    nsrc = len(case["sources"])
    calls = [cur["calls"].get(i) for i in range(nsrc)]
    listings, snaps = [], []
    for i in range(nsrc):
        if i in cur["listed"]:
            at, sids = cur["listed"][i]
            snaps.append(at)
            row = []
            for sid in sids:
                if sid not in cur["delays"]:
                    anomalies.append("listed schedule %r never evaluated" % sid)
                    row.append([sid, "missing"])
                else:
                    row.append([sid, cur["delays"][sid][1]])
            listings.append(row)
        else:
            snaps.append(None)
            listings.append(None)
    body = [at for at, _ in cur["delays"].values()] + [s[4] for s in cur["spawns"]] + [sleep_ev[1]]
    if len(set(body)) != 1:
        anomalies.append("body of one iteration spread over several instants: %r" % sorted(set(body)))
    return dict(calls=calls, snaps=snaps, b=sleep_ev[1], listings=listings, spawns=[s[:4] for s in cur["spawns"]],
                sleep_us=round(sleep_ev[2] * 1_000_000), sleep_hex=float(sleep_ev[2]).hex())
