"""Implementation driver for C11: one task, one send, the real encode -> Receiver.callback -> SimpleRetryMiddleware
-> AsyncKicker.kiq -> kick loop until nothing is re-sent.  Built on labels_driver's scenario plumbing (real decorated
task, recording broker / middleware / result backend, Context inside the body).

case: {"ser", "mw": {"count", "label", "nror"}, "labels": [[key cps, typed value]...], "outs": ["F"|"S"|"N", ...]
       (the last one repeats), "args": [...], "kwargs": {...}}
observation: {"sent_id", "execs": [{"out", "labels", "task_id", "args", "stored", "is_err", "res_labels", "resent",
       "resent_ids", "raised"}...], "undelivered": n}"""
import labels_driver as LD

ACT = {"F": "fail", "S": "ok", "N": "noresult"}


def run_case(case, opts):
    lc = dict(ser=case.get("ser", "json"), mw=dict(case["mw"], enabled=True), repeat_last=True, guard=case.get("guard", 40),
              tasks=[dict(labels=case["labels"], shared=False)],
              ops=[dict(op="kicker", t=0), dict(op="with_task_id", k=0, id="c0"),
                   dict(op="kiq", k=0, plan=[ACT[o] for o in case["outs"]], args=case.get("args", []),
                        kwargs=case.get("kwargs", {}))])
    o = LD.run_case(lc, opts)
    s = o["sent"][0]
    execs, undelivered = [], 0
    for at in s["chain"]:
        if at["nbody"] == 0:
            undelivered += 1
            continue
        execs.append(dict(out={v: k for k, v in ACT.items()}.get(at["act"], at["act"]), labels=at["ctx"], pre=at["pre"],
                          task_id=at.get("ctx_tid"), args=at["args"], stored=at["res"] is not None,
                          is_err=at.get("res_err"), res_exc=at.get("res_exc"), res_labels=at["res"], res_tid=at.get("res_tid"),
                          resent=len(at["resent"]), resent_ids=[m["task_id"] for m in at["resent"]],
                          resent_wire=[m["wire"] for m in at["resent"]], raised=at["callback_raised"], nbody=at["nbody"]))
    return dict(sent_id=s.get("task_id"), err=s["err"], wire=s.get("wire"), execs=execs, undelivered=undelivered,
                final_task_labels=o["final"][0], other_str=o["other_str"])
