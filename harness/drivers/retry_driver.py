"""Implementation driver for C11: one task, one send, the real encode -> Receiver.callback -> SimpleRetryMiddleware
-> AsyncKicker.kiq -> kick loop until nothing is re-sent.  Built on labels_driver's scenario plumbing (real decorated
task, recording broker / middleware / result backend, Context inside the body).

case: {"ser", "mw": {"count", "label", "nror"}, "labels": [[key cps, typed value]...], "outs": ["F"|"S"|"N", ...]
       (the last one repeats), "args": [...], "kwargs": {...}, optional "env": {...}}
observation: {"sent_id", "execs": [{"out", "labels", "task_id", "args", "stored", "is_err", "res_labels", "resent",
       "resent_ids", "raised"}...], "undelivered": n}

"env" (optional) is the worker / broker configuration the middleware lives in - everything the property does not
mention and that therefore must not change the number of executions:
  propagate, validate, ack, A, P, N, wtt   Receiver(...) keyword arguments (propagate_exceptions, validate_params, ack_type,
                              max_async_tasks, max_prefetch, max_tasks_to_execute, wait_tasks_timeout)
  cli: argv | None            the same options given on the worker's command line instead: the real WorkerArgs.from_cli +
                              start_listen compute the Receiver keyword arguments (harness/cli_glue.py)
  ackable: None|"sync"|"async"  the message is delivered as bytes or as an AckableMessage with a sync / async ack
  via: "callback"|"listen"    each delivery is `await receiver.callback(msg)` or a whole `receiver.listen()` session
                              (prefetcher -> queue -> runner -> semaphores -> callback task) whose broker yields that message
  fresh: bool                 a new Receiver object for every delivery (worker restarted between attempts)
  fn: "async"|"sync"|"agen_dep"|"gen_dep"|"sync_gen_dep"|"dep_fails"   shape of the task function: coroutine function,
                              plain function (thread pool), with an async / sync generator dependency (try/finally,
                              re-raising, swallowing teardown), or the failure raised by a dependency (not by the body)
  fail_by: "raise"|"falsy"|"timeout"   how an "F" attempt fails: ValueError, an exception object that is falsy
                              (__len__ = 0), or by exceeding the task's `timeout` label (virtual time)
  mw_before / mw_mid / mw_after: [kind...]   other middlewares before RecMiddleware, between it and the retry
                              middleware, after the retry middleware (kinds: see MW_KINDS); mw_late: they are added
                              after the Receiver was constructed
  retry_cls: "base"|"sub"     SimpleRetryMiddleware itself or a trivial subclass of it
  fmt: "proxy"|"json"         the broker's formatter: the default ProxyFormatter (+ serializer) or taskiq's JSONFormatter
Nothing of /repo is edited or re-implemented: the env only chooses which real objects are built and how they are called.

"typed" (optional, see harness/retry_typed.py): the task function has annotated parameters (pydantic models with constant /
default_factory defaults, dataclasses, containers of them, plain types, none) and the caller passes structured values
(model / dataclass instances with fields left unset, dicts, lists, primitives; positionally, by keyword, omitted, through
*rest / **extra).  The function records the canonical form of what it received on EVERY attempt: exec["args"] is then
[[], {parameter: canonical value}] and the observation carries "typed_expect" ({parameter: canonical value | None}, the
claim about the first attempt) and "typed_src" (the function's source text).  case["args"] / case["kwargs"] are unused."""
import asyncio

import labels_driver as LD
import retry_typed as RT
import vloop
from taskiq import Context, SimpleRetryMiddleware, TaskiqDepends, TaskiqMiddleware
from taskiq.acks import AckableMessage, AcknowledgeType
from taskiq.exceptions import NoResultError
from taskiq.formatters.json_formatter import JSONFormatter
from taskiq.receiver import Receiver

ACT = {"F": "fail", "S": "ok", "N": "noresult"}
FAIL_ACT = {"raise": "fail", "falsy": "fail_falsy", "timeout": "hang"}
OUT_OF_ACT = {"fail": "F", "fail_falsy": "F", "hang": "F", "ok": "S", "noresult": "N"}


# ------------------------------------------------------------------ the environment's building blocks
class EmptyError(Exception):
    """a failure whose exception object is falsy"""

    def __len__(self):
        return 0


class SubRetry(SimpleRetryMiddleware):
    """a user's subclass of the retry middleware that changes nothing"""


class MwPlain(TaskiqMiddleware):
    pass


class MwSyncErr(TaskiqMiddleware):
    def on_error(self, message, result, exception):
        return None


class MwAsyncErr(TaskiqMiddleware):
    async def on_error(self, message, result, exception):
        await asyncio.sleep(0)


class MwSubst(TaskiqMiddleware):
    """substitutes the error of the result (only ever placed before the retry middleware, which decides afterwards)"""

    def on_error(self, message, result, exception):
        if isinstance(exception, NoResultError):      # on_error fires for the no-result signal too: leave that one alone
            return
        result.error = RuntimeError("substituted")
        result.return_value = "subst"


class MwTouch(TaskiqMiddleware):
    """changes fields of the result the statement does not speak about"""

    async def on_error(self, message, result, exception):
        result.return_value = "touched"
        result.log = "touched"


class MwHooks(TaskiqMiddleware):
    async def pre_execute(self, message):
        return message

    def post_execute(self, message, result):
        return None

    async def post_save(self, message, result):
        await asyncio.sleep(0)


class MwCopy(TaskiqMiddleware):
    """pre_execute hands on a deep copy of the message"""

    def pre_execute(self, message):
        return message.model_copy(deep=True)


class MwPostSaveRaises(TaskiqMiddleware):
    def post_save(self, message, result):
        raise RuntimeError("post_save failed")


MW_KINDS = dict(plain=MwPlain, sync_err=MwSyncErr, async_err=MwAsyncErr, subst=MwSubst, touch=MwTouch, hooks=MwHooks,
                copy=MwCopy, post_save_raises=MwPostSaveRaises)


def make_body(scen, env, typed=None):
    """the task function; same plan stepping / logging as labels_driver's body, in the shape env["fn"] asks for; with
    `typed`, the function with annotated parameters written by retry_typed.function_source"""
    fn = env.get("fn", "async")
    teardown = scen.teardown

    def next_act():
        if scen.repeat_last and len(scen.plan) == 1:
            return scen.plan[0]
        return scen.plan.pop(0) if scen.plan else "ok"

    def record(act, ctx, args, kwargs):
        scen.body_log.append({"act": act, "ctx": LD.enc_dict(ctx.message.labels), "tid": ctx.message.task_id,
                              "args": list(args), "kwargs": dict(kwargs)})

    def perform(act):
        if act == "fail":
            raise ValueError("planned failure")
        if act == "fail_falsy":
            raise EmptyError()
        if act == "noresult":
            raise NoResultError()
        return "ok"

    async def aperform(act):
        if act == "hang":
            await asyncio.sleep(3600)
            return "late"
        return perform(act)

    async def agen_dep():
        try:
            yield "agen"
        finally:
            teardown.append("agen")

    def gen_dep():
        try:
            yield "gen"
        except BaseException:
            teardown.append("gen-exc")
            raise
        teardown.append("gen")

    def gen_swallow():
        try:
            yield "gen"
        except Exception:  # noqa: BLE001
            teardown.append("gen-swallowed")

    def plan_dep(ctx: Context = TaskiqDepends()):
        """a dependency that fails instead of the body"""
        act = next_act()
        record(act, ctx, ctx.message.args, ctx.message.kwargs)
        if act in ("fail", "fail_falsy"):
            perform(act)
        return act

    if typed is not None:
        body, scen.typed_src = RT.make_function(typed, fn, dict(
            next_act=next_act, record=record, perform=perform, aperform=aperform, agen_dep=agen_dep, gen_dep=gen_dep,
            gen_swallow=gen_swallow))
    elif fn == "async":
        async def body(*args, ctx: Context = TaskiqDepends(), **kwargs):
            act = next_act()
            record(act, ctx, args, kwargs)
            return await aperform(act)
    elif fn == "sync":
        def body(*args, ctx: Context = TaskiqDepends(), **kwargs):
            act = next_act()
            record(act, ctx, args, kwargs)
            return perform(act)
    elif fn == "agen_dep":
        async def body(*args, ctx: Context = TaskiqDepends(), d: str = TaskiqDepends(agen_dep), **kwargs):
            act = next_act()
            record(act, ctx, args, kwargs)
            return await aperform(act)
    elif fn == "gen_dep":
        async def body(*args, ctx: Context = TaskiqDepends(), d: str = TaskiqDepends(gen_dep), **kwargs):
            act = next_act()
            record(act, ctx, args, kwargs)
            return await aperform(act)
    elif fn == "sync_gen_dep":
        def body(*args, ctx: Context = TaskiqDepends(), d: str = TaskiqDepends(gen_swallow), **kwargs):
            act = next_act()
            record(act, ctx, args, kwargs)
            return perform(act)
    elif fn == "dep_fails":
        async def body(*args, d: str = TaskiqDepends(plan_dep), g: str = TaskiqDepends(gen_dep), **kwargs):
            return await aperform(d)
    else:
        raise ValueError(fn)
    return body


class EnvReceiver:
    """what deliver_chain calls instead of a bare Receiver: builds the real Receiver as the env says and hands the
    message to it the way the env says"""

    def __init__(self, scen, broker, env, cli_kw):
        self.scen, self.broker, self.env, self.cli_kw = scen, broker, env, cli_kw
        # a Receiver serves one listen() (its runner ends holding a slot of the semaphore): a listen session is a worker
        # process of its own, so every delivery "via listen" gets a new Receiver
        self.recv = None if env.get("fresh") or env.get("via") == "listen" else self.build()

    def build(self):
        env = self.env
        if self.cli_kw is not None:
            kw = dict(self.cli_kw)
        else:
            at = env.get("ack")
            kw = dict(validate_params=env.get("validate", True), propagate_exceptions=env.get("propagate", True),
                      max_async_tasks=env.get("A", 1), max_prefetch=env.get("P", 0),
                      max_tasks_to_execute=env.get("N"), wait_tasks_timeout=env.get("wtt"),
                      ack_type=AcknowledgeType(at) if at else None)
        return Receiver(self.broker, run_startup=False, **kw)

    async def callback(self, data):
        recv = self.recv if self.recv is not None else self.build()
        acks = self.scen.acks
        msg = data
        if self.env.get("ackable") == "sync":
            msg = AckableMessage(data=data, ack=lambda: acks.append("sync"))
        elif self.env.get("ackable") == "async":
            async def ack():
                await asyncio.sleep(0)
                acks.append("async")
            msg = AckableMessage(data=data, ack=ack)
        if self.env.get("via") == "listen":
            await self.listen_once(recv, msg)
        else:
            await recv.callback(message=msg, raise_err=False)   # exactly what Receiver.runner does

    async def listen_once(self, recv, msg):
        """one real listen() session whose broker delivers exactly this message and then ends its stream"""
        box = {"started": False, "exc": None}
        done = asyncio.Event()
        real_cb = recv.callback

        async def cb(message, raise_err=False):
            box["started"] = True
            try:
                return await real_cb(message=message, raise_err=raise_err)
            except BaseException as e:  # noqa: BLE001
                box["exc"] = e
                raise
            finally:
                done.set()

        async def listen():
            yield msg

        recv.callback = cb
        self.broker.listen = listen
        try:
            await recv.listen(asyncio.Event())
            if box["started"]:
                await done.wait()       # wait_tasks_timeout may let listen() return before the execution is over
        finally:
            del self.broker.listen
            del recv.callback
        if box["exc"] is not None:
            raise box["exc"]


class EnvScenario(LD.Scenario):
    def __init__(self, case, uid, env, cli_kw, typed=None):
        super().__init__(case, uid)
        self.env, self.acks, self.teardown, self.typed_src = env, [], [], None
        body = make_body(self, env, typed)
        for b in self.brokers:
            if env.get("fmt") == "json":
                b.with_formatter(JSONFormatter())
            for name in self.names:
                t = b.find_task(name)
                if t is not None:
                    t.original_func = body
        if not env.get("mw_late"):
            self.install_middlewares()
        self.receivers = [EnvReceiver(self, b, env, cli_kw) for b in self.brokers]
        if env.get("mw_late"):
            self.install_middlewares()

    def install_middlewares(self):
        env = self.env
        for b in self.brokers:
            mws = b.middlewares
            ri = [i for i, m in enumerate(mws) if isinstance(m, SimpleRetryMiddleware)][0]
            if env.get("retry_cls") == "sub":
                old = mws[ri]
                mws[ri] = SubRetry(default_retry_count=old.default_retry_count, default_retry_label=old.default_retry_label,
                                   no_result_on_retry=old.no_result_on_retry)
                mws[ri].set_broker(b)

            def make(kinds):
                out = []
                for k in kinds:
                    m = MW_KINDS[k]()
                    m.set_broker(b)
                    out.append(m)
                return out

            mws[ri + 1:ri + 1] = make(env.get("mw_after", []))
            mws[ri:ri] = make(env.get("mw_mid", []))
            mws[0:0] = make(env.get("mw_before", []))


_UID = [0]


def run_env(lc, case, opts):
    """labels_driver.run_case for the fixed C11 history (kicker, with_task_id, kiq) on an EnvScenario"""
    env = case.get("env") or {}
    typed = case.get("typed")
    cli_kw = None
    if env.get("cli") is not None:
        import cli_glue
        from taskiq import InMemoryBroker
        cli_kw = cli_glue.receiver_kwargs_via_cli(list(env["cli"]), InMemoryBroker())   # before the virtual loop exists
    _UID[0] += 1
    uid = "e%d_%d" % (id(case) % 9973, _UID[0])
    op = lc["ops"][-1]

    async def main(loop):
        sc = EnvScenario(lc, uid, env, cli_kw, typed)
        k = sc.tasks[0].kicker()
        k.with_task_id("c0")
        args, kwargs, expect = op["args"], op["kwargs"], None
        if typed is not None:
            RT.reset()
            args, kwargs, expect = RT.build_call(typed, env.get("validate", True))   # what the user asked for (--no-parse)
        try:
            h = await k.kiq(*args, **kwargs)
            kerr, hid = None, h.task_id
        except Exception as e:  # noqa: BLE001
            kerr, hid = "%s: %s / %r" % (type(e).__name__, e, e.__cause__), None
        new = list(sc.kicked)
        del sc.kicked[:]
        rec = {"op": 2, "err": kerr, "handle_id": hid, "n": len(new), "plan": op["plan"], "chain": []}
        if new:
            b, m = new[0]
            rec.update(broker=b, task_id=m.task_id, task_name=m.task_name, bm_labels=LD.enc_dict(m.labels),
                       wire=LD.wire_of(sc.brokers[b], m))
            rec["chain"] = await sc.deliver_chain(b, m, rec["plan"])
        return {"names": sc.names, "sent": [rec], "final": sc.snapshot(), "acks": list(sc.acks),
                "typed_expect": expect, "typed_src": sc.typed_src,
                "teardown": list(sc.teardown), "cli_kw": None if cli_kw is None else {k: repr(v) for k, v in sorted(cli_kw.items())},
                "other_str": {k: [ord(c) for c in str(LD.dec({"t": "other", "k": k}))] for k in LD.OTHER_KINDS}}

    return vloop.run(main)


def run_case(case, opts):
    env = case.get("env")
    fail_act = FAIL_ACT[(env or {}).get("fail_by", "raise")]
    lc = dict(ser=case.get("ser", "json"), mw=dict(case["mw"], enabled=True), repeat_last=True, guard=case.get("guard", 40),
              tasks=[dict(labels=case["labels"], shared=False)],
              ops=[dict(op="kicker", t=0), dict(op="with_task_id", k=0, id="c0"),
                   dict(op="kiq", k=0, plan=[fail_act if o == "F" else ACT[o] for o in case["outs"]],
                        args=case.get("args", []), kwargs=case.get("kwargs", {}))])
    plain = env is None and case.get("typed") is None
    o = LD.run_case(lc, opts) if plain else run_env(lc, case, opts)
    s = o["sent"][0]
    execs, undelivered = [], 0
    for at in s["chain"]:
        if at["nbody"] == 0:
            undelivered += 1
            continue
        execs.append(dict(out=OUT_OF_ACT.get(at["act"], at["act"]), labels=at["ctx"], pre=at["pre"],
                          task_id=at.get("ctx_tid"), args=at["args"], stored=at["res"] is not None,
                          is_err=at.get("res_err"), res_exc=at.get("res_exc"), res_labels=at["res"], res_tid=at.get("res_tid"),
                          resent=len(at["resent"]), resent_ids=[m["task_id"] for m in at["resent"]],
                          resent_wire=[m["wire"] for m in at["resent"]], raised=at["callback_raised"], nbody=at["nbody"]))
    out = dict(sent_id=s.get("task_id"), err=s["err"], wire=s.get("wire"), execs=execs, undelivered=undelivered,
               final_task_labels=o["final"][0], other_str=o["other_str"])
    if not plain:
        out.update(acks=o["acks"], teardown=o["teardown"], cli_kw=o["cli_kw"])
    if case.get("typed") is not None:
        out.update(typed_expect=o["typed_expect"], typed_src=o["typed_src"])
    return out
