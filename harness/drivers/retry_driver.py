"""Implementation driver for C11: one task, one send, the real encode -> Receiver.callback -> SimpleRetryMiddleware
-> AsyncKicker.kiq -> kick loop until nothing is re-sent.  Built on labels_driver's scenario plumbing (real decorated
task, recording broker / middleware / result backend, Context inside the body).

case: {"ser", "mw": {"count", "label", "nror"}, "labels": [[key cps, typed value]...], "outs": ["F"|"S"|"N", ...]
       (the last one repeats), "args": [...], "kwargs": {...}, optional "env": {...}}
observation: {"sent_id", "execs": [{"out", "labels", "task_id", "args", "stored", "is_err", "res_labels", "resent",
       "resent_ids", "raised"}...], "undelivered": n}

"env" (optional) is the worker / broker configuration the middleware lives in - everything the property does not
mention and that therefore must not change the number of executions:
  propagate, validate, ack, A, P, N, wtt   Receiver(...) keyword arguments (propagate_exceptions, validate_params, ack_type,
                              max_async_tasks, max_prefetch, max_tasks_to_execute, wait_tasks_timeout)
  cli: argv | None            the same options given on the worker's command line instead: the real WorkerArgs.from_cli +
                              start_listen compute the Receiver keyword arguments (harness/cli_glue.py)
  ackable: None|"sync"|"async"  the message is delivered as bytes or as an AckableMessage with a sync / async ack
  via: "callback"|"listen"    each delivery is `await receiver.callback(msg)` or a whole `receiver.listen()` session
                              (prefetcher -> queue -> runner -> semaphores -> callback task) whose broker yields that message
  fresh: bool                 a new Receiver object for every delivery (worker restarted between attempts)
  fn: "async"|"sync"|"agen_dep"|"gen_dep"|"sync_gen_dep"|"dep_fails"   shape of the task function: coroutine function,
                              plain function (thread pool), with an async / sync generator dependency (try/finally,
                              re-raising, swallowing teardown), or the failure raised by a dependency (not by the body)
  fail_by: "raise"|"falsy"|"timeout"|"exc"   how an "F" attempt fails: ValueError, an exception object that is falsy
                              (__len__ = 0), by exceeding the task's `timeout` label (virtual time), or with the
                              exception(s) described by env["exc"]
  exc: spec | [spec...]       the exception of the i-th failing attempt (the list cycles); see "how an attempt fails" below:
                              every exception class taskiq ships (enumerated at run time), builtins, user subclasses of
                              both, exception groups, chained exceptions, and failures produced by taskiq's own code paths
                              (waiting for a sub-task whose result never arrives, a failing result backend, ctx.reject(), ...);
                              also failures that are BaseExceptions but not Exceptions: asyncio.CancelledError leaking out of
                              the task because an awaited inner task / future was cancelled, SystemExit (sys.exit() in library
                              code), KeyboardInterrupt, a user's own BaseException subclass, BaseExceptionGroup
  nr: spec                    how an "N" attempt signals no-result: NoResultError itself or a subclass of it declared HERE
  mw_before / mw_mid / mw_after: [kind...]   other middlewares before RecMiddleware, between it and the retry
                              middleware, after the retry middleware (kinds: see MW_KINDS); mw_late: they are added
                              after the Receiver was constructed
  retry_cls: "base"|"sub"     SimpleRetryMiddleware itself or a trivial subclass of it
  fmt: "proxy"|"json"         the broker's formatter: the default ProxyFormatter (+ serializer) or taskiq's JSONFormatter
  pause: None|"sleep0"|"sleep0x3"|"timer"|"future"   a coroutine-function body really suspends before it acts (one / three turns
                              of the loop, a timer of virtual time, a future somebody else resolves); None: the body finishes
                              without a single suspension point (pure computation, immediate raise)
  broker: "scripted"|"inmem"  "scripted" (default): the recording broker keeps every kicked message and the harness delivers them
                              one after the other.  "inmem": the attempts travel through the REAL taskiq InMemoryBroker - its own
                              kick() hands every message (the first one and every re-send of the retry middleware, sent from
                              INSIDE the failing attempt's run_task) to its own Receiver, in its default mode as a spawned asyncio
                              task per message, so attempts may overlap if the broker lets them; the harness only waits until all
                              spawned work has settled and then reads what the result backend (the real InmemoryResultBackend,
                              recording) HOLDS for the task id (observation "settled").  See InMemScenario.  Options:
      inplace: bool           InMemoryBroker(await_inplace=..)  (default False; True = kick awaits the callback in place, the
                              attempts nest inside on_error: known finding D17, generated at a small rate, see notes/C11.md)
      pool: n, stored: n      sync_tasks_pool_size, max_stored_results;  propagate / validate / A as for the Receiver
      startup: bool           broker.startup() before the send, broker.shutdown() after everything settled
      bystanders: n           n unrelated tasks (other name, other ids, really awaiting) are kicked through the same broker
                              right before the send and run interleaved with the attempts
      (ack, ackable, P, N, wtt, cli, via, fresh do not exist on that path and are ignored)
  wall: {"base", "mono0", "scope", "plan"}   the HOST'S WALL CLOCK (time.time()) as the code under test reads it is scripted and may
                              step backwards / forwards / be set / stand still WHILE AN ATTEMPT RUNS (NTP step correction, VM
                              restore, `date -s`, coarse clock tick) - see WallClock.  The statement does not mention the clock:
                              no observation may change.  Both paths (scripted and inmem).
Nothing of /repo is edited or re-implemented: the env only chooses which real objects are built and how they are called.

"typed" (optional, see harness/retry_typed.py): the task function has annotated parameters (pydantic models with constant /
default_factory defaults, dataclasses, containers of them, plain types, none) and the caller passes structured values
(model / dataclass instances with fields left unset, dicts, lists, primitives; positionally, by keyword, omitted, through
*rest / **extra).  The function records the canonical form of what it received on EVERY attempt: exec["args"] is then
[[], {parameter: canonical value}] and the observation carries "typed_expect" ({parameter: canonical value | None}, the
claim about the first attempt) and "typed_src" (the function's source text).  case["args"] / case["kwargs"] are unused."""
import asyncio
import concurrent.futures
import contextvars
import importlib
import inspect
import json
import pkgutil
import sys
import time as _time

import labels_driver as LD
import patchall
import retry_typed as RT
import vloop
from taskiq import Context, SimpleRetryMiddleware, TaskiqDepends, TaskiqMiddleware
from taskiq.acks import AckableMessage, AcknowledgeType
from taskiq.brokers.inmemory_broker import InMemoryBroker, InmemoryResultBackend
from taskiq.exceptions import NoResultError
from taskiq.formatters.json_formatter import JSONFormatter
from taskiq.receiver import Receiver

ACT = {"F": "fail", "S": "ok", "N": "noresult"}
FAIL_ACT = {"raise": "fail", "falsy": "fail_falsy", "timeout": "hang", "exc": "fail_exc"}
OUT_OF_ACT = {"fail": "F", "fail_falsy": "F", "hang": "F", "fail_exc": "F", "ok": "S", "noresult": "N"}


# ------------------------------------------------------------------ the environment's building blocks
class EmptyError(Exception):
    """a failure whose exception object is falsy"""

    def __len__(self):
        return 0


class SubRetry(SimpleRetryMiddleware):
    """a user's subclass of the retry middleware that changes nothing"""


class MwPlain(TaskiqMiddleware):
    pass


class MwSyncErr(TaskiqMiddleware):
    def on_error(self, message, result, exception):
        return None


class MwAsyncErr(TaskiqMiddleware):
    async def on_error(self, message, result, exception):
        await asyncio.sleep(0)


class MwSubst(TaskiqMiddleware):
    """substitutes the error of the result (only ever placed before the retry middleware, which decides afterwards)"""

    def on_error(self, message, result, exception):
        if isinstance(exception, NoResultError):      # on_error fires for the no-result signal too: leave that one alone
            return
        result.error = RuntimeError("substituted")
        result.return_value = "subst"


class MwTouch(TaskiqMiddleware):
    """changes fields of the result the statement does not speak about"""

    async def on_error(self, message, result, exception):
        result.return_value = "touched"
        result.log = "touched"


class MwHooks(TaskiqMiddleware):
    async def pre_execute(self, message):
        return message

    def post_execute(self, message, result):
        return None

    async def post_save(self, message, result):
        await asyncio.sleep(0)


class MwCopy(TaskiqMiddleware):
    """pre_execute hands on a deep copy of the message"""

    def pre_execute(self, message):
        return message.model_copy(deep=True)


class MwPostSaveRaises(TaskiqMiddleware):
    def post_save(self, message, result):
        raise RuntimeError("post_save failed")


MW_KINDS = dict(plain=MwPlain, sync_err=MwSyncErr, async_err=MwAsyncErr, subst=MwSubst, touch=MwTouch, hooks=MwHooks,
                copy=MwCopy, post_save_raises=MwPostSaveRaises)


# ------------------------------------------------------------------ how an attempt fails: the exception as a dimension
# The statement knows three outcomes of an attempt: it succeeds, it signals no-result, it FAILS.  Which exception a failing
# attempt dies of is not mentioned, so it must not change a single observation.  An exception is described by a spec (pure
# data, chosen by the generator); whether an attempt is "F" or "N" is decided by the CASE (env["exc"] is only ever used for
# "F" attempts, env["nr"] for "N" attempts) - never by asking taskiq's class hierarchy what a class derives from.
#   {"k": "taskiq", "mod": m, "name": n}      a class taskiq ships, looked up by name (list: enumerate_taskiq_exceptions)
#   {"k": "builtin", "name": n}               BUILTIN_EXC[n], or BASE_EXC[n]: a BaseException that is NOT an Exception
#                                             (asyncio.CancelledError, SystemExit, KeyboardInterrupt, BaseException)
#   {"k": "user", "base": spec, "also": builtin name | None, "name": class name, "traits": [...]}
#                                             a user's subclass of a taskiq / builtin class (optionally of a second, builtin
#                                             base; traits: falsy, eq_all, unhashable, str_raises - odd but legal dunder methods)
#   {"k": "group", "of": [spec...]}           ExceptionGroup of failures (BaseExceptionGroup as soon as one member is not an
#                                             Exception - Python's own rule, BaseExceptionGroup(..) picks the class)
#   {"k": "real", "how": h}                   the failure is produced by taskiq's own code, called the way a task would:
#       wait_result / wait_result_sent / gather   the task awaits a sub-task's result with a timeout and it never arrives
#       is_ready_raises / get_result_raises        the result backend fails while the task waits for a sub-task
#       reject                                     ctx.reject()
#       shared_kiq                                 kiq of a task of a shared broker that has no default broker
#     ... or by Python's / asyncio's own code, the way a BaseException that is not an Exception reaches a task body:
#       cancelled_task      the task awaits an inner asyncio task that it (or somebody) cancelled: CancelledError leaks out
#       cancelled_future    the task awaits a bare future that a loop callback cancels (with a message) meanwhile
#       cancelled_gather    the task awaits asyncio.gather(..) of inner tasks one of which gets cancelled
#       cancelled_wait_for  the task awaits asyncio.wait_for(inner, 10) and inner is cancelled long before the timeout
#       sys_exit            library code called by the task calls sys.exit(..)
#     (the body's own callback task is never cancelled: that is the worker's control flow, not a failing attempt)
#   on any of them: "chain": "cause_nr" | "context_nr" | "cause_other" | "cause_base" | "context_base" (raise .. from
#   NoResultError() / raised while a caught NoResultError is being handled / from OSError / from a CancelledError / raised while
#   a caught CancelledError is being handled), "reuse": the same exception object on every attempt, "bare": the class itself is
#   raised (`raise Cls`).
# nr spec: {"k": "nr" | "nr_sub" | "nr_subsub", "chain": "cause_fail" | "context_fail" | "cause_base" | "context_base" | None,
#           "bare": bool}
# Out of scope (said in notes/C11.md): StopIteration / StopAsyncIteration (Python itself rewrites them at function boundaries),
# GeneratorExit (Python's generator-closing protocol: a GeneratorExit that comes out of an awaited thread-pool future makes the
# interpreter close the awaiting coroutine chain - "coroutine ignored GeneratorExit" - with no taskiq code involved),
# exception groups that CONTAIN a no-result signal (neither clearly a failure nor clearly the signal), cancelling the task that
# runs Receiver.callback itself.
BUILTIN_EXC = {
    "Exception": Exception, "ValueError": ValueError, "TypeError": TypeError, "KeyError": KeyError, "LookupError": LookupError,
    "IndexError": IndexError, "AttributeError": AttributeError, "RuntimeError": RuntimeError,
    "NotImplementedError": NotImplementedError, "AssertionError": AssertionError, "ZeroDivisionError": ZeroDivisionError,
    "ArithmeticError": ArithmeticError, "OSError": OSError, "ConnectionError": ConnectionError,
    "ConnectionResetError": ConnectionResetError, "BrokenPipeError": BrokenPipeError, "FileNotFoundError": FileNotFoundError,
    "PermissionError": PermissionError, "InterruptedError": InterruptedError, "EOFError": EOFError, "MemoryError": MemoryError,
    "RecursionError": RecursionError, "BufferError": BufferError, "UnicodeError": UnicodeError, "ImportError": ImportError,
    "NameError": NameError, "Warning": Warning, "UserWarning": UserWarning, "DeprecationWarning": DeprecationWarning,
    "TimeoutError": TimeoutError, "asyncio.TimeoutError": asyncio.TimeoutError,
    "concurrent.futures.TimeoutError": concurrent.futures.TimeoutError, "asyncio.InvalidStateError": asyncio.InvalidStateError,
    "asyncio.QueueEmpty": asyncio.QueueEmpty, "asyncio.QueueFull": asyncio.QueueFull,
    "concurrent.futures.BrokenExecutor": concurrent.futures.BrokenExecutor,
}
# BaseExceptions that are not Exceptions.  Receiver.run_task catches BaseException: an attempt that dies of one of these is a
# failed attempt like any other (the statement: "a task that fails ... is executed again").
BASE_EXC = {
    "BaseException": BaseException, "asyncio.CancelledError": asyncio.CancelledError, "SystemExit": SystemExit,
    "KeyboardInterrupt": KeyboardInterrupt,
}
ALL_BUILTIN = dict(BUILTIN_EXC, **BASE_EXC)
CANCEL_PATHS = ("cancelled_task", "cancelled_future", "cancelled_gather", "cancelled_wait_for")
REAL_AWAITS = ("wait_result", "wait_result_sent", "gather", "is_ready_raises", "get_result_raises", "shared_kiq") + CANCEL_PATHS
REAL_SYNC = ("reject", "sys_exit")      # real paths that need no await: walked from a plain function too
# what the awaiting real paths raise on the unchanged tree - used ONLY where the path cannot be walked (a plain function
# cannot await): the class is then raised directly
REAL_DIRECT = {"wait_result": "TaskiqResultTimeoutError", "wait_result_sent": "TaskiqResultTimeoutError",
               "gather": "TaskiqResultTimeoutError", "is_ready_raises": "ResultIsReadyError",
               "get_result_raises": "ResultGetError", "shared_kiq": "SendTaskError", "reject": "TaskRejectedError"}
REAL_DIRECT_BUILTIN = dict({h: "asyncio.CancelledError" for h in CANCEL_PATHS}, sys_exit="SystemExit")


class UserNoResult(NoResultError):
    """a user's own no-result signal: a subclass of NoResultError declared by the harness"""


class UserNoResultSub(UserNoResult):
    """... and a subclass of that"""


NR_CLASSES = {"nr": NoResultError, "nr_sub": UserNoResult, "nr_subsub": UserNoResultSub}


def _construct(cls):
    """an instance of an exception class whose constructor we know nothing about"""
    try:
        return cls()
    except TypeError:
        pass
    ann = {}
    for k in reversed(cls.__mro__):
        for n, t in getattr(k, "__annotations__", {}).items():
            if not n.startswith("_") and "ClassVar" not in str(t):
                ann[n] = t
    try:
        return cls(**{n: (1.5 if "float" in str(t) else 3 if "int" in str(t) else "x") for n, t in ann.items()})
    except TypeError:
        pass
    params = [p for p in list(inspect.signature(cls.__init__).parameters.values())[1:]
              if p.default is p.empty and p.kind in (p.POSITIONAL_ONLY, p.POSITIONAL_OR_KEYWORD)]
    return cls(*["x" for _ in params])


def enumerate_taskiq_exceptions():
    """every exception class (BaseException subclass) defined in a module of the taskiq package that can be imported here, as
    [module, qualname], constructible ones only; NoResultError - the signal itself, by NAME - is not a way to fail"""
    import taskiq
    import warnings
    found, skipped = {}, []
    names = ["taskiq"]
    with warnings.catch_warnings():
        warnings.simplefilter("ignore")
        for mi in pkgutil.walk_packages(taskiq.__path__, "taskiq."):
            names.append(mi.name)
        for name in names:
            try:
                m = importlib.import_module(name)
            except BaseException as e:  # noqa: BLE001   optional dependencies, pydantic v1 models
                skipped.append([name, type(e).__name__])
                continue
            for o in list(vars(m).values()):
                if inspect.isclass(o) and issubclass(o, BaseException) and (o.__module__ or "").split(".")[0] == "taskiq":
                    found[(o.__module__, o.__qualname__)] = o
    out = []
    for (mod, qn), cls in sorted(found.items()):
        if qn == "NoResultError" or "." in qn:
            continue
        try:
            if not isinstance(_construct(cls), cls):
                raise TypeError("not an instance")
            out.append([mod, qn])
        except Exception as e:  # noqa: BLE001
            skipped.append(["%s.%s" % (mod, qn), "not constructible: %s" % type(e).__name__])
    real = [h for h in REAL_AWAITS if h not in CANCEL_PATHS] + ["reject"]
    return {"taskiq_excs": out, "skipped": skipped, "builtins": sorted(BUILTIN_EXC), "real": real,
            "base_builtins": sorted(BASE_EXC), "base_real": list(CANCEL_PATHS) + ["sys_exit"]}


def _exc_class(spec, cache):
    k = spec["k"]
    if k == "taskiq":
        return getattr(importlib.import_module(spec["mod"]), spec["name"])
    if k == "builtin":
        return ALL_BUILTIN[spec["name"]]
    if k == "user":
        key = json.dumps(spec, sort_keys=True)
        if key not in cache:
            bases = [_exc_class(spec["base"], cache)]
            if spec.get("also"):
                bases.append(ALL_BUILTIN[spec["also"]])
            ns = {"__module__": __name__, "__doc__": "a user's own exception class"}
            traits = spec.get("traits") or []
            if "falsy" in traits:
                ns["__bool__"] = lambda self: False
            if "eq_all" in traits:
                ns["__eq__"] = lambda self, other: True
                ns["__ne__"] = lambda self, other: False
                ns["__hash__"] = lambda self: 0
            if "unhashable" in traits:
                ns["__eq__"] = lambda self, other: self is other
                ns["__hash__"] = None
            if "str_raises" in traits:
                def bad_str(self):
                    raise RuntimeError("__str__ of the exception failed")
                ns["__str__"] = bad_str
            name = str(spec.get("name") or "UserError")
            try:
                cls = type(name, tuple(bases), ns)
                _construct(cls)
            except TypeError:           # the two bases do not combine (instance layout, constructor): the first one alone
                cls = type(name, tuple(bases[:1]), ns)
            cache[key] = cls
        return cache[key]
    raise ValueError(k)


def build_exception(spec, cache):
    """the exception object (or, with "bare", the class) of a non-"real" spec"""
    if spec["k"] == "group":
        # BaseExceptionGroup(..) is an ExceptionGroup iff every member is an Exception (Python's own rule)
        return BaseExceptionGroup("several sub-tasks failed", [build_exception(dict(s, bare=False), cache) for s in spec["of"]])
    cls = _exc_class(spec, cache)
    if spec.get("bare"):
        try:
            cls()
            return cls
        except TypeError:
            pass
    return _construct(cls)


def _raise_chained(exc, chain):
    if chain in ("cause_nr", "cause_fail", "cause_other"):
        raise exc from (NoResultError() if chain == "cause_nr" else ValueError("the cause") if chain == "cause_fail"
                        else OSError("the cause"))
    if chain == "context_nr":
        try:
            raise NoResultError()
        except NoResultError:
            raise exc
    if chain == "context_fail":
        try:
            raise ValueError("handled")
        except ValueError:
            raise exc
    if chain == "cause_base":
        raise exc from asyncio.CancelledError("the inner call was cancelled")
    if chain == "context_base":
        try:
            raise asyncio.CancelledError("the inner call was cancelled")
        except asyncio.CancelledError:
            raise exc
    raise exc


# ------------------------------------------------------------------ the host's wall clock
# taskiq reads the wall clock (`from time import time`): Receiver.run_task measures an attempt's duration with it (begin reading
# before the dependencies are resolved, end reading after the body returned / raised), taskiq.task.wait_result / taskiq.funcs.gather
# measure their timeout with it while they sleep on the event loop.  On the virtual-time loop the real wall clock does not move
# with the sleeps, so ONE stand-in is put in BY IDENTITY wherever a module of the package bound time.time (under whatever name, in
# whatever module: harness/patchall.replace_everywhere).  What it reads:
#   * a case with env["wall"]: the scripted WallClock of that case - `loop time + offset`, and the offset is the case's to change;
#   * any other case on a VLoop: the loop's virtual time (a well-behaved clock that moves with the sleeps);
#   * no VLoop running: the real clock.
_REAL_TIME = _time.time
_WALL = [None]          # the WallClock of the case that is running
FREEZE_CAP = 0.02       # a clock that "stands still" does so for at most this much virtual time (a coarse tick, not a dead clock:
                        # wait_result / gather poll the wall clock for their timeout and would never return under a dead one)


def _wall():
    wc = _WALL[0]
    if wc is not None:
        return wc.read()
    try:
        loop = asyncio.get_running_loop()
    except RuntimeError:
        return _REAL_TIME()
    return loop.time() if isinstance(loop, vloop.VLoop) else _REAL_TIME()


_NMODS = [0]


def _install_clock():
    """(again whenever modules were imported since: a module of the package loaded later binds the real time.time)"""
    if _NMODS[0] != len(sys.modules):
        patchall.replace_everywhere(_REAL_TIME, _wall)
        _NMODS[0] = len(sys.modules)


_install_clock()


class WallClock:
    """the host's wall clock as the code under test reads it - NOT the loop clock: the loop's monotonic virtual time goes on
    driving sleeps, timers and wait_for; the wall clock is `loop time + offset` and the offset can be changed under the code's feet.
    spec = env["wall"]:
      base    the reading when the run starts (seconds since the epoch; default 1.7e9)
      mono0   what the loop's monotonic clock reads then (arbitrary on a real host; run_env / run_inmem start the VLoop there)
      scope   "bound" (default): every place where the package bound time.time reads this clock;  "global": additionally
              time.time itself, for the duration of the run (code that says `import time; time.time()` at call time, logging)
      plan    [op | None, ...]: plan[i] = what happens to the host's clock while the i-th invocation of the task body (in the order
              the bodies start) is under way - i.e. AFTER Receiver.run_task took its begin reading and BEFORE it takes the end one:
                {"step": s}     the clock jumps by s seconds; s < 0 = backwards
                {"set": v}      the clock is set to the absolute value v and goes on running
                {"freeze": 1}   the clock stands still (equal readings) until this delivery is over, at most FREEZE_CAP
              with "late": true the event happens right before the body acts (after its pause, if it has one) instead of at its
              first statement.  The event is tied to the BODY (the driver's own code), not to who reads the clock.
    The clock is host-wide: bystander executions and overlapping attempts see each other's steps.  Nothing here says what the
    code under test should do with the readings; `log` = the events that really happened (attempt, stage, reading before / after)."""

    def __init__(self, loop, spec):
        self.loop = loop
        self.off = float(spec.get("base", 1.7e9)) - loop.time()
        self.plan = list(spec.get("plan") or [])
        self.frozen_at, self.fval = None, 0.0
        self.n, self.fired, self.log, self.durations = -1, set(), [], []

    def read(self):
        if self.frozen_at is not None:
            if self.loop.time() - self.frozen_at <= FREEZE_CAP:
                return self.fval
            self.release()
        return self.loop.time() + self.off

    def release(self):
        if self.frozen_at is not None:
            self.off = self.fval - self.loop.time()         # the clock goes on from where it stood
            self.frozen_at = None

    def _set(self, v):
        v = float(v)
        if self.frozen_at is not None:
            self.fval = v
        self.off = v - self.loop.time()

    def body_starts(self):
        self.n += 1
        self.tick("start")

    def tick(self, stage):
        op = self.plan[self.n] if 0 <= self.n < len(self.plan) else None
        if not op or self.n in self.fired or (stage == "late") != bool(op.get("late")):
            return
        self.fired.add(self.n)
        before = self.read()
        if "step" in op:
            self._set(before + float(op["step"]))
        elif "set" in op:
            self._set(op["set"])
        elif op.get("freeze"):
            if self.frozen_at is None:
                self.fval = before
            self.frozen_at = self.loop.time()
        self.log.append([self.n, stage, float(before).hex(), float(self.read()).hex()])

    def watch(self, backend):
        """note the measured duration of every result handed to `backend` (instance attribute around the bound set_result; the
        wrapper awaits the real one and adds no suspension point)"""
        real, durations = backend.set_result, self.durations

        async def set_result(task_id, result):
            durations.append(float(result.execution_time).hex())
            return await real(task_id, result)

        backend.set_result = set_result

    def observed(self):
        return {"events": self.log, "planned": len([op for op in self.plan if op]), "bodies": self.n + 1, "durations": self.durations}


def wall_of(env, loop, backends):
    """install the case's wall clock (None: the case has none); undo with wall_off"""
    _install_clock()
    spec = env.get("wall")
    if not spec:
        return None
    wc = _WALL[0] = WallClock(loop, spec)
    for b in backends:
        wc.watch(b)
    if spec.get("scope") == "global":
        _time.time = _wall          # (the stand-in itself: whoever binds it meanwhile holds what replace_everywhere puts in anyway)
    return wc


def wall_off():
    _WALL[0] = None
    _time.time = _REAL_TIME


def mono0_us(env):
    return int(float((env.get("wall") or {}).get("mono0", 0)) * 1_000_000)


class ChildMixin:
    """a result backend that additionally knows sub-tasks (ids "child..."): their result never arrives / asking for it fails"""
    child_mode = "never"

    async def is_result_ready(self, task_id):
        if str(task_id).startswith("child"):
            if self.child_mode == "is_ready_raises":
                raise ConnectionError("result backend is down")
            return self.child_mode == "get_result_raises"
        return await super().is_result_ready(task_id)

    async def get_result(self, task_id, with_logs=False):
        if str(task_id).startswith("child"):
            raise ConnectionError("result backend is down")
        return await super().get_result(task_id, with_logs=with_logs)


class ChildBackend(ChildMixin, LD.RecBackend):
    """the recording backend of the scripted path + sub-tasks"""


class DropBroker(LD.AsyncBroker):
    """the broker sub-tasks are sent through: the message leaves and no worker ever executes it"""

    def __init__(self, backend):
        super().__init__()
        n = [0]

        def gen():
            n[0] += 1
            return "child-sent-%d" % n[0]

        self.with_id_generator(gen)
        self.result_backend = backend
        self.sent = []

    async def kick(self, message):
        self.sent.append(message.task_id)

    async def listen(self):
        return
        yield b""  # pragma: no cover


def library_gives_up():
    """library code that ends 'the program' instead of raising an error"""
    import sys
    sys.exit("fatal: cannot continue")


async def cancelled_inner(how):
    """the task body awaits something of its own that gets cancelled: asyncio.CancelledError leaks out of the body although
    nobody cancelled the task that runs it"""
    loop = asyncio.get_running_loop()
    if how == "cancelled_task":
        inner = asyncio.ensure_future(asyncio.sleep(3600))
        await asyncio.sleep(0)
        inner.cancel()
        await inner
    elif how == "cancelled_future":
        fut = loop.create_future()
        loop.call_soon(fut.cancel, "the connection pool was closed")     # somebody else cancels it
        await fut
    elif how == "cancelled_gather":
        async def child(t):
            await asyncio.sleep(t)
            return t
        kids = [asyncio.ensure_future(child(0.01)), asyncio.ensure_future(child(3600))]
        loop.call_later(0.02, kids[1].cancel)
        try:
            await asyncio.gather(*kids)
        finally:
            for k in kids:
                k.cancel()
    else:
        inner = asyncio.ensure_future(asyncio.sleep(3600))
        loop.call_later(0.01, inner.cancel)
        await asyncio.wait_for(inner, 10)
    raise AssertionError("harness: %r returned instead of raising" % how)


async def real_failure(how, ctx, n):
    """walk the real taskiq code path `how` the way a task body would; it raises"""
    from taskiq.brokers.shared_broker import AsyncSharedBroker
    from taskiq.funcs import gather
    from taskiq.task import AsyncTaskiqTask
    backend = ctx.broker.result_backend
    if how in CANCEL_PATHS:
        await cancelled_inner(how)
    elif how == "sys_exit":
        library_gives_up()
    elif how == "reject":
        ctx.reject()
    elif how == "shared_kiq":
        async def sub():
            return 1
        await AsyncSharedBroker().task(task_name="shared_sub_%d" % n)(sub).kiq()
    elif how == "wait_result_sent":
        async def sub(x):
            return x
        handle = await DropBroker(backend).task(task_name="dropped_sub_%d" % n)(sub).kiq(n)
        await handle.wait_result(check_interval=0.01, timeout=0.03)
    elif how == "gather":
        await gather(AsyncTaskiqTask("child-a%d" % n, backend), AsyncTaskiqTask("sibling-ready-%d" % n, backend),
                     timeout=0.03, periodicity=0.01)
    else:
        backend.child_mode = how if how in ("is_ready_raises", "get_result_raises") else "never"
        await AsyncTaskiqTask("child-%d" % n, backend).wait_result(check_interval=0.01, timeout=0.03)
    raise AssertionError("harness: the path %r returned instead of raising" % how)


class Failures:
    """per scenario: which exception the i-th failing / no-result attempt dies of"""

    def __init__(self, env):
        exc = env.get("exc")
        self.specs = [exc] if isinstance(exc, dict) else list(exc or [])
        self.nr = env.get("nr") or {"k": "nr"}
        self.cache, self.kept, self.n, self.log, self.ctx, self.errors = {}, {}, 0, [], None, []

    def _note(self, e, spec):
        cls = e if inspect.isclass(e) else type(e)
        self.log.append({"spec": spec, "cls": "%s.%s" % (cls.__module__, cls.__qualname__), "bare": inspect.isclass(e)})

    def next_spec(self):
        spec = self.specs[self.n % len(self.specs)] if self.specs else {"k": "builtin", "name": "ValueError"}
        self.n += 1
        return spec

    def needs_await(self):
        spec = self.specs[self.n % len(self.specs)] if self.specs else {}
        return spec.get("k") == "real" and spec.get("how") in REAL_AWAITS

    def _plain(self, spec):
        i = (self.n - 1) % max(1, len(self.specs))
        if spec.get("reuse") and i in self.kept:
            return self.kept[i]
        e = build_exception(spec, self.cache)
        if spec.get("reuse"):
            self.kept[i] = e
        return e

    def fail_sync(self):
        """raise the next failure from synchronous code"""
        spec = self.next_spec()
        if spec["k"] == "real":
            if spec["how"] in REAL_SYNC and (self.ctx is not None or spec["how"] != "reject"):
                try:
                    library_gives_up() if spec["how"] == "sys_exit" else self.ctx.reject()
                except BaseException as e:  # noqa: BLE001
                    self._note(e, spec)
                    _raise_chained(e, spec.get("chain"))
            # a plain function cannot await: the class the path raises, directly
            if spec["how"] in REAL_DIRECT_BUILTIN:
                spec = dict(spec, k="builtin", name=REAL_DIRECT_BUILTIN[spec["how"]], direct=True)
            else:
                spec = dict(spec, k="taskiq", mod="taskiq.exceptions", name=REAL_DIRECT[spec["how"]], direct=True)
        e = self._plain(spec)
        self._note(e, spec)
        _raise_chained(e, spec.get("chain"))

    async def fail_async(self):
        if not self.needs_await():
            return self.fail_sync()
        spec = self.next_spec()
        try:
            await real_failure(spec["how"], self.ctx, self.n)
        except AssertionError as e:
            self.errors.append(str(e))
            raise
        except BaseException as e:  # noqa: BLE001   (CancelledError of an inner future is what some paths are about)
            self._note(e, spec)
            if spec.get("chain"):
                _raise_chained(e, spec["chain"])
            raise

    def noresult(self):
        spec = self.nr
        cls = NR_CLASSES[spec.get("k", "nr")]
        e = cls if spec.get("bare") else cls()
        self._note(e, spec)
        _raise_chained(e, spec.get("chain"))


async def pause(kind):
    """a body that really suspends before it acts"""
    if not kind:
        return
    if kind == "sleep0":
        await asyncio.sleep(0)
    elif kind == "sleep0x3":
        for _ in range(3):
            await asyncio.sleep(0)
    elif kind == "timer":
        await asyncio.sleep(0.01)
    elif kind == "future":
        loop = asyncio.get_running_loop()
        fut = loop.create_future()
        loop.call_soon(fut.set_result, None)
        await fut
    else:
        raise ValueError(kind)


def make_body(scen, env, typed=None):
    """the task function; same plan stepping / logging as labels_driver's body, in the shape env["fn"] asks for; with
    `typed`, the function with annotated parameters written by retry_typed.function_source"""
    fn = env.get("fn", "async")
    teardown = scen.teardown

    def next_act():
        if scen.repeat_last and len(scen.plan) == 1:
            return scen.plan[0]
        return scen.plan.pop(0) if scen.plan else "ok"

    failures = scen.failures = Failures(env)

    def record(act, ctx, args, kwargs):
        failures.ctx = ctx
        rec = {"act": act, "ctx": LD.enc_dict(ctx.message.labels), "tid": ctx.message.task_id,
               "args": list(args), "kwargs": dict(kwargs)}
        if hasattr(scen, "attempt_of"):         # InMemScenario: which delivery this body invocation belongs to
            rec["attempt"] = scen.attempt_of(ctx.message)
        scen.body_log.append(rec)
        if _WALL[0] is not None:
            _WALL[0].body_starts()      # the host's clock may change now: the attempt is under way

    def late():
        if _WALL[0] is not None:
            _WALL[0].tick("late")

    def perform(act):
        late()
        if act == "fail":
            raise ValueError("planned failure")
        if act == "fail_falsy":
            raise EmptyError()
        if act == "fail_exc":
            failures.fail_sync()
        if act == "noresult":
            failures.noresult()
        return "ok"

    async def aperform(act):
        await pause(env.get("pause"))
        late()
        if act == "hang":
            await asyncio.sleep(3600)
            return "late"
        if act == "fail_exc":
            await failures.fail_async()
        return perform(act)

    async def agen_dep():
        try:
            yield "agen"
        finally:
            teardown.append("agen")

    def gen_dep():
        try:
            yield "gen"
        except BaseException:
            teardown.append("gen-exc")
            raise
        teardown.append("gen")

    def gen_swallow():
        try:
            yield "gen"
        except Exception:  # noqa: BLE001
            teardown.append("gen-swallowed")

    def plan_dep(ctx: Context = TaskiqDepends()):
        """a dependency that fails instead of the body"""
        act = next_act()
        record(act, ctx, ctx.message.args, ctx.message.kwargs)
        if act in ("fail", "fail_falsy") or (act == "fail_exc" and not failures.needs_await()):
            perform(act)        # (a failure that has to be awaited is left to the body)
        return act

    if typed is not None:
        body, scen.typed_src = RT.make_function(typed, fn, dict(
            next_act=next_act, record=record, perform=perform, aperform=aperform, agen_dep=agen_dep, gen_dep=gen_dep,
            gen_swallow=gen_swallow))
    elif fn == "async":
        async def body(*args, ctx: Context = TaskiqDepends(), **kwargs):
            act = next_act()
            record(act, ctx, args, kwargs)
            return await aperform(act)
    elif fn == "sync":
        def body(*args, ctx: Context = TaskiqDepends(), **kwargs):
            act = next_act()
            record(act, ctx, args, kwargs)
            return perform(act)
    elif fn == "agen_dep":
        async def body(*args, ctx: Context = TaskiqDepends(), d: str = TaskiqDepends(agen_dep), **kwargs):
            act = next_act()
            record(act, ctx, args, kwargs)
            return await aperform(act)
    elif fn == "gen_dep":
        async def body(*args, ctx: Context = TaskiqDepends(), d: str = TaskiqDepends(gen_dep), **kwargs):
            act = next_act()
            record(act, ctx, args, kwargs)
            return await aperform(act)
    elif fn == "sync_gen_dep":
        def body(*args, ctx: Context = TaskiqDepends(), d: str = TaskiqDepends(gen_swallow), **kwargs):
            act = next_act()
            record(act, ctx, args, kwargs)
            return perform(act)
    elif fn == "dep_fails":
        async def body(*args, d: str = TaskiqDepends(plan_dep), g: str = TaskiqDepends(gen_dep), **kwargs):
            return await aperform(d)
    else:
        raise ValueError(fn)
    return body


class EnvReceiver:
    """what deliver_chain calls instead of a bare Receiver: builds the real Receiver as the env says and hands the
    message to it the way the env says"""

    def __init__(self, scen, broker, env, cli_kw):
        self.scen, self.broker, self.env, self.cli_kw = scen, broker, env, cli_kw
        # a Receiver serves one listen() (its runner ends holding a slot of the semaphore): a listen session is a worker
        # process of its own, so every delivery "via listen" gets a new Receiver
        self.recv = None if env.get("fresh") or env.get("via") == "listen" else self.build()

    def build(self):
        env = self.env
        if self.cli_kw is not None:
            kw = dict(self.cli_kw)
        else:
            at = env.get("ack")
            kw = dict(validate_params=env.get("validate", True), propagate_exceptions=env.get("propagate", True),
                      max_async_tasks=env.get("A", 1), max_prefetch=env.get("P", 0),
                      max_tasks_to_execute=env.get("N"), wait_tasks_timeout=env.get("wtt"),
                      ack_type=AcknowledgeType(at) if at else None)
        return Receiver(self.broker, run_startup=False, **kw)

    async def callback(self, data):
        recv = self.recv if self.recv is not None else self.build()
        acks = self.scen.acks
        msg = data
        if self.env.get("ackable") == "sync":
            msg = AckableMessage(data=data, ack=lambda: acks.append("sync"))
        elif self.env.get("ackable") == "async":
            async def ack():
                await asyncio.sleep(0)
                acks.append("async")
            msg = AckableMessage(data=data, ack=ack)
        try:
            if self.env.get("via") == "listen":
                await self.listen_once(recv, msg)
            else:
                await recv.callback(message=msg, raise_err=False)   # exactly what Receiver.runner does
        finally:
            if _WALL[0] is not None:
                _WALL[0].release()      # a clock that stood still runs again when the delivery is over

    async def listen_once(self, recv, msg):
        """one real listen() session whose broker delivers exactly this message and then ends its stream"""
        box = {"started": False, "exc": None}
        done = asyncio.Event()
        real_cb = recv.callback

        async def cb(message, raise_err=False):
            box["started"] = True
            try:
                return await real_cb(message=message, raise_err=raise_err)
            except BaseException as e:  # noqa: BLE001
                box["exc"] = e
                raise
            finally:
                done.set()

        async def listen():
            yield msg

        recv.callback = cb
        self.broker.listen = listen
        try:
            await recv.listen(asyncio.Event())
            if box["started"]:
                await done.wait()       # wait_tasks_timeout may let listen() return before the execution is over
        finally:
            del self.broker.listen
            del recv.callback
        if box["exc"] is not None:
            raise box["exc"]


class EnvScenario(LD.Scenario):
    def __init__(self, case, uid, env, cli_kw, typed=None):
        super().__init__(case, uid)
        self.env, self.acks, self.teardown, self.typed_src = env, [], [], None
        body = make_body(self, env, typed)
        for b in self.brokers:
            if env.get("exc") is not None:
                b.result_backend = ChildBackend(self.log)      # before any Receiver exists
            if env.get("fmt") == "json":
                b.with_formatter(JSONFormatter())
            for name in self.names:
                t = b.find_task(name)
                if t is not None:
                    t.original_func = body
        if not env.get("mw_late"):
            self.install_middlewares()
        self.receivers = [EnvReceiver(self, b, env, cli_kw) for b in self.brokers]
        if env.get("mw_late"):
            self.install_middlewares()

    def install_middlewares(self):
        env = self.env
        for b in self.brokers:
            mws = b.middlewares
            ri = [i for i, m in enumerate(mws) if isinstance(m, SimpleRetryMiddleware)][0]
            if env.get("retry_cls") == "sub":
                old = mws[ri]
                mws[ri] = SubRetry(default_retry_count=old.default_retry_count, default_retry_label=old.default_retry_label,
                                   no_result_on_retry=old.no_result_on_retry)
                mws[ri].set_broker(b)

            def make(kinds):
                out = []
                for k in kinds:
                    m = MW_KINDS[k]()
                    m.set_broker(b)
                    out.append(m)
                return out

            mws[ri + 1:ri + 1] = make(env.get("mw_after", []))
            mws[ri:ri] = make(env.get("mw_mid", []))
            mws[0:0] = make(env.get("mw_before", []))


# ------------------------------------------------------------------ the attempts travel through the real InMemoryBroker
# Everything above delivers the kicked messages ONE AFTER THE OTHER (the scripted broker collects them, the harness hands the
# next one to a Receiver when the previous delivery is over).  A real broker does not wait: SimpleRetryMiddleware.on_error
# re-sends from INSIDE the failing attempt's run_task, and taskiq's own InMemoryBroker.kick (default mode) spawns
# Receiver.callback for the re-sent message as an asyncio task at once - the next attempt exists while the failing one has
# not saved its result yet.  Which of the two saves LAST decides what the result backend holds in the end, and the statement
# says it must be the final attempt's outcome.  Here the real InMemoryBroker does all the deliveries itself; the harness
# attributes what it sees to the delivery it belongs to (a context variable set when Receiver.callback starts; for bodies in
# pool threads the message object handed to run_task), waits until everything spawned is over and then asks the backend.
_ATTEMPT = contextvars.ContextVar("c11_attempt", default=None)     # number of the delivery (callback invocation) we are in
_KICKING = contextvars.ContextVar("c11_kicking", default=None)     # the BrokerMessage InMemoryBroker.kick is busy with


class ObservedInMemoryBroker(InMemoryBroker):
    """taskiq's InMemoryBroker; kick() notes who sent what and then runs InMemoryBroker.kick itself"""
    scen = None

    async def kick(self, message):
        scen = self.scen
        scen.kicks.append((_ATTEMPT.get(), message))
        if len(scen.kicks) > scen.guard + scen.nby:       # a retry loop that never ends (the scripted path's guard)
            scen.dropped += 1
            return
        tok = _KICKING.set(message)
        try:
            await super().kick(message)
        finally:
            _KICKING.reset(tok)


class InMemBackend(ChildMixin, InmemoryResultBackend):
    """taskiq's InmemoryResultBackend (it really keeps the results) + a note of every set_result call + sub-tasks"""

    def __init__(self, scen, max_stored):
        InmemoryResultBackend.__init__(self, max_stored_results=max_stored)
        self.scen, self.saved = scen, []

    async def set_result(self, task_id, result):
        at = _ATTEMPT.get()
        self.saved.append((at, task_id, result))
        self.scen.log.append(("save", task_id, LD.enc_dict(result.labels), bool(result.is_err),
                              type(result.error).__name__ if result.error is not None else None, at))
        await super().set_result(task_id, result)


class TagRecMiddleware(TaskiqMiddleware):
    """labels_driver.RecMiddleware with the delivery number on every entry"""

    def __init__(self, log):
        super().__init__()
        self.log = log

    def pre_execute(self, message):
        self.log.append(("pre", message.task_id, LD.enc_dict(message.labels), message.task_name, list(message.args),
                         dict(message.kwargs), _ATTEMPT.get()))
        return message

    def post_execute(self, message, result):
        self.log.append(("post", message.task_id, LD.enc_dict(message.labels), LD.enc_dict(result.labels), _ATTEMPT.get()))


def _result_content(r):
    return json.dumps([bool(r.is_err), type(r.error).__name__ if r.error is not None else None, repr(r.return_value),
                       LD.enc_dict(r.labels)], default=str, sort_keys=True)


class InMemScenario:
    """one real InMemoryBroker (+ its own Receiver, thread pool and InmemoryResultBackend), the recording middleware, the retry
    middleware, the task function of make_body; instance attributes of the broker's Receiver (`callback`, `run_task`) are
    wrapped for attribution only - each wrapper awaits the real bound method and adds no suspension point of its own"""

    def __init__(self, case, uid, env, typed=None):
        self.case, self.env = case, env
        self.log, self.body_log, self.plan, self.kicks, self.attempts = [], [], [], [], []
        self.repeat_last = bool(case.get("repeat_last"))
        self.guard = int(case.get("guard", 40))
        self.nby = int(env.get("bystanders") or 0)
        self.acks, self.teardown, self.typed_src = [], [], None
        self.pending, self.dropped, self.msg_attempt = 0, 0, {}
        self.idle = asyncio.Event()
        mw = case.get("mw", {})
        kw = dict(cast_types=env.get("validate", True), propagate_exceptions=env.get("propagate", True),
                  await_inplace=bool(env.get("inplace", False)))
        if "A" in env and env["A"] is not None:
            kw["max_async_tasks"] = env["A"]
        if env.get("pool") is not None:
            kw["sync_tasks_pool_size"] = env["pool"]
        b = self.broker = ObservedInMemoryBroker(**kw)
        b.scen = self
        n = [0]

        def gen():
            n[0] += 1
            return "g%d" % (n[0] - 1)

        b.with_id_generator(gen)
        b.with_serializer({"json": LD.JSONSerializer, "pickle": LD.PickleSerializer}[case.get("ser", "json")]())
        if env.get("fmt") == "json":
            b.with_formatter(JSONFormatter())
        self.backend = b.result_backend = InMemBackend(self, env.get("stored", 100) if env.get("stored") is not None else 100)
        b.add_middlewares(TagRecMiddleware(self.log),
                          SimpleRetryMiddleware(default_retry_count=mw.get("count", 100), default_retry_label=mw.get("label", True),
                                                no_result_on_retry=mw.get("nror", True)))
        self.brokers = [b]
        self.install_middlewares()
        body = make_body(self, env, typed)
        t = case["tasks"][0]
        self.names = ["c%s_t0" % uid]

        async def placeholder(*args, **kwargs):      # (as EnvScenario does: the generated function has no module of its own)
            raise AssertionError("harness: the placeholder ran")

        self.tasks = [b.task(task_name=self.names[0], **LD.dec_pairs(t["labels"]))(placeholder)]
        self.tasks[0].original_func = body

        async def bystander(i):
            await asyncio.sleep(0)
            await asyncio.sleep(0.001 * (i + 1))
            return "by%d" % i

        self.by_task = b.task(task_name="c%s_bystander" % uid)(bystander)
        self.wrap_receiver(b.receiver)

    install_middlewares = EnvScenario.install_middlewares

    def snapshot(self):
        return [LD.enc_dict(t.labels) for t in self.tasks]

    def attempt_of(self, message):
        at = _ATTEMPT.get()
        if at is not None:
            return at
        ent = self.msg_attempt.get(id(message))         # a pool thread does not inherit the context of the loop's task
        return ent[0] if ent is not None and ent[1] is message else None

    def wrap_receiver(self, recv):
        scen = self
        real_cb, real_rt = recv.callback, recv.run_task

        def callback(message, raise_err=False):
            bm = _KICKING.get()
            st = {"n": len(scen.attempts), "tid": getattr(bm, "task_id", None), "raised": None, "done": False}
            scen.attempts.append(st)
            scen.pending += 1

            async def run():
                tok = _ATTEMPT.set(st["n"])
                try:
                    await real_cb(message=message, raise_err=raise_err)
                except BaseException as e:  # noqa: BLE001
                    st["raised"] = type(e).__name__
                    raise
                finally:
                    _ATTEMPT.reset(tok)
                    if _WALL[0] is not None:
                        _WALL[0].release()
                    st["done"] = True
                    scen.pending -= 1
                    if not scen.pending:
                        scen.idle.set()

            return run()

        async def run_task(*a, **kw):
            message = kw.get("message", a[1] if len(a) > 1 else None)
            scen.msg_attempt[id(message)] = (_ATTEMPT.get(), message)
            return await real_rt(*a, **kw)

        recv.callback, recv.run_task = callback, run_task

    async def settle(self):
        """wait until every delivery the broker spawned (and everything those spawned) is over"""
        for _ in range(500):
            seen = len(self.attempts)
            if self.pending:
                self.idle.clear()
                try:
                    await asyncio.wait_for(self.idle.wait(), 20000)      # virtual seconds
                except asyncio.TimeoutError:
                    return False
            try:
                await self.broker.wait_all()         # taskiq's own "wait for everything that was sent"
            except Exception:  # noqa: BLE001   (a delivery that raised: noted per attempt already)
                pass
            for _ in range(3):
                await asyncio.sleep(0)
            if not self.pending and len(self.attempts) == seen:
                return True
        return False

    def chain(self, tid):
        """the deliveries of task id `tid` in the order the broker started them, in labels_driver's attempt format"""
        mine = [st for st in self.attempts if st["tid"] == tid]
        index = {st["n"]: i for i, st in enumerate(mine)}
        out = []
        for st in mine:
            n = st["n"]
            body = [r for r in self.body_log if r.get("attempt") == n]
            new = [m for sender, m in self.kicks if sender == n]
            at = {"broker": 0, "task_id": tid, "callback_raised": st["raised"], "pre": None, "ctx": None, "post": None,
                  "post_res": None, "res": None, "act": None, "raised": None, "nbody": len(body), "args": None, "done": st["done"],
                  "resent": [dict(broker=0, task_id=m2.task_id, task_name=m2.task_name, bm_labels=LD.enc_dict(m2.labels),
                                  wire=LD.wire_of(self.broker, m2)) for m2 in new], "nsaves": 0}
            for ev in self.log:
                if ev[-1] != n:
                    continue
                if ev[0] == "pre":
                    at["pre"], at["pre_tid"], at["name"], at["margs"] = ev[2], ev[1], ev[3], [ev[4], ev[5]]
                elif ev[0] == "post":
                    at["post"], at["post_res"] = ev[2], ev[3]
                elif ev[0] == "save":
                    at["res"], at["res_tid"], at["res_err"], at["res_exc"] = ev[2], ev[1], ev[3], ev[4]
                    at["nsaves"] += 1
            if body:
                r = body[0]
                at.update(ctx=r["ctx"], act=r["act"], raised=r.get("raised"), args=[r["args"], r["kwargs"]], ctx_tid=r["tid"])
            out.append(at)
        return out, index

    async def settled(self, tid, index, quiet):
        """what the result backend holds for the task id now that nothing is running any more"""
        be = self.backend
        saves = [(index.get(at), r) for at, t, r in be.saved if t == tid]
        out = {"quiet": bool(quiet), "save_order": [i for i, _ in saves], "pending": self.pending, "dropped": self.dropped,
               "orphans": len([r for r in self.body_log if r.get("attempt") is None])
               + len([e for e in self.log if e[-1] is None]),
               "bystanders": [st["done"] and st["raised"] is None for st in self.attempts if st["tid"] != tid],
               "other_senders": len([1 for sender, m in self.kicks if m.task_id == tid and sender is not None and sender not in index])}
        ready = await be.is_result_ready(tid)
        out["held"] = bool(ready)
        if ready:
            held = await be.get_result(tid)
            frm, by = sorted({i for i, r in saves if r is held and i is not None}), "identity"
            if not frm:
                frm, by = sorted({i for i, r in saves if i is not None and _result_content(r) == _result_content(held)}), "content"
            out.update(held_from=frm, by=by, held_is_err=bool(held.is_err),
                       held_exc=type(held.error).__name__ if held.error is not None else None)
        return out


def run_inmem(lc, case, opts):
    """the fixed C11 history (kicker, with_task_id, kiq) on an InMemScenario: one send, the broker does the rest"""
    env = case.get("env") or {}
    typed = case.get("typed")
    _UID[0] += 1
    uid = "m%d_%d" % (id(case) % 9973, _UID[0])
    op = lc["ops"][-1]

    async def main(loop):
        loop.set_exception_handler(lambda lp, c: None)      # a delivery that raises is noted per attempt; nobody awaits its task
        sc = InMemScenario(lc, uid, env, typed)
        wc = wall_of(env, loop, [sc.backend])
        try:
            if env.get("startup"):
                await sc.broker.startup()
            k = sc.tasks[0].kicker()
            k.with_task_id("c0")
            args, kwargs, expect = op["args"], op["kwargs"], None
            if typed is not None:
                RT.reset()
                args, kwargs, expect = RT.build_call(typed, env.get("validate", True))
            sc.plan = list(op["plan"])
            for i in range(sc.nby):
                await sc.by_task.kicker().with_task_id("b%d" % i).kiq(i)
            try:
                h = await k.kiq(*args, **kwargs)
                kerr, hid = None, h.task_id
            except Exception as e:  # noqa: BLE001
                kerr, hid = "%s: %s / %r" % (type(e).__name__, e, e.__cause__), None
            quiet = await sc.settle()
            first = [m for sender, m in sc.kicks if sender is None and m.task_id == "c0"]
            rec = {"op": 2, "err": kerr, "handle_id": hid, "n": len(first), "plan": op["plan"], "chain": []}
            settled = None
            if first:
                m = first[0]
                rec.update(broker=0, task_id=m.task_id, task_name=m.task_name, bm_labels=LD.enc_dict(m.labels),
                           wire=LD.wire_of(sc.broker, m))
                rec["chain"], index = sc.chain(m.task_id)
                settled = await sc.settled(m.task_id, index, quiet)
        finally:
            wall_off()
            if env.get("startup"):
                await sc.broker.shutdown()
            else:
                sc.broker.executor.shutdown()
        if sc.failures.errors:
            raise RuntimeError("harness: %s" % sc.failures.errors)
        return {"names": sc.names, "sent": [rec], "final": sc.snapshot(), "acks": [], "raised_log": sc.failures.log,
                "wall": wc.observed() if wc is not None else None, "typed_expect": expect, "typed_src": sc.typed_src, "teardown": list(sc.teardown), "cli_kw": None, "settled": settled,
                "other_str": {k: [ord(c) for c in str(LD.dec({"t": "other", "k": k}))] for k in LD.OTHER_KINDS}}

    try:
        return vloop.run(main, mono0_us(env))
    finally:
        wall_off()


_UID = [0]


def run_env(lc, case, opts):
    """labels_driver.run_case for the fixed C11 history (kicker, with_task_id, kiq) on an EnvScenario"""
    env = case.get("env") or {}
    typed = case.get("typed")
    cli_kw = None
    if env.get("cli") is not None:
        import cli_glue
        from taskiq import InMemoryBroker
        cli_kw = cli_glue.receiver_kwargs_via_cli(list(env["cli"]), InMemoryBroker())   # before the virtual loop exists
    _UID[0] += 1
    uid = "e%d_%d" % (id(case) % 9973, _UID[0])
    op = lc["ops"][-1]

    async def main(loop):
        sc = EnvScenario(lc, uid, env, cli_kw, typed)
        wc = wall_of(env, loop, [b.result_backend for b in sc.brokers])
        k = sc.tasks[0].kicker()
        k.with_task_id("c0")
        args, kwargs, expect = op["args"], op["kwargs"], None
        if typed is not None:
            RT.reset()
            args, kwargs, expect = RT.build_call(typed, env.get("validate", True))   # what the user asked for (--no-parse)
        try:
            h = await k.kiq(*args, **kwargs)
            kerr, hid = None, h.task_id
        except Exception as e:  # noqa: BLE001
            kerr, hid = "%s: %s / %r" % (type(e).__name__, e, e.__cause__), None
        new = list(sc.kicked)
        del sc.kicked[:]
        rec = {"op": 2, "err": kerr, "handle_id": hid, "n": len(new), "plan": op["plan"], "chain": []}
        if new:
            b, m = new[0]
            rec.update(broker=b, task_id=m.task_id, task_name=m.task_name, bm_labels=LD.enc_dict(m.labels),
                       wire=LD.wire_of(sc.brokers[b], m))
            rec["chain"] = await sc.deliver_chain(b, m, rec["plan"])
        if sc.failures.errors:
            raise RuntimeError("harness: %s" % sc.failures.errors)
        return {"names": sc.names, "sent": [rec], "final": sc.snapshot(), "acks": list(sc.acks), "raised_log": sc.failures.log,
                "wall": wc.observed() if wc is not None else None, "typed_expect": expect, "typed_src": sc.typed_src,
                "teardown": list(sc.teardown), "cli_kw": None if cli_kw is None else {k: repr(v) for k, v in sorted(cli_kw.items())},
                "other_str": {k: [ord(c) for c in str(LD.dec({"t": "other", "k": k}))] for k in LD.OTHER_KINDS}}

    try:
        return vloop.run(main, mono0_us(env))
    finally:
        wall_off()


def run_case(case, opts):
    if case.get("enumerate_excs"):
        return enumerate_taskiq_exceptions()
    _install_clock()
    env = case.get("env")
    fail_act = FAIL_ACT[(env or {}).get("fail_by", "raise")]
    lc = dict(ser=case.get("ser", "json"), mw=dict(case["mw"], enabled=True), repeat_last=True, guard=case.get("guard", 40),
              tasks=[dict(labels=case["labels"], shared=False)],
              ops=[dict(op="kicker", t=0), dict(op="with_task_id", k=0, id="c0"),
                   dict(op="kiq", k=0, plan=[fail_act if o == "F" else ACT[o] for o in case["outs"]],
                        args=case.get("args", []), kwargs=case.get("kwargs", {}))])
    plain = env is None and case.get("typed") is None
    inmem = (env or {}).get("broker") == "inmem"
    o = LD.run_case(lc, opts) if plain else run_inmem(lc, case, opts) if inmem else run_env(lc, case, opts)
    s = o["sent"][0]
    execs, undelivered = [], 0
    for at in s["chain"]:
        if at["nbody"] == 0:
            undelivered += 1
            continue
        execs.append(dict(out=OUT_OF_ACT.get(at["act"], at["act"]), labels=at["ctx"], pre=at["pre"],
                          task_id=at.get("ctx_tid"), args=at["args"], stored=at["res"] is not None,
                          is_err=at.get("res_err"), res_exc=at.get("res_exc"), res_labels=at["res"], res_tid=at.get("res_tid"),
                          resent=len(at["resent"]), resent_ids=[m["task_id"] for m in at["resent"]],
                          resent_wire=[m["wire"] for m in at["resent"]], raised=at["callback_raised"], nbody=at["nbody"]))
    out = dict(sent_id=s.get("task_id"), err=s["err"], wire=s.get("wire"), execs=execs, undelivered=undelivered,
               final_task_labels=o["final"][0], other_str=o["other_str"])
    if not plain:
        out.update(acks=o["acks"], teardown=o["teardown"], cli_kw=o["cli_kw"], raised_log=o["raised_log"])
        if o.get("wall") is not None:
            out["wall"] = o["wall"]
    if case.get("typed") is not None:
        out.update(typed_expect=o["typed_expect"], typed_src=o["typed_src"])
    if inmem:
        # what the backend holds when everything has settled, which attempt's set_result call put it there, and the order of
        # the set_result calls (attempt numbers = positions in execs)
        pos, st = {}, o["settled"]
        for ci, at in enumerate(s["chain"]):
            if at["nbody"]:
                pos[ci] = len(pos)
        if st is not None:      # delivery numbers -> positions in execs (a delivery whose body never ran: -1)
            st = dict(st, save_order=[pos.get(i, -1) for i in st["save_order"]])
            if "held_from" in st:
                st["held_from"] = [pos.get(i, -1) for i in st["held_from"]]
        out.update(settled=st, nsaves=[at.get("nsaves") for at in s["chain"] if at["nbody"]],
                   unfinished=[i for i, at in enumerate(s["chain"]) if not at.get("done")])
    return out
