"""Implementation driver for C02 / C07 / C10: the real Receiver.callback and AsyncKicker.kiq under the
virtual-time loop, with every observation point wrapped by a recorder.  One global log per case.

case["type"] == "recv": 1-6 messages are handed CONCURRENTLY (one asyncio task each) to receiver.callback.
case["type"] == "send": 1-6 kickers call kiq() concurrently against a scripted broker.

Log entry: [who, event...], who = index of the message (taken from the asyncio task's name, or from the closure
for things that run in a worker thread).  Nothing here predicts anything: the model lives in Coq."""
import __future__
import abc
import asyncio
import contextvars
import copy
import dataclasses
import datetime
import decimal
import enum
import functools
import gc
import inspect
import io
import json
import logging
import random
import socket
import ssl
import threading
import time as time_mod
import typing
import uuid
from concurrent.futures import Executor, ThreadPoolExecutor
from concurrent.futures import Future as CFuture

import pydantic
import typing_extensions

import taskiq
import taskiq.brokers.shared_broker as shmod
import taskiq.message as tmsg
import taskiq.receiver.receiver as rmod
from taskiq import SimpleRetryMiddleware, TaskiqDepends, TaskiqMiddleware
from taskiq.abc.broker import AsyncBroker
from taskiq.abc.result_backend import AsyncResultBackend
from taskiq.acks import AckableMessage, AcknowledgeType
from taskiq.exceptions import BrokerError, NoResultError, ResultGetError, SendTaskError, UnknownTaskError
from taskiq.formatters.json_formatter import JSONFormatter
from taskiq.formatters.proxy_formatter import ProxyFormatter
from taskiq.kicker import AsyncKicker
from taskiq.labels import prepare_label
from taskiq.message import TaskiqMessage
from taskiq.receiver import Receiver

import vloop


class CustomError(RuntimeError):
    pass


class QueueDown(BrokerError):
    """a broker-specific error that is a BrokerError but not a SendTaskError"""


# exception class table shared with harness/props (identifier -> class)
EXC = {0: NoResultError, 1: TimeoutError, 2: LookupError, 3: ValueError, 4: CustomError, 5: KeyboardInterrupt,
       6: SystemExit, 7: asyncio.CancelledError, 8: GeneratorExit, 9: ExceptionGroup, 10: BaseExceptionGroup}
EXC_ID = {v.__name__: k for k, v in EXC.items()}
EXC_REG = {}     # classes made by exc_class (subclasses of the table's classes) -> identifier of their table class
HOOKS_MSG = ("pre_send", "pre_execute")
HOOKS_ALL = ("pre_send", "post_send", "pre_execute", "on_error", "post_execute", "post_save")

LOG = []
_CLI = {}
# receive side: the message a piece of work belongs to when it does not run in that message's own asyncio task (a context
# is inherited by the tasks created from it)
WHO_CV = contextvars.ContextVar("verif_who", default=-1)
CUR = {}     # per-case state used by the module-level shims


def who():
    t = asyncio.current_task()
    n = t.get_name() if t is not None else ""
    return int(n[1:]) if n.startswith("m") and n[1:].isdigit() else -1


def log(w, *ev):
    LOG.append([w] + list(ev))


def canon(d):
    """canonical, JSON-able form of a label dict: sorted [key, type name, printable value]"""
    out = []
    for k in sorted(d):
        v = d[k]
        out.append([k, type(v).__name__, v.hex() if isinstance(v, float) else (v.decode("latin1") if isinstance(v, bytes) else v)])
    return out


def excid(e):
    if e is None:
        return None
    if isinstance(e, BaseException):
        e = type(e)
    if e in EXC_REG:
        return EXC_REG[e]
    return EXC_ID.get(e.__name__, 900)


def val(v):
    """a stored / returned value as it goes into the log: small scalars as they are, anything else (a coroutine object, a
    Future ...) by the name of its type - no addresses"""
    if v is None or type(v) in (int, str, bool):
        return v
    if isinstance(v, float):
        return v.hex()
    return "<%s>" % type(v).__name__


def tid(m):
    s = m.task_id
    return int(s[2:]) if s.startswith("id") and s[2:].isdigit() else 4000


async def susp(ms):
    """suspension point: None = none, 0 = bare yield, k = k ms of virtual time"""
    if ms is None:
        return
    await asyncio.sleep(ms / 1000.0)


# ------------------------------------------------------------------------------------- module-level shims
_ORIG = {}


def setup(opts):
    """shims installed once per driver process (no edit of /repo): the base-class hooks log when they are
    invoked (they never must be), time() in run_task marks begin/end of the execution try-block,
    TaskiqMessage.parse_labels logs a failure."""
    for name in HOOKS_ALL:
        orig = getattr(TaskiqMiddleware, name)
        _ORIG[name] = orig

        def mk(name, orig):
            def base(self, *a):
                log(who(), "base", name, getattr(self, "_rec_idx", -1))
                return orig(self, *a)
            base.__name__ = name
            return base
        setattr(TaskiqMiddleware, name, mk(name, orig))

    def vtime():
        w = who()
        st = CUR.setdefault("exec", {})
        st[w] = 1 - st.get(w, 0)
        wc = CUR.get("wall")
        if wc is None:
            log(w, "exec.begin" if st[w] else "exec.end")
            return asyncio.get_running_loop().time()
        # scripted wall clock (see WallClock): the reading is part of the log entry (c_eff / the oracles ignore it)
        v = wc.read()
        log(w, "exec.begin" if st[w] else "exec.end", float(v).hex())
        if st[w]:
            wc.begin(w)          # what happens to the host's clock while this execution is under way
        else:
            wc.end(w)
        return v
    # (not `rmod.time = vtime`: the name may be bound to the time MODULE in another spelling of the imports)
    # wherever the receiver package reaches time.time: the function bound under another name, or the `time` module itself
    # (`import time`, `import time as _time`) - by identity, not by attribute name
    import patchall
    import time as _real_time
    patchall.patch_attr(_real_time, "time", vtime, prefix="taskiq.receiver", later_imports=True)

    orig_pl = tmsg.TaskiqMessage.parse_labels

    def parse_labels(self):
        try:
            return orig_pl(self)
        except BaseException:
            log(who(), "parse.fail")
            raise
    tmsg.TaskiqMessage.parse_labels = parse_labels


class WallClock:
    """the host's wall clock (time.time()) as the code under test reads it - NOT the loop clock: the loop's monotonic
    virtual time goes on driving sleeps and wait_for, the wall clock is `loop time + offset` and can be stepped.
    spec = case["wall"]: base = reading when the run starts (mono0 = what the loop clock reads then); plan: msgs[w]["wall"] = what happens to the clock right after
    the execution of message w began (the begin reading is taken, the rest of the execution - dependency resolution, the
    body, the end reading - sees the changed clock):
      {"step": s}     the clock jumps by s seconds; s < 0 = backwards (NTP step correction, VM resume, `date -s`)
      {"set": v}      the clock is set to the absolute value v and goes on running
      {"freeze": 1}   the clock stands still until this execution's end reading has been taken (equal readings)
    The clock is host-wide: executions running concurrently see each other's steps.  Nothing here says what the code
    under test should do with the readings."""

    def __init__(self, loop, spec, msgs):
        self.loop = loop
        self.off = float(spec.get("base", 0.0)) - loop.time()
        self.plan = {i: M.get("wall") for i, M in enumerate(msgs) if M.get("wall")}
        self.frozen = set()
        self.fval = 0.0

    def read(self):
        if self.frozen:
            return self.fval
        return self.loop.time() + self.off

    def _set(self, v):
        v = float(v)
        if self.frozen:
            self.fval = v
        self.off = v - self.loop.time()

    def begin(self, w):
        op = self.plan.get(w)
        if not op:
            return
        if "step" in op:
            self._set(self.read() + op["step"])
        elif "set" in op:
            self._set(op["set"])
        elif op.get("freeze"):
            if not self.frozen:
                self.fval = self.read()
            self.frozen.add(w)

    def end(self, w):
        if w in self.frozen:
            self.frozen.discard(w)
            if not self.frozen:
                self.off = self.fval - self.loop.time()


class RecFormatter(ProxyFormatter):
    def loads(self, message):
        try:
            return super().loads(message)
        except BaseException:
            log(who(), "parse.fail")
            raise

    def dumps(self, message):
        w = who()
        if CUR.get("sending"):
            log(w, "dumps", message.task_id, canon(message.labels), getattr(self.broker, "_rec_b", 0))
            if CUR["plan"].get(w, {}).get("kick") == "dumps_fail":
                if CUR["plan"][w].get("kick_x"):
                    raise kick_exc(CUR["plan"][w]["kick_x"])
                raise ValueError("cannot dump")
        return super().dumps(message)


class StaleFormatter(ProxyFormatter):
    """what the broker's formatter was before the real one was set: it must never be used"""

    def loads(self, message):
        log(who(), "formatter.stale")
        return super().loads(message)


class RecBackend(AsyncResultBackend):
    async def set_result(self, task_id, result):
        w = who()
        if CUR["broker"].result_backend is not self:
            # not (or no longer) the broker's result backend at the moment of the call: nobody reads from it
            log(w, "save.stale", task_id)
            return
        p = CUR["plan"][w]
        log(w, "save.enter", task_id, result.is_err, val(result.return_value), excid(result.error), canon(result.labels),
            float(result.execution_time).hex())
        await susp(p.get("save_susp"))
        if not p.get("save_ok", True):
            log(w, "save.raise")
            raise ConnectionError("backend down")
        log(w, "save.exit")

    async def is_result_ready(self, task_id):
        return True

    async def get_result(self, task_id, with_logs=False):
        return None


class ScriptedBroker(AsyncBroker):
    async def kick(self, message):
        w = who()
        if not CUR.get("sending"):
            if w < 0:
                w = WHO_CV.get()       # (the re-send was wrapped into a task of its own: gather / wait_for)
            # receive side: a message sent BY THE WORKER while it processes message w (the retry middleware re-sends a
            # failed task through the real kicker): recorded, nothing else - not an effect of the receive pipeline
            log(w, "rekick", message.task_id, canon(message.labels))
            await susp(CUR.get("rekick_susp"))
            return
        p = CUR["plan"].get(w, {})
        log(w, "kick", message.task_id, canon(message.labels), getattr(self, "_rec_b", 0))
        await susp(p.get("kick_susp"))
        k = p.get("kick")
        if k == "kick_fail":
            if p.get("kick_x"):
                raise kick_exc(p["kick_x"])
            raise ConnectionError("cannot send")
        if k == "kick_fail_broker":
            raise BrokerError()
        if k == "kick_fail_sub":
            raise QueueDown()
        if k == "kick_fail_send":
            raise UnknownTaskError(task_name="t")

    async def listen(self):
        return
        yield b""


class SuperBroker(ScriptedBroker):
    """a broker written the way third-party brokers are: startup() / shutdown() do their own work (open / close a
    connection) around the base class's - AsyncBroker.startup() / shutdown() run underneath"""

    async def startup(self):
        await super().startup()
        await asyncio.sleep(0)
        self._conn = True

    async def shutdown(self):
        self._conn = False
        await asyncio.sleep(0)
        await super().shutdown()


def make_broker(life):
    return SuperBroker() if (life or {}).get("cls") == "super" else ScriptedBroker()


def life_note(*ev):
    CUR.setdefault("life_log", []).append(list(ev))


def give_life_hooks(mws, kinds):
    """life["mw_hooks"][k] = sync | async: the class of middleware k ALSO overrides startup / shutdown (what
    AsyncBroker.startup() / shutdown() call); async ones take a millisecond of virtual time, so that a shutdown is under
    way while messages are.  They go to a log of their own: the pipeline properties say nothing about them."""
    for inst, kind in zip(mws, kinds or []):
        if not kind:
            continue

        def mk(what, kind):
            if kind == "async":
                async def f(self):
                    life_note("mw." + what + ".begin", self._rec_idx)
                    await asyncio.sleep(0.001)
                    life_note("mw." + what, self._rec_idx)
            else:
                def f(self):
                    life_note("mw." + what, self._rec_idx)
            f.__name__ = f.__qualname__ = what
            return f
        for what in ("startup", "shutdown"):
            setattr(type(inst), what, mk(what, kind))


async def life_ops(broker, ops):
    """startup / shutdown calls on one broker OBJECT, one after the other (cycle = shutdown then startup: an application
    lifespan that ends and the next one that begins on the same module-level broker)"""
    for op in ops or []:
        for o in (["shutdown", "startup"] if op == "cycle" else [op]):
            life_note("broker." + o + ".begin", getattr(broker, "_rec_b", 0),
                      sorted(w for w, v in CUR.get("exec", {}).items() if v))    # (messages inside run_task right now)
            await getattr(broker, o)()
            life_note("broker." + o, getattr(broker, "_rec_b", 0))


async def life_task(brokers, at):
    """life-cycle calls made while messages are under way: at = [[ms, broker, op]] (virtual time since the run began)"""
    t0 = 0
    for ms, b, op in at:
        if ms > t0:
            await asyncio.sleep((ms - t0) / 1000.0)
            t0 = ms
        await life_ops(brokers[b], [op])


def typed_labels(tbl, idx):
    """label dicts travel through JSON: a value {"f": hex} stands for that float"""
    out = {}
    for k, v in tbl[idx].items():
        out[k] = float.fromhex(v["f"]) if isinstance(v, dict) else v
    return out


class Lazy:
    """an awaitable that is NOT a coroutine object: nothing happens until somebody awaits it"""

    def __init__(self, coro):
        self._coro = coro

    def __await__(self):
        return self._coro.__await__()


def inflight(x):
    """awaitables handed to the code under test; the driver lets them finish before it takes the log, so that work the
    pipeline did not wait for shows up as 'late' instead of vanishing with the loop"""
    CUR.setdefault("inflight", []).append(x)
    return x


def styled(h, enter, finish):
    """the hook callable in the calling convention h asks for.  enter(w, self, *a) logs the call and returns the
    middleware index, finish(w, idx, *a) does the hook's work, logs its end and returns / raises; `w` (whose message it
    is) is fixed when the hook is CALLED, the end may be logged from a loop callback or another task.
      aw absent: `def` (async false) or `async def` (async true)
      aw = coro   plain function returning a coroutine object
      aw = task   plain function returning an asyncio.Task (work starts on the next loop iteration)
      aw = future plain function that starts the work and returns an asyncio.Future completing `susp` ms later
      aw = obj    plain function returning an object with __await__ (work starts only when awaited)
    Every non-sync style must be awaited to completion by the pipeline exactly like an `async def` hook."""
    st = h.get("aw")

    async def acoro(w, self, *a):
        idx = enter(w, self, *a)
        await susp(h.get("susp"))
        return finish(w, idx, *a)

    if st is None:
        if h["async"]:
            async def f(self, *a):
                return await acoro(who(), self, *a)
        else:
            def f(self, *a):
                w = who()
                return finish(w, enter(w, self, *a), *a)
    elif st == "coro":
        def f(self, *a):
            return acoro(who(), self, *a)
    elif st == "task":
        def f(self, *a):
            return inflight(asyncio.ensure_future(acoro(who(), self, *a)))
    elif st == "obj":
        def f(self, *a):
            return Lazy(acoro(who(), self, *a))
    elif st == "future":
        def f(self, *a):
            w = who()
            idx = enter(w, self, *a)
            loop = asyncio.get_running_loop()
            fut = loop.create_future()

            def complete():
                try:
                    r = finish(w, idx, *a)
                except BaseException as e:   # noqa
                    fut.set_exception(e)
                else:
                    fut.set_result(r)
            d = h.get("susp")
            if d is None:
                complete()
            else:
                loop.call_later(d / 1000.0, complete)
            return inflight(fut)
    else:
        raise ValueError(st)
    return f


def hook_fn(name, h, tbl):
    """the recording hook `name` with behaviour `h`.  The middleware's index is read from the instance
    (`self._rec_idx`): the function may live on a base class / mixin, and two instances may share one class."""

    def msg_hook():
        def act(m):
            k = h["act"]
            if k == "raise" or (k == "raise_odd" and tid(m) % 2 == 1):
                raise CustomError("hook")
            if k == "set":
                t = m if h.get("inplace") else m.model_copy(deep=True)
                if h.get("id_add"):
                    t.task_id = "id%d" % (tid(m) + h["id_add"])
                if h.get("labels") is not None:
                    t.labels = typed_labels(tbl, h["labels"])
                return t
            return m

        def enter(w, self, m):
            log(w, "hook", name, self._rec_idx, m.task_id, canon(m.labels))
            return self._rec_idx

        def finish(w, idx, m):
            try:
                o = act(m)
            except BaseException:
                log(w, "hook.exit", name, idx)
                raise
            log(w, "hook.exit", name, idx, o.task_id, canon(o.labels))
            return o
        return styled(h, enter, finish)

    def post_send_hook():
        def enter(w, self, m):
            log(w, "hook", name, self._rec_idx, m.task_id, canon(m.labels))
            return self._rec_idx

        def finish(w, idx, m):
            try:
                k = h["act"]
                if k == "raise" or (k == "raise_odd" and tid(m) % 2 == 1):
                    raise CustomError("hook")
            finally:
                log(w, "hook.exit", name, idx)
        return styled(h, enter, finish)

    def res_hook():
        def enter(w, self, m, r, *a):
            ev = ["hook", name, self._rec_idx, m.task_id, canon(m.labels), r.is_err, val(r.return_value), excid(r.error),
                  canon(r.labels)]
            if name == "on_error":
                ev.append(excid(a[0]))
            log(w, *ev)
            return self._rec_idx

        def finish(w, idx, m, r, *a):
            try:
                k = h["act"]
                if k == "raise" or (k == "raise_val_odd" and isinstance(r.return_value, int) and r.return_value % 2 == 1):
                    raise CustomError("hook")
                if k == "nores":
                    r.error = NoResultError()
            finally:
                log(w, "hook.exit", name, idx)
        return styled(h, enter, finish)

    f = msg_hook() if name in HOOKS_MSG else post_send_hook() if name == "post_send" else res_hook()
    f.__name__ = f.__qualname__ = name
    return f


# ------------------------------------------------------------------------------------- the middlewares taskiq ships
# taskiq/middlewares holds two: SimpleRetryMiddleware and PrometheusMiddleware (the latter needs the prometheus_client
# package, which is not installed here: it cannot be constructed).  spec["real"] names the shipped class.
REAL_MW = {"retry": SimpleRetryMiddleware}


def make_real_mw(idx, spec, tbl):
    """a REAL taskiq middleware in the stack (pipeline_lib.gen_real): an instance of a subclass of the shipped class,
    constructed with spec["opts"], whose overriding hook (on_error) logs the call, runs the shipped code
    (`Base.on_error(self, ...)` - whatever it does: look at the labels, re-send through the real kicker into the scripted
    broker's kick, replace the result's error) and logs the end together with what the hook left behind: the class of
    result.error and the message's labels (the shipped retry middleware hands message.labels to its kicker, whose
    with_labels() writes `_retries` into that very dict).  Nothing here predicts what the hook decides.
    The subclass may override further hooks (recording ones) like an application's subclass would."""
    base = REAL_MW[spec["real"]]
    h = spec["on_error"]

    async def on_error(self, message, result, exception):
        w = who()
        log(w, "hook", "on_error", self._rec_idx, message.task_id, canon(message.labels), result.is_err,
            val(result.return_value), excid(result.error), canon(result.labels), excid(exception))
        try:
            await susp(h.get("susp"))
            x = base.on_error(self, message, result, exception)
            if inspect.isawaitable(x):
                await x
        finally:
            log(w, "hook.exit", "on_error", self._rec_idx, "real", excid(result.error), canon(message.labels))
    ns = {"on_error": on_error}
    for name in HOOKS_ALL:
        hh = spec.get(name)
        if name != "on_error" and hh is not None and not hh.get("inst"):
            ns[name] = hook_fn(name, hh, tbl)
    cls = type("Rec%s%d" % (base.__name__, idx), (base,), ns)
    inst = cls(**(spec.get("opts") or {}))
    inst._rec_idx = idx
    return inst


def shadowed_fn(name):
    """a definition of `name` that sits BEHIND the effective override in the class's MRO (a base class whose hook the
    subclass re-defines): Python never resolves to it, so it must never run - logged like a non-overridden hook"""
    def f(self, *a):
        log(who(), "base", name, self._rec_idx)
        return a[0] if name in HOOKS_MSG else None
    f.__name__ = f.__qualname__ = name
    return f


# where in the class hierarchy of one recording middleware a hook can be defined, in MRO order:
#   leaf(mixin, base(root(TaskiqMiddleware)))
MRO_RANK = {"leaf": 0, "mixin": 1, "base": 2, "root": 3}


def hook_specs(spec):
    return {n: spec.get(n) for n in HOOKS_ALL}


def make_mw_class(idx, spec, tbl):
    """the class of recording middleware `idx`.  spec["shape"] (absent = every hook on the class itself, which derives
    directly from TaskiqMiddleware) says on which class of the hierarchy each overriding hook is DEFINED:
      at      {hook: "leaf" | "mixin" | "base" | "root"}   (default "leaf")
      shadow  {hook: where}   an extra definition further down the MRO than the effective one (never runs)
      depth   minimal number of intermediate TaskiqMiddleware subclasses (0-2), mixin / mixin_mw: a mixin class is present
              / it derives from TaskiqMiddleware itself (diamond), init: the leaf class defines only its own __init__
    Whatever the shape, `cls.hook != TaskiqMiddleware.hook` holds exactly for the hooks of the spec that are not
    instance attributes: the class overrides them in the sense of the property."""
    shape = spec.get("shape") or {}
    at = shape.get("at") or {}
    ns = {w: {} for w in MRO_RANK}
    for name in HOOKS_ALL:
        h = spec.get(name)
        if h is None or h.get("inst"):
            continue
        w = at.get(name, "leaf")
        ns[w][name] = hook_fn(name, h, tbl)
        sw = (shape.get("shadow") or {}).get(name)
        if sw is not None and MRO_RANK[sw] > MRO_RANK[w]:
            ns[sw][name] = shadowed_fn(name)
    depth = shape.get("depth", 0)
    parent = TaskiqMiddleware
    if ns["root"] or depth >= 2:
        parent = type("RecRoot%d" % idx, (parent,), ns["root"])
    if ns["base"] or depth >= 1 or parent is not TaskiqMiddleware:
        parent = type("RecBase%d" % idx, (parent,), ns["base"])
    bases = (parent,)
    if ns["mixin"] or shape.get("mixin"):
        mixin = type("RecMixin%d" % idx, (TaskiqMiddleware,) if shape.get("mixin_mw") else (), ns["mixin"])
        bases = (mixin, parent)
    leaf = dict(ns["leaf"])
    if shape.get("init"):
        def __init__(self, tenant):
            parent.__init__(self)
            self.tenant = tenant
        leaf["__init__"] = __init__
    eq = spec.get("eq")
    if not eq:
        return type("RecMw%d" % idx, bases, leaf)
    leaf.update(eq_namespace(eq))
    cls = type("RecMw%d" % idx, bases, leaf)
    if eq["kind"] == "dataclass":
        # a middleware written as a @dataclass (configuration fields): the generated __eq__ compares the fields of two
        # instances of the SAME class; __hash__ is None (default), field-based (unsafe_hash) or the explicit one above
        cls = dataclasses.dataclass(eq=True, unsafe_hash=eq.get("hash") == "value")(cls)
    return cls


def eq_namespace(eq):
    """special methods of a recording middleware class whose instances do not have plain identity semantics
    (spec["eq"]; absent = an ordinary class).  Nothing in the property depends on them: a middleware is registered per
    OBJECT, every registered object's overridden hooks are due.
      kind  dataclass  real @dataclass with one configuration field `header` (set per instance from eq["key"])
            value      hand-written __eq__ over the configuration (`_eq_key`), equal across different classes
            always / never / raises   __eq__ answers True for anything / False even for itself / raises
            identity   default equality (only hash / truth vary)
      hash  value = consistent with __eq__, none = unhashable (__hash__ = None), id = object identity
      truth bool = __bool__ is False, len = __len__ is 0 (a container-like middleware that is empty), absent = truthy"""
    kind, ns = eq["kind"], {}
    if kind == "dataclass":
        ns["__annotations__"] = {"header": str}
        ns["header"] = "h0"
    elif kind == "value":
        def __eq__(self, other):
            if not isinstance(other, TaskiqMiddleware):
                return NotImplemented
            return getattr(other, "_eq_key", None) == self._eq_key
        ns["__eq__"] = __eq__
    elif kind == "always":
        ns["__eq__"] = lambda self, other: True
    elif kind == "never":
        ns["__eq__"] = lambda self, other: False
    elif kind == "raises":
        def __eq__(self, other):
            raise CustomError("middlewares of this class cannot be compared")
        ns["__eq__"] = __eq__
    elif kind != "identity":
        raise ValueError(kind)
    h = eq.get("hash", "id")
    if h == "none":
        if kind != "dataclass":       # (a dataclass with eq=True sets __hash__ = None by itself)
            ns["__hash__"] = None
    elif h == "id" or kind in ("never", "raises", "identity"):
        if kind != "identity":        # defining __eq__ alone would make the class unhashable
            ns["__hash__"] = object.__hash__
    elif h == "value":
        if kind == "value":
            ns["__hash__"] = lambda self: hash(("cfg", self._eq_key))
        elif kind == "always":
            ns["__hash__"] = lambda self: 0
    else:
        raise ValueError(h)
    if eq.get("truth") == "bool":
        ns["__bool__"] = lambda self: False
    elif eq.get("truth") == "len":
        ns["__len__"] = lambda self: 0
    return ns


def shared_class_key(spec):
    """eq["kind"] == dataclass: two specs that describe the same class (same hooks, same shape, same special methods) ARE
    one class in this case, wherever they stand - another position of the stack, a later add_middlewares call, another
    broker: two instances of it with equal fields compare equal"""
    shape = {k: v for k, v in (spec.get("shape") or {}).items() if k not in ("twin", "kind")}
    eq = {k: v for k, v in spec["eq"].items() if k != "key"}
    return json.dumps([hook_specs(spec), shape, eq], sort_keys=True)


def make_mws(specs, tbl, base=0):
    """one recording middleware per spec, logging as index base + position.  shape["twin"]: another INSTANCE of the
    previous middleware's class (honoured only if the two specs describe the same hooks)."""
    out, prev = [], None
    for idx, spec in enumerate(specs):
        if spec.get("real"):
            out.append(make_real_mw(base + idx, spec, tbl))
            prev = None
            continue
        shape = spec.get("shape") or {}
        eq = spec.get("eq") or {}
        shared = CUR.setdefault("mw_classes", {}) if eq.get("kind") == "dataclass" else None
        if shared is not None and shared_class_key(spec) in shared:
            cls = shared[shared_class_key(spec)]
        elif shape.get("twin") and prev is not None and hook_specs(specs[idx - 1]) == hook_specs(spec) \
                and bool((specs[idx - 1].get("shape") or {}).get("init")) == bool(shape.get("init")) \
                and {k: v for k, v in (specs[idx - 1].get("eq") or {}).items() if k != "key"} \
                == {k: v for k, v in eq.items() if k != "key"}:
            cls = prev
        else:
            cls = make_mw_class(base + idx, spec, tbl)
        if shared is not None:
            shared.setdefault(shared_class_key(spec), cls)
        inst = cls("tenant%d" % idx) if shape.get("init") else cls()
        inst._rec_idx = base + idx
        if eq:
            # the configuration the value-based equalities look at: equal keys = equal configuration
            inst._eq_key = eq.get("key", 0)
            if eq["kind"] == "dataclass":
                inst.header = "h%d" % eq.get("key", 0)
        for name in HOOKS_ALL:
            h = spec.get(name)
            if h is not None and h.get("inst"):
                # a hook that exists only as an instance attribute: the class does not override it, never called
                def stray(*a, _n=name, _i=base + idx):
                    log(who(), "base", _n, _i)
                    return a[0] if _n in HOOKS_MSG else None
                setattr(inst, name, stray)
        out.append(inst)
        prev = cls
    return out


# ------------------------------------------------------------------------------------- what a task body raises
class OddError(Exception):
    """raised by the special methods of the exception classes below (never CustomError: that one means "a hook failed")"""


def exc_class(eid, x):
    """the class of the exception a task body raises: EXC[eid] itself (x["cls"] absent) or a class derived from it - for
    the pipeline (and the model) still "an EXC[eid]": the no-result signal iff it is a NoResultError, an error otherwise.
      cls   sub        plain subclass
            eq         defines __eq__: x["eq"] = value (by a key, equal across instances) | always | never | raises
            dataclass  a real @dataclass exception with two fields (eq=True: instances are NOT hashable by default)
            init       its own __init__ signature (keyword-only argument, args rewritten): cls(*exc.args) does not work
      hash  id (identity, the default of an exception) | none (__hash__ = None: what defining __eq__ alone or @dataclass
            gives) | value (consistent with __eq__ / the fields) | raises (hashing fails at run time: unhashable content)
      truth bool (__bool__ False) | len (__len__ 0: a container-like exception that is empty)
      str   str | repr | both: __str__ / __repr__ raise
    One class per distinct description and case: two messages raising "the same class" share it."""
    kind = x.get("cls")
    base = EXC[eid]
    if not kind:
        return base
    key = json.dumps([eid, {k: x.get(k) for k in ("cls", "eq", "hash", "truth", "str")}], sort_keys=True)
    cache = CUR.setdefault("exc_classes", {})
    if key in cache:
        return cache[key]
    ns = {}
    h = x.get("hash", "id")
    if kind == "eq":
        ek = x["eq"]
        if ek == "value":
            ns["__eq__"] = lambda self, other: isinstance(other, BaseException) and \
                getattr(other, "_k", None) == getattr(self, "_k", 0)
        elif ek == "always":
            ns["__eq__"] = lambda self, other: True
        elif ek == "never":
            ns["__eq__"] = lambda self, other: False
        elif ek == "raises":
            def __eq__(self, other):
                raise OddError("exceptions of this class cannot be compared")
            ns["__eq__"] = __eq__
        else:
            raise ValueError(ek)
    if h == "none":
        ns["__hash__"] = None
    elif h == "raises" and kind != "dataclass":
        def __hash__(self):
            raise TypeError("unhashable type: 'list'")
        ns["__hash__"] = __hash__
    elif h == "value" and kind != "dataclass":
        ns["__hash__"] = lambda self: hash(("exc", 0 if x.get("eq") == "always" else getattr(self, "_k", 0)))
    elif h == "id" and kind in ("eq", "dataclass"):
        ns["__hash__"] = BaseException.__hash__      # (defining __eq__ alone would make the class unhashable)
    if x.get("truth") == "bool":
        ns["__bool__"] = lambda self: False
    elif x.get("truth") == "len":
        ns["__len__"] = lambda self: 0
    if x.get("str") in ("str", "both"):
        def __str__(self):
            raise OddError("this exception has no text")
        ns["__str__"] = __str__
    if x.get("str") in ("repr", "both"):
        def __repr__(self):
            raise OddError("this exception has no representation")
        ns["__repr__"] = __repr__
    name = "%s%s" % ({"sub": "My", "eq": "Coded", "dataclass": "Quota", "init": "Detailed"}[kind], base.__name__)
    if kind == "init":
        def __init__(self, *, code, detail="d"):
            base.__init__(self, "E%d" % code)
            self.code, self.detail = code, detail
        ns["__init__"] = __init__
    if kind == "dataclass":
        # hash = value / raises: unsafe_hash=True hashes the field tuple (raises when a field holds a list)
        cls = dataclasses.make_dataclass(name, [("user", object), ("limit", object)], bases=(base,), namespace=ns,
                                         eq=True, unsafe_hash=h in ("value", "raises"))
    else:
        cls = type(name, (base,), ns)
    EXC_REG[cls] = eid
    cache[key] = cls
    return cls


def exc_args(kind):
    if kind is None:
        return ("boom",)
    if kind == "empty":
        return ()
    if kind == "unpicklable":
        return ("boom", lambda: None)
    if kind == "unjsonable":
        return ({1, 2}, b"\xff\x00", object())
    if kind == "huge":
        return ("x" * 1_000_000,)
    if kind == "nested":
        return ([1, {"a": (2, 3)}], None, 2.5)
    raise ValueError(kind)


def exc_instance(eid, x):
    """the exception OBJECT a task body raises (x = out["x"]; absent / empty: EXC[eid]() as always).  Besides the class
    (exc_class):
      args    empty | unpicklable (a lambda) | unjsonable (set, bytes, object()) | huge (1 MB str) | nested; absent: ("boom",)
      attr    unpicklable: an instance attribute holding a lock
      group   [members {raise, x}]: EXC[eid] is ExceptionGroup / BaseExceptionGroup (or a subclass) over these
      chain   [{via: cause | context, raise, x}]: head -> link -> link ... through __cause__ (`raise .. from ..`) or __context__
              (raised while the link was being handled); every link was really raised once (has a traceback)
      cycle   context | cause: the last object of the chain points back to the head (with an empty chain: to itself)
      suppress  explicit __suppress_context__
      shared  one object per case: every message with this description raises the SAME instance (a module-level
              `ERR = MyError(..)`; `raise ERR`)"""
    x = x or {}
    skey = None
    if x.get("shared"):
        skey = json.dumps([eid, x], sort_keys=True)
        cache = CUR.setdefault("exc_shared", {})
        if skey in cache:
            return cache[skey]
    cls = exc_class(eid, x)
    kind = x.get("cls")
    args = exc_args(x.get("args"))
    if x.get("group") is not None:
        e = cls("several failures", [exc_instance(m["raise"], m.get("x")) for m in x["group"]])
    elif kind == "dataclass":
        e = cls(args[0] if args else "bob", [3] if x.get("hash") == "raises" else args[1] if len(args) > 1 else 3)
    elif kind == "init":
        e = cls(code=7)
    elif eid == 0 or not x:
        e = cls()                            # (NoResultError: izulu template errors take no positional arguments)
    else:
        e = cls(*args)
    if kind:
        e._k = x.get("key", 0)
    if x.get("attr") == "unpicklable":
        e.resource = threading.Lock()
    prev = e
    for ln in x.get("chain") or []:
        c = exc_instance(ln["raise"], ln.get("x"))
        try:
            raise c                          # a link is an exception that was raised (and caught) before
        except BaseException as z:           # noqa
            c = z
        if ln["via"] == "cause":
            prev.__cause__ = c               # what `raise prev from c` does (sets __suppress_context__)
        else:
            prev.__context__ = c             # what raising prev inside `except c:` does
        prev = c
    if x.get("cycle") == "cause":
        prev.__cause__ = e
    elif x.get("cycle"):
        prev.__context__ = e
    if x.get("suppress") is not None:
        e.__suppress_context__ = bool(x["suppress"])
    if skey is not None:
        CUR["exc_shared"][skey] = e
    return e


# ------------------------------------------------------------------------------------- what a failing kick / dumps raises
class BrokerUnavailable(ConnectionError):
    """a client library's own error class: its own __init__ signature, structured attributes, args = (text, (host, port))"""

    def __init__(self, host, port):
        super().__init__("broker %s:%d is unavailable" % (host, port), (host, port))
        self.host, self.port = host, port


class CodedError(Exception):
    """an error that carries a numeric code only"""

    def __init__(self, code):
        super().__init__(code)
        self.code = code


def _chained():
    try:
        try:
            raise ConnectionResetError(104, "Connection reset by peer")
        except OSError as e:
            raise RuntimeError("publish failed") from e
    except RuntimeError as z:
        return z


# the exception shapes real broker clients raise from a failed publish (socket / asyncio / ssl / json / client libraries)
KICK_SHAPES = {
    "ConnectionRefusedError(errno,text)": lambda: ConnectionRefusedError(111, "Connection refused"),
    "BrokenPipeError(errno,text)": lambda: BrokenPipeError(32, "Broken pipe"),
    "ConnectionResetError(errno,text)": lambda: ConnectionResetError(104, "Connection reset by peer"),
    "OSError(errno,text,filename)": lambda: OSError(2, "No such file or directory", "/run/broker.sock"),
    "OSError(errno)": lambda: OSError(111),
    "socket.gaierror(errno,text)": lambda: socket.gaierror(-2, "Name or service not known"),
    "TimeoutError(errno,text)": lambda: TimeoutError(110, "Connection timed out"),
    "socket.timeout(text)": lambda: socket.timeout("timed out"),
    "ssl.SSLError(errno,text)": lambda: ssl.SSLError(1, "[SSL: WRONG_VERSION_NUMBER] wrong version number"),
    "asyncio.TimeoutError()": lambda: asyncio.TimeoutError(),
    "RuntimeError()": lambda: RuntimeError(),
    "asyncio.IncompleteReadError(bytes,int)": lambda: asyncio.IncompleteReadError(b"\x01\x02", 10),
    "asyncio.QueueFull()": lambda: asyncio.QueueFull(),
    "KeyError(int)": lambda: KeyError(5),
    "KeyError(str)": lambda: KeyError("queue"),
    "IndexError(text)": lambda: IndexError("pop from empty list"),
    "ValueError(str,str)": lambda: ValueError("a", "b"),
    "ValueError(bytes)": lambda: ValueError(b"\xff\x00"),
    "RuntimeError(tuple)": lambda: RuntimeError(("amqp.example", 5672)),
    "RuntimeError(dict)": lambda: RuntimeError({"code": 503, "reason": "unavailable"}),
    "RuntimeError(float)": lambda: RuntimeError(0.5),
    "Exception(None)": lambda: Exception(None),
    "Exception(str,None)": lambda: Exception("closed", None),
    "ConnectionError(exception)": lambda: ConnectionError(OSError(111, "Connection refused")),
    "ConnectionError(non-ascii text)": lambda: ConnectionError("\u0441\u043e\u0435\u0434\u0438\u043d\u0435\u043d\u0438\u0435 "
                                                              "\u0440\u0430\u0437\u043e\u0440\u0432\u0430\u043d\u043e \u2603"),
    "ConnectionError(lone surrogate)": lambda: ConnectionError("peer said \udcff\udcfe"),
    "UnicodeEncodeError(str,str,int,int,str)": lambda: UnicodeEncodeError("utf-8", "\udcff", 0, 1, "surrogates not allowed"),
    "UnicodeDecodeError(str,bytes,int,int,str)": lambda: UnicodeDecodeError("utf-8", b"\xff", 0, 1, "invalid start byte"),
    "TypeError(json text)": lambda: TypeError("Object of type set is not JSON serializable"),
    "RecursionError(text)": lambda: RecursionError("maximum recursion depth exceeded while encoding a JSON object"),
    "MemoryError()": lambda: MemoryError(),
    "StopAsyncIteration()": lambda: StopAsyncIteration(),
    "ExceptionGroup(text,[OSError,KeyError])": lambda: ExceptionGroup("several publishers failed",
                                                                      [ConnectionRefusedError(111, "Connection refused"),
                                                                       KeyError(5)]),
    "taskiq ResultGetError()": lambda: ResultGetError(),
    "client class with own __init__(host,port)": lambda: BrokerUnavailable("amqp.example", 5672),
    "client class carrying a code": lambda: CodedError(503),
    "RuntimeError raised from an OSError (has __cause__)": _chained,
}


def kick_exc(x):
    """the exception a failing broker.kick() / formatter.dumps() raises for this send (S["kick_x"], pipeline_lib.gen_kickx):
    shape = a key of KICK_SHAPES, or exc = [table class, description] - an object built by exc_instance (derived class with
    __eq__ / __hash__ / __bool__ / __len__ / raising __str__ / __repr__, odd args, __cause__ / __context__ chain).  Always an
    Exception (never a bare BaseException: kiq does not catch those)."""
    if x.get("shape"):
        e = KICK_SHAPES[x["shape"]]()
    else:
        e = exc_instance(x["exc"][0], x["exc"][1])
    assert isinstance(e, Exception), "scenario: a kick failure must be an Exception"
    return e


class _Sink(io.StringIO):
    """where the worker's log goes in the cases that run with logging configured"""


def logging_on():
    """what every real worker has: logging configured (run_worker calls basicConfig) - records of every level are formatted
    (str() of the logged exception, its traceback with the whole cause / context chain).  The driver process runs with
    logging disabled otherwise."""
    root = logging.getLogger()
    st = (root.manager.disable, root.level, logging.raiseExceptions, list(root.handlers))
    h = logging.StreamHandler(_Sink())
    h.setFormatter(logging.Formatter("[%(asctime)s][%(name)s][%(levelname)s] %(message)s"))
    root.handlers = [h]
    root.setLevel(logging.DEBUG)
    logging.raiseExceptions = False          # (a record that cannot be formatted is dropped silently, not printed)
    logging.disable(logging.NOTSET)
    return st


def logging_off(st):
    root = logging.getLogger()
    root.handlers = st[3]
    root.setLevel(st[1])
    logging.raiseExceptions = st[2]
    logging.disable(st[0])


# ------------------------------------------------------------------------------------- receive side
def task_name(msgs, i):
    """the task name message i is addressed to.  M["name_of"] = j: the name of message j (its task t<j>, or the unknown name
    nope<j>) - message i's function is registered under that SAME name when message i arrives (see make_task)"""
    M = msgs[i]
    j = M.get("name_of")
    if j is not None:
        return task_name(msgs, j)
    return "t%d" % i if M["kind"] == "ok" else "nope%d" % i


SIG_SRC = {
    # parameter lists that differ from the plain one without touching the dependencies: an extra positional parameter
    # with a default, a keyword-only one, a return annotation / another annotation of the dependency parameter
    # (positional extras, keyword-only extras, **name, return annotation)
    "extra": (["extra=0"], [], None, ""),
    "kwonly": ([], ["opt=None"], None, ""),
    "annot": ([], [], None, " -> int"),
    "varkw": ([], [], "**options", ""),
}


# ------------------------------------------------------------------------------------- annotated task parameters
# What the annotations of a task function's parameters can be (M["params"], pipeline_lib.gen_params).  The receiver hands
# every annotated parameter that has a value in the message to pydantic (taskiq.receiver.params_parser.parse_params ->
# taskiq.compat.parse_obj_as); whatever the annotation, a value that cannot be converted is passed on as it was sent.
# Everything below is ordinary application code: classes a task module would define, typing constructs it would use.
class Payload(typing.TypedDict):
    user_id: int
    amount: int


class PartialPayload(typing.TypedDict, total=False):
    a: int
    b: str


class NestedPayload(typing.TypedDict):
    inner: Payload
    tag: str


class ReqPayload(typing.TypedDict):
    a: typing.Required[int]
    b: typing.NotRequired[str]


class ExtPayload(typing_extensions.TypedDict):
    a: int


class Runner(typing.Protocol):
    def run(self) -> int: ...


@typing.runtime_checkable
class CheckedRunner(typing.Protocol):
    def run(self) -> int: ...


UserId = typing.NewType("UserId", int)
TVar = typing.TypeVar("TVar")


class PlainClass:
    """a class pydantic knows nothing about: no schema, the value is passed on as sent"""


class Model(pydantic.BaseModel):
    a: int
    b: str = "x"


class Box(pydantic.BaseModel, typing.Generic[TVar]):
    item: TVar


class PlainBox(typing.Generic[TVar]):
    pass


@dataclasses.dataclass
class Point:
    a: int
    b: str = "x"


class Color(enum.Enum):
    RED = "red"
    BLUE = "blue"


class Level(enum.IntEnum):
    ONE = 1
    TWO = 2


class Pair(typing.NamedTuple):
    x: int
    y: str


def _int_schema(cls, source, handler):
    from pydantic_core import core_schema
    return core_schema.int_schema()


class _MetaAlways(type):
    def __instancecheck__(cls, obj):
        return True


class _MetaNever(type):
    def __instancecheck__(cls, obj):
        return False


class _MetaRefuses(type):
    def __instancecheck__(cls, obj):
        raise TypeError("%s does not support instance checks" % cls.__name__)


class Everything(metaclass=_MetaAlways):
    """isinstance(x, Everything) is True for any x; validated as an int"""
    __get_pydantic_core_schema__ = classmethod(_int_schema)


class Nothing(metaclass=_MetaNever):
    __get_pydantic_core_schema__ = classmethod(_int_schema)


class Unchecked(metaclass=_MetaRefuses):
    """a class that refuses isinstance() the way TypedDict classes and plain Protocols do; validated as an int"""
    __get_pydantic_core_schema__ = classmethod(_int_schema)


class Number(abc.ABC):
    """an abstract base class with int registered as a virtual subclass; validated as an int"""
    __get_pydantic_core_schema__ = classmethod(_int_schema)


Number.register(int)

ANNOT = {
    "int": int, "str": str, "float": float, "bool": bool, "bytes": bytes, "list": list, "dict": dict,
    "Any": typing.Any, "object": object, "None": None, "TypeVar": TVar, "Type[int]": typing.Type[int],
    "Callable": typing.Callable[[], int],
    "Optional[int]": typing.Optional[int], "Union[int,str]": typing.Union[int, str], "int|None": int | None,
    "List[int]": typing.List[int], "list[int]": list[int], "Dict[str,int]": typing.Dict[str, int],
    "Tuple[int,str]": typing.Tuple[int, str], "Set[int]": typing.Set[int], "FrozenSet[int]": typing.FrozenSet[int],
    "Sequence[int]": typing.Sequence[int], "Mapping[str,int]": typing.Mapping[str, int],
    "List[Dict[str,int]]": typing.List[typing.Dict[str, int]],
    "Optional[List[Optional[int]]]": typing.Optional[typing.List[typing.Optional[int]]],
    "TypedDict": Payload, "TypedDict(total=False)": PartialPayload, "TypedDict(nested)": NestedPayload,
    "TypedDict(Required/NotRequired)": ReqPayload, "typing_extensions.TypedDict": ExtPayload,
    "List[TypedDict]": typing.List[Payload], "Optional[TypedDict]": typing.Optional[Payload],
    "Protocol": Runner, "Protocol(runtime_checkable)": CheckedRunner,
    "NewType": UserId, "Literal[str]": typing.Literal["a", "b"], "Literal[int]": typing.Literal[1, 2],
    "Annotated[int,str]": typing.Annotated[int, "meta"],
    "Annotated[int,Field]": typing.Annotated[int, pydantic.Field(gt=0)],
    "Annotated[int,dict]": typing.Annotated[int, {"unit": "s"}],
    "Annotated[TypedDict,str]": typing.Annotated[Payload, "meta"],
    "plain-class": PlainClass, "BaseModel": Model, "BaseModel[int](generic)": Box[int], "plain-generic[int]": PlainBox[int],
    "dataclass": Point, "Enum": Color, "IntEnum": Level, "NamedTuple": Pair,
    "datetime": datetime.datetime, "date": datetime.date, "timedelta": datetime.timedelta, "UUID": uuid.UUID,
    "Decimal": decimal.Decimal,
    "metaclass(__instancecheck__ always True)": Everything, "metaclass(__instancecheck__ always False)": Nothing,
    "metaclass(__instancecheck__ raises)": Unchecked, "ABC(int registered)": Number,
    # forward references: the annotation is the STRING, resolved by typing.get_type_hints in the function's globals
    "'int'": "int", "'Payload'(TypedDict)": "Payload", "'List[Payload]'": "typing.List[Payload]",
    "'Optional[Runner]'(Protocol)": "typing.Optional[Runner]",
}
# the global names the annotations (written as strings / under `from __future__ import annotations`) are resolved in
ANNOT_NS = dict(typing=typing, Payload=Payload, Runner=Runner)


def fresh_annotation(kind):
    """a NEW class per task function (a class defined inside a factory / a module reloaded): nothing process-wide that is
    keyed by the annotation (taskiq.compat's cached type adapters) has seen it before"""
    if kind == "TypedDict":
        return typing.TypedDict("Payload", {"user_id": int, "amount": int})
    if kind == "TypedDict(total=False)":
        return typing.TypedDict("PartialPayload", {"a": int, "b": str}, total=False)
    if kind == "Protocol":
        return type("Runner", (typing.Protocol,), {"run": lambda self: 0})
    if kind == "BaseModel":
        return pydantic.create_model("Model", a=(int, ...), b=(str, "x"))
    if kind == "dataclass":
        return dataclasses.make_dataclass("Point", [("a", int), ("b", str, "x")])
    if kind == "metaclass(__instancecheck__ raises)":
        return _MetaRefuses("Unchecked", (), {"__get_pydantic_core_schema__": classmethod(_int_schema)})
    if kind == "NewType":
        return typing.NewType("UserId", int)
    return ANNOT[kind]


def call_args(M):
    """(args, kwargs) message M carries for the parameters of its task function (M["params"]["list"], in order; by = pos:
    positional | kw / kwonly: by keyword | star: further positional values taken by *rest | absent: not sent)"""
    args, kwargs = [], {}
    for k, p in enumerate((M.get("params") or {}).get("list") or []):
        if p["by"] == "pos":
            args.append(p["val"])
        elif p["by"] == "star":
            args.extend(p["val"])
        elif p["by"] in ("kw", "kwonly"):
            kwargs["k%d" % k if p["by"] == "kwonly" else "p%d" % k] = p["val"]
    return args, kwargs


def param_sources(i, M, ns):
    """source text of the message parameters of M's function: (positional, *rest or None, keyword-only, names); the
    annotation objects go into the function's globals `ns` as A<k>"""
    pos, star, kwo, names = [], None, [], []
    P = M.get("params") or {}
    for k, p in enumerate(P.get("list") or []):
        a = fresh_annotation(p["ann"]) if p.get("fresh") else ANNOT[p["ann"]]
        if isinstance(a, str):
            ann = repr(a)                   # a forward reference written by hand
        else:
            ns["A%d" % k] = a
            ann = "A%d" % k
        if p["by"] == "star":
            star = "*rest: %s" % ann
            names.append("rest")
        elif p["by"] == "kwonly":
            kwo.append("k%d: %s = None" % (k, ann))
            names.append("k%d" % k)
        else:
            pos.append("p%d: %s%s" % (k, ann, "" if p["by"] == "pos" and not p.get("default") else " = None"))
            names.append("p%d" % k)
    return pos, star, kwo, names


def function_got(i, *values):
    """(evidence only) the type names of the values the task function of message i was called with"""
    CUR.setdefault("got", []).append([i] + [type(v).__name__ for v in values])


def decorated(i, M, fn, dep, loop, give, made, pre):
    """the callable registered as the task of message i, built around the innermost function `fn` (M["deco"]):
    how = wraps / wraps2        one / two decorator layers made with functools.wraps (each has __wrapped__)
          nowraps              a decorator that does not use functools.wraps (declares the dependency itself)
          async_over_sync      an `async def` functools.wraps wrapper around a SYNC function (called on the loop)
          partial_uw           functools.partial(f, mode=1) + functools.update_wrapper(partial, f): __wrapped__ = f, whose
                               default mode=0 is the innermost behaviour
          partial_named        the same partial given __name__ / __annotations__ by hand (no __wrapped__)
          instance(_uw)        an object with __call__ (async: inspect.markcoroutinefunction), __name__ and __annotations__ set
                               by hand / by functools.update_wrapper(obj, fn)
          wrapped_attr         a function whose __wrapped__ attribute was set by hand
    layers (outermost first): on = None (passes on what happens below) | "raise" (catches an Exception from below) | "ret"
    (looks at the value from below), then ends with `out` ("final" = M["out"]).  The outermost layer first spends
    M["segs"][:pre]."""
    D, out = M["deco"], M["out"]
    how, layers = D["how"], D["layers"]
    asy = M["style"] == "async"
    has_dep = M["dep"] != "none"

    def layer_out(L):
        return out if L["out"] == "final" else L["out"]

    async def a_apply(L, call, a, kw):
        try:
            v = await call(*a, **kw)
        except Exception:
            if L.get("on") == "raise":
                return give(layer_out(L))
            raise
        if L.get("on") == "ret":
            return give(layer_out(L))
        return v

    def s_apply(L, call, a, kw):
        try:
            v = call(*a, **kw)
        except Exception:
            if L.get("on") == "raise":
                return give(layer_out(L))
            raise
        if L.get("on") == "ret":
            return give(layer_out(L))
        return v

    async def a_top(L, call, a, kw):
        log(i, "body.start")
        try:
            for s in pre:
                await susp(s)
            v = await a_apply(L, call, a, kw)
        except BaseException as e:
            if isinstance(e, asyncio.CancelledError) and not any(e is m for m in made):
                log(i, "body.end", "cancelled")
            else:
                log(i, "body.end", "raise", excid(e))
            raise
        log(i, "body.end", "ret", val(v))
        return v

    def s_top(L, call, a, kw):
        log(i, "body.start")
        if threading.get_ident() == CUR.get("loop_thread"):
            log(i, "body.inloop")
        else:
            e = CUR.get("entered")
            if e is not None:
                e.set()
            for s in pre:
                loop.thread_vsleep(s)
        try:
            v = s_apply(L, call, a, kw)
        except BaseException as e:
            log(i, "body.end", "raise", excid(e))
            raise
        log(i, "body.end", "ret", val(v))
        return v

    def layer(below, L, top, wraps, below_sync=False):
        if asy:
            if below_sync:
                async def call(*a, **kw):
                    return below(*a, **kw)
            else:
                call = below

            async def w(*a, **kw):
                if top:
                    return await a_top(L, call, a, kw)
                return await a_apply(L, call, a, kw)
        else:
            def w(*a, **kw):
                if top:
                    return s_top(L, below, a, kw)
                return s_apply(L, below, a, kw)
        return functools.wraps(below)(w) if wraps else w

    def with_dep(f):
        """a function with the written-out parameter list of the plain task functions"""
        if not has_dep:
            return f
        if asy:
            async def g(d: int = TaskiqDepends(dep)):
                return await f(d=d)
        else:
            def g(d: int = TaskiqDepends(dep)):
                return f(d=d)
        return g

    if how in ("wraps", "wraps2"):
        for k in reversed(range(len(layers))):
            fn = layer(fn, layers[k], k == 0, True)
        return fn
    if how == "async_over_sync":
        return layer(fn, layers[0], True, True, below_sync=True)
    full = layer(fn, layers[0], True, False)
    if how == "nowraps":
        return with_dep(full)
    if how == "wrapped_attr":
        g = with_dep(full) if has_dep else full
        g.__wrapped__ = fn
        return g
    if how in ("partial_uw", "partial_named"):
        if asy:
            if has_dep:
                async def f(d: int = TaskiqDepends(dep), *, mode=0):
                    return await (full if mode else fn)(d=d)
            else:
                async def f(*, mode=0):
                    return await (full if mode else fn)()
        else:
            if has_dep:
                def f(d: int = TaskiqDepends(dep), *, mode=0):
                    return (full if mode else fn)(d=d)
            else:
                def f(*, mode=0):
                    return (full if mode else fn)()
        p = functools.partial(f, mode=1)
        if how == "partial_uw":
            functools.update_wrapper(p, f)
        else:
            p.__name__, p.__annotations__, p.__module__ = "task_partial", {}, __name__
        return p
    if how in ("instance", "instance_uw"):
        if asy:
            if has_dep:
                class TaskObject:
                    async def __call__(self, d: int = TaskiqDepends(dep)):
                        return await full(d=d)
            else:
                class TaskObject:
                    async def __call__(self):
                        return await full()
        else:
            if has_dep:
                class TaskObject:
                    def __call__(self, d: int = TaskiqDepends(dep)):
                        return full(d=d)
            else:
                class TaskObject:
                    def __call__(self):
                        return full()
        obj = TaskObject()
        if how == "instance_uw":
            functools.update_wrapper(obj, fn)
        else:
            obj.__name__, obj.__annotations__ = "task_object", {}
        if asy:
            inspect.markcoroutinefunction(obj)
        return obj
    raise ValueError(how)


def make_task(broker, i, M, loop, name=None, group=None):
    """register the function of message i under `name` (default t<i>).  group = key of the re-registration group: the
    functions registered one after the other under one name declare the SAME dependency (one callable object, whose log
    entries go to the message being processed) - what differs is the function: sync / async, body, outcome, durations,
    parameter list (M["sig"]), the way it is registered (M["reg_via"])."""
    out = M["out"]

    def finish_body():
        if "raise" in out:
            log(i, "body.end", "raise", out["raise"])
            raise exc_instance(out["raise"], out.get("x"))
        log(i, "body.end", "ret", out["ret"])
        return out["ret"]

    async def abody():
        log(i, "body.start")
        try:
            for s in M["segs"]:
                await susp(s)
        except asyncio.CancelledError:
            log(i, "body.end", "cancelled")
            raise
        return finish_body()

    def sbody():
        log(i, "body.start")
        if threading.get_ident() == CUR.get("loop_thread"):
            # a SYNC function entered on the event loop's own thread (it must run in the executor): parking this thread
            # would stop the loop - say so in the log and go on without the virtual sleeps
            log(i, "body.inloop")
            return finish_body()
        e = CUR.get("entered")
        if e is not None:
            e.set()
        for s in M["segs"]:
            loop.thread_vsleep(s)
        return finish_body()

    D = M.get("deco")
    inner_style = M["style"]
    if D:
        # M["deco"] (pipeline_lib.gen_deco): the callable REGISTERED as the task is not the function the user wrote but
        # something built around it - decorator layers (functools.wraps or not), a functools.partial, a callable object,
        # a function carrying __wrapped__.  M["out"] / M["segs"] describe the registered callable (what the statement is
        # about); the innermost function on its own ends with D["inner"] after M["segs"][D["pre"]:].  The registered
        # callable logs body.start / body.end, the innermost function inner.start / inner.end (no model effect).
        pre, rest = M["segs"][:D.get("pre", 0)], M["segs"][D.get("pre", 0):]
        made = []
        if D["how"] == "async_over_sync":
            inner_style = "sync"

        def give(o):
            if "raise" in o:
                e = exc_instance(o["raise"], o.get("x"))
                made.append(e)
                raise e
            return o["ret"]

        def inner_end():
            o = out if D["inner"] == "final" else D["inner"]     # ("final": layers that pass everything through)
            log(i, "inner.end", *(("raise", o["raise"]) if "raise" in o else ("ret", o["ret"])))
            return give(o)

        async def abody():      # noqa: F811  (the innermost function's own body)
            log(i, "inner.start")
            for s in rest:
                await susp(s)
            return inner_end()

        def sbody():            # noqa: F811
            log(i, "inner.start")
            if threading.get_ident() != CUR.get("loop_thread"):
                e = CUR.get("entered")
                if e is not None:
                    e.set()
                for s in rest:
                    loop.thread_vsleep(s)
            return inner_end()

    dw = (lambda: i) if group is None else who

    def dep_sync():
        w = dw()
        log(w, "dep.open")
        if M["dep"] == "fail":
            raise exc_instance(2, M["dep_x"]) if M.get("dep_x") else LookupError("dep")
        try:
            yield 1
        except BaseException as e:
            log(w, "dep.saw", excid(e))
            raise
        finally:
            log(w, "dep.close")

    async def dep_async():
        w = dw()
        log(w, "dep.open")
        await susp(M.get("dep_susp"))
        if M["dep"] == "fail":
            raise exc_instance(2, M["dep_x"]) if M.get("dep_x") else LookupError("dep")
        try:
            yield 1
        except BaseException as e:
            log(w, "dep.saw", excid(e))
            raise
        finally:
            log(w, "dep.close")

    dep = dep_async if M.get("dep_async") else dep_sync
    if group is not None:
        dep = CUR.setdefault("group_dep", {}).setdefault(group, dep)
    sig = M.get("sig")
    P = M.get("params") or {}
    if sig or P:
        # the parameter list is written out: message parameters with their annotations (M["params"]), the dependency, the
        # extras of M["sig"].  With a *rest parameter the dependency is a keyword-only parameter (a positional one would
        # swallow the first extra value)
        ns = {"abody": abody, "sbody": sbody, "TaskiqDepends": TaskiqDepends, "dep": dep, "__name__": __name__,
              "got": function_got, "I": i}
        ns.update(ANNOT_NS)
        xpos, xkwo, varkw, ret = SIG_SRC[sig] if sig else ([], [], None, "")
        pos, star, kwo, names = param_sources(i, M, ns)
        if P.get("ret"):
            ns["R"] = ANNOT[P["ret"]]
            ret = " -> %s" % (repr(ns["R"]) if isinstance(ns["R"], str) else "R")
        d = [] if M["dep"] == "none" else ["d: int = TaskiqDepends(dep)"]
        parts = pos + ([] if star else d) + xpos
        if star:
            parts += [star] + d
        elif kwo or xkwo:
            parts.append("*")
        parts += kwo + xkwo + ([varkw] if varkw else [])
        src = "%sdef fn(%s)%s:\n%s    return %s\n" % (
            "async " if inner_style == "async" else "", ", ".join(parts), ret,
            "    got(I, %s)\n" % ", ".join(names) if names else "",
            "await abody()" if inner_style == "async" else "sbody()")
        flags = __future__.annotations.compiler_flag if P.get("future") else 0
        exec(compile(src, "<task function of message %d>" % i, "exec", flags=flags, dont_inherit=True), ns)  # noqa: S102
        fn = ns["fn"]
    elif inner_style == "async":
        if M["dep"] == "none":
            async def fn():
                return await abody()
        else:
            async def fn(d: int = TaskiqDepends(dep)):
                return await abody()
    else:
        if M["dep"] == "none":
            def fn():
                return sbody()
        else:
            def fn(d: int = TaskiqDepends(dep)):
                return sbody()
    if D:
        fn = decorated(i, M, fn, dep, loop, give, made, pre)
    name = name or "t%d" % i
    if M.get("reg_via") == "decorator":
        broker.task(task_name=name)(fn)
    elif M.get("reg_via") == "decorator_labels":
        broker.task(task_name=name, origin="hot-reload")(fn)
    else:
        broker.register_task(fn, task_name=name)


def make_payload(broker, i, M, tbl):
    if M["kind"] == "bad":
        v = M.get("bad", "junk")
        if v == "junk":
            return b"\x00not json"
        if v == "fields":
            return b'{"task_id": "id1", "labels": {}}'
        # parse_labels fails: an INT-typed label that is not a number
        return broker.formatter.dumps(TaskiqMessage(task_id="id%d" % M["id"], task_name=CUR["names"][i], labels={"n": "abc"},
                                                    labels_types={"n": 2}, args=[], kwargs={})).message
    labels, types = {}, {}
    for k, v in typed_labels(tbl, M["labels"]).items():
        labels[k], types[k] = prepare_label(v)
    name = CUR["names"][i]
    args, kwargs = call_args(M)
    return broker.formatter.dumps(TaskiqMessage(task_id="id%d" % M["id"], task_name=name, labels=labels,
                                                labels_types=types, args=args, kwargs=kwargs)).message


# taskiq.labels.LabelType as every released client writes it (the harness' own table: the wire form of a message that is
# not sent through the real kicker is built without asking the code under test)
LT = dict(any=1, int=2, str=3, float=4, bool=5, bytes=6)
GHOST_VALUE = {1: None, 2: 1, 3: "s", 4: 1.5, 5: True, 6: b"x"}


class WireBroker(AsyncBroker):
    """the CLIENT's broker object: what its kick() is handed is the message on the wire"""

    def __init__(self):
        super().__init__()
        self.sent = []

    async def kick(self, message):
        self.sent.append(message)

    async def listen(self):
        return
        yield b""


def make_stamp(w, stamps, ghost):
    class Stamp(TaskiqMiddleware):
        """client side: a pre_send hook (it runs after the kicker has computed labels_types) that adds labels - tracing /
        correlation / tenant headers - and removes some"""

        def pre_send(self, message):
            def do():
                if w.get("inplace", True):
                    out = message
                else:
                    out = message.model_copy(update={"labels": dict(message.labels)})
                for k, v in stamps.items():
                    out.labels[k] = v
                for k in ghost:
                    out.labels.pop(k, None)
                return out

            if w.get("pre_send") == "async":
                async def later():
                    return do()
                return later()
            return do()
    return Stamp()


async def wire_payload(broker, i, M, tbl):
    """the bytes of one VALID message, written as M["wire"] says (pipeline_lib.gen_wire).  The label dict a correct receiver
    runs the task with is the table entry M["labels"], whatever the wire form: a label with a labels_types entry is parsed
    back to the table value, a label without one arrives as the JSON value that was sent - the table value."""
    w = M["wire"]
    D = typed_labels(tbl, M["labels"])
    name = CUR["names"][i]
    tid_ = "id%d" % M["id"]
    typed = w.get("typed") or {}
    ghost = [(k, t) for k, t in w.get("ghost") or []]
    args, kwargs = call_args(M)
    if w["via"] == "kicker":
        wb = WireBroker()
        if w.get("cfmt") == "json":
            wb.formatter = JSONFormatter()
        wb.add_middlewares(make_stamp(w, {k: v for k, v in D.items() if k not in typed}, [k for k, _ in ghost]))
        labels = {k: v for k, v in D.items() if k in typed}
        labels.update({k: GHOST_VALUE[t] for k, t in ghost})      # typed by the kicker, removed by the middleware
        await AsyncKicker(name, wb, {}).with_task_id(tid_).with_labels(**labels).kiq(*args, **kwargs)
        assert len(wb.sent) == 1, "harness: kiq did not hand exactly one message to broker.kick"
        return wb.sent[0].message
    labels, types = {}, {}
    for k, v in D.items():
        sp = typed.get(k)
        if sp is None:
            labels[k] = v
            continue
        assert type(v) in (int, str, float, bool), "scenario: a typed label that no type describes"
        if sp == "std":
            labels[k], types[k] = str(v), LT[type(v).__name__]
        elif sp == "num":
            labels[k], types[k] = v, LT[type(v).__name__]
        else:
            assert sp == "any", "scenario: unknown spelling %r" % (sp,)
            labels[k], types[k] = v, LT["any"]
    for k, t in ghost:
        types[k] = t
    lt = types if w["lt"] == "dict" else None
    assert lt is not None or not types, "scenario: typed label without labels_types"
    if w["via"] == "model":
        fmt = JSONFormatter() if w.get("cfmt") == "json" else ProxyFormatter(broker)
        return fmt.dumps(TaskiqMessage(task_id=tid_, task_name=name, labels=labels, labels_types=lt, args=args,
                                       kwargs=kwargs)).message
    assert w["via"] == "raw", "scenario: unknown via %r" % (w["via"],)
    d = dict(task_id=tid_, task_name=name, labels=labels, labels_types=lt, args=args, kwargs=kwargs)
    if w["lt"] == "omit":
        del d["labels_types"]
    d.update(w.get("top") or {})
    tx = w.get("text") or {}
    keys = list(d)
    random.Random(tx.get("order", 0)).shuffle(keys)
    d = {k: d[k] for k in keys}
    return json.dumps(d, ensure_ascii=bool(tx.get("ascii", True)),
                      separators=(",", ":") if tx.get("compact") else (", ", ": ")).encode("utf-8")


class PLoop(vloop.VLoop):
    """virtual-time loop + sync task bodies with a *virtual* duration.

    The clock is held back while a pool thread is really running (also a detached one whose asyncio future was
    cancelled by wait_for: accounting is on the concurrent future, not on the asyncio wrapper).  A pool thread
    calling thread_vsleep(ms) parks on an Event that a loop timer sets ms of virtual time later; while parked it
    does not hold the clock back."""

    def __init__(self, start_us=0):
        super().__init__(start_us)
        self._pool = None
        self._parked = 0

    def run_in_executor(self, executor, func, *args):
        if executor is None:
            if self._pool is None:
                self._pool = ThreadPoolExecutor(8)
            executor = self._pool
        self._exec_pending += 1
        cf = executor.submit(func, *args)

        def dec():
            self._exec_pending -= 1

        def cf_done(_f):
            try:
                self.call_soon_threadsafe(dec)
            except RuntimeError:
                pass
        # order matters: the wrapper's state copy must be queued on the loop before the clock is released
        fut = asyncio.wrap_future(cf, loop=self)
        cf.add_done_callback(cf_done)
        return fut

    def thread_vsleep(self, ms):
        if ms is None:
            return
        ev = threading.Event()

        def reg():
            self._exec_pending -= 1
            self._parked += 1

            def wake():
                self._exec_pending += 1
                self._parked -= 1
                ev.set()
            self.call_later(ms / 1000.0, wake)
        self.call_soon_threadsafe(reg)
        ev.wait(20)

    async def drain_threads(self):
        while self._exec_pending > 0 or self._parked > 0:
            await asyncio.sleep(0.001)


class _ScriptedExecutor(Executor):
    """thread-per-call executors that make the race "pool thread enters the function vs. wait_for(timeout <= 0)
    cancels the future" deterministic: `eager` - submit() returns only once the function body has been entered
    (the cancel finds it running); `lazy` - the thread is started two loop iterations later (the cancel, which
    reaches the concurrent future one iteration after the submit, wins and the function never runs)."""

    def __init__(self, mode):
        self.mode = mode

    def submit(self, fn, *args):
        cf = CFuture()
        entered = threading.Event()
        CUR["entered"] = entered

        def work():
            if not cf.set_running_or_notify_cancel():
                return
            try:
                r = fn(*args)
            except BaseException as e:   # noqa
                cf.set_exception(e)
            else:
                cf.set_result(r)
            entered.set()

        def start():
            threading.Thread(target=work, daemon=True).start()
        if self.mode == "eager":
            start()
            entered.wait(5)
        else:
            # wait_for's cancel reaches the concurrent future through a done-callback of the asyncio wrapper, i.e.
            # one loop iteration after the submit: start the thread one iteration later than that
            lp = asyncio.get_running_loop()
            lp.call_soon(lambda: lp.call_soon(start))
        return cf


def run_on_loop(coro_fn, start_us=0):
    loop = PLoop(start_us)
    asyncio.set_event_loop(loop)
    try:
        return loop.run_until_complete(coro_fn(loop))
    finally:
        try:
            pending = [t for t in asyncio.all_tasks(loop) if not t.done()]
            for t in pending:
                t.cancel()
            if pending:
                loop.run_until_complete(asyncio.gather(*pending, return_exceptions=True))
            loop.run_until_complete(loop.shutdown_asyncgens())
            if loop._pool is not None:
                loop._pool.shutdown(wait=True)
        except BaseException:
            pass
        asyncio.set_event_loop(None)
        loop.close()


def make_ack(i, M):
    """the acknowledge callable of message i.  ackable = sync: plain function; async: `async def`; task / future / obj:
    plain function returning an asyncio.Task / a Future completing ack_susp ms later / an object with __await__ (the
    acknowledgement is made only when it is awaited) - awaitables that are not coroutines"""
    st = M["ackable"]

    async def acoro():
        log(i, "ack")
        await susp(M.get("ack_susp"))
        log(i, "ack.exit")

    if st == "sync":
        def ack():
            log(i, "ack")
            log(i, "ack.exit")
    elif st == "async":
        async def ack():
            await acoro()
    elif st == "task":
        def ack():
            return inflight(asyncio.ensure_future(acoro()))
    elif st == "obj":
        def ack():
            return Lazy(acoro())
    elif st == "future":
        def ack():
            log(i, "ack")
            loop = asyncio.get_running_loop()
            fut = loop.create_future()

            def complete():
                log(i, "ack.exit")
                fut.set_result(None)
            d = M.get("ack_susp")
            if d is None:
                complete()
            else:
                loop.call_later(d / 1000.0, complete)
            return inflight(fut)
    else:
        raise ValueError(st)
    return ack


async def drain_inflight():
    """let the awaitables the driver handed out (tasks / futures of hooks and acks) finish"""
    for _ in range(50):
        pend = [x for x in CUR.get("inflight", []) if not x.done()]
        if not pend:
            return
        await asyncio.wait(pend, timeout=1.0)


def run_recv(case):
    tbl = case["labels"]
    msgs = case["msgs"]
    # late binding: things a broker is given AFTER its Receiver was constructed (a WORKER_STARTUP handler calling
    # with_result_backend, InMemoryBroker().with_result_backend(...), middlewares added by a plugin's startup code);
    # the receiver must use what the broker has when the message is processed
    late = case.get("late") or {}
    # life cycle: startup() / shutdown() calls on the broker object before the messages and while they are processed
    life = case.get("life") or {}

    async def main(loop):
        broker = make_broker(life)
        mws = make_mws(case["mws"], tbl)
        give_life_hooks(mws, life.get("mw_hooks"))
        CUR.update(broker=broker, mws=mws, plan={i: M for i, M in enumerate(msgs)}, exec={}, sending=False,
                   names=[task_name(msgs, i) for i in range(len(msgs))], loop_thread=threading.get_ident(),
                   rekick_susp=case.get("rekick_susp"))
        if case.get("wall"):
            # the wall clock of taskiq.receiver.receiver (and, scope = global, of every module that reads time.time() at
            # call time) is scripted and may step backwards / forwards while executions are under way
            CUR["wall"] = WallClock(loop, case["wall"], msgs)
            if case["wall"].get("scope") == "global":
                time_mod.time = CUR["wall"].read
        style = late.get("style", "assign")
        nb = late.get("mws_before", len(mws)) if late else len(mws)

        def set_formatter():
            if style == "assign":
                broker.formatter = RecFormatter(broker)
            else:
                broker.with_formatter(RecFormatter(broker))

        def set_backend():
            if style == "assign":
                broker.result_backend = RecBackend()
            else:
                broker.with_result_backend(RecBackend())

        def set_mws(part):
            if style == "assign":
                broker.add_middlewares(*part)
            else:
                broker.with_middlewares(*part)

        def group_of(i):
            # key of the re-registration group message i belongs to (None: its task name is its own)
            j = msgs[i].get("name_of")
            if j is not None:
                return j
            return i if any(M2.get("name_of") == i for M2 in msgs) else None

        def set_tasks():
            for i, M in enumerate(msgs):
                if M["kind"] == "ok" and M.get("name_of") is None:
                    make_task(broker, i, M, loop, group=group_of(i))

        def late_part():
            if late.get("formatter"):
                set_formatter()
            if late.get("backend"):
                set_backend()
            set_mws(mws[nb:])
            if late.get("tasks"):
                set_tasks()

        # ---- what the broker has before the Receiver exists
        if late.get("formatter"):
            broker.formatter = StaleFormatter(broker)
        else:
            broker.formatter = RecFormatter(broker)
        if late.get("backend") == "rec":
            broker.result_backend = RecBackend()      # an earlier backend, replaced below
        elif not late.get("backend"):
            broker.result_backend = RecBackend()
        broker.add_middlewares(*mws[:nb])
        orig_find = broker.find_task

        def find_task(name):
            t = orig_find(name)
            if t is None:
                log(who(), "unknown")
            return t
        broker.find_task = find_task
        if not late.get("tasks"):
            set_tasks()
        if style == "startup":
            from taskiq.events import TaskiqEvents
            broker.is_worker_process = True
            def late_once():
                # (the handler runs on every startup() of the life-cycle cases: it equips the broker once)
                if not CUR.get("late_done"):
                    CUR["late_done"] = True
                    late_part()

            if late.get("handler_async"):
                async def on_startup(state):
                    await asyncio.sleep(0)
                    late_once()
            else:
                def on_startup(state):
                    late_once()
            broker.add_event_handler(TaskiqEvents.WORKER_STARTUP, on_startup)
        at = case.get("ack_type")
        ex = _ScriptedExecutor(case["executor"]) if case.get("executor") else None
        if case.get("cli") is not None:
            # configuration through the real command-line path (harness/cli_glue.py), computed before the loop ran
            kw = dict(_CLI["kw"])
            kw["max_async_tasks"] = None
            recv = Receiver(broker, executor=ex, run_startup=False, **kw)
        elif case.get("no_parse"):
            # parameter validation switched off (what --no-parse does)
            recv = Receiver(broker, executor=ex, max_async_tasks=None, run_startup=False, validate_params=False,
                            propagate_exceptions=case["propagate"],
                            ack_type=AcknowledgeType(at) if at else None)
        else:
            recv = Receiver(broker, executor=ex, max_async_tasks=None, run_startup=False,
                            propagate_exceptions=case["propagate"],
                            ack_type=AcknowledgeType(at) if at else None)
        # ---- after the Receiver exists
        if style == "startup":
            await broker.startup()          # what Receiver.listen() does first (run_startup=True)
        elif late:
            late_part()
        await life_ops(broker, life.get("pre"))

        async def one(i, M):
            WHO_CV.set(i)
            await susp(M.get("arrive"))
            if M.get("wire"):
                data = await wire_payload(broker, i, M, tbl)
            else:
                data = make_payload(broker, i, M, tbl)
            if M.get("name_of") is not None:
                # RE-REGISTRATION at run time: this message's function replaces whatever is registered under the name of
                # message name_of (dynamic tasks, hot reload, a module that declares the task again), then the message
                # is delivered: it must be executed by the function that is registered now
                make_task(broker, i, M, loop, name=CUR["names"][i], group=group_of(i))
            if M["ackable"] != "none":
                msg = AckableMessage(data=data, ack=make_ack(i, M))
            else:
                msg = data
            try:
                if M.get("raise_err"):
                    await recv.callback(msg, raise_err=True)
                else:
                    await recv.callback(message=msg, raise_err=False)   # exactly what Receiver.runner does
                log(i, "done")
            except BaseException as e:   # noqa
                log(i, "crash", type(e).__name__)

        async def swapper(ms):
            # the application replaces the result backend while messages are being processed
            await asyncio.sleep(ms / 1000.0)
            set_backend()

        ts = [asyncio.create_task(one(i, M), name="m%d" % i) for i, M in enumerate(msgs)]
        if late.get("swap_at") is not None:
            ts.append(asyncio.create_task(swapper(late["swap_at"]), name="swap"))
        if life.get("at"):
            ts.append(asyncio.create_task(life_task([broker], [[ms, 0, op] for ms, op in life["at"]]), name="life"))
        await asyncio.gather(*ts)
        await drain_inflight()
        # let detached sync bodies (timed-out executor futures) finish so that their end is in the log
        await loop.drain_threads()
        CUR["got_snapshot"] = sorted(CUR.get("got", []), key=lambda g: g[0])
        return list(LOG), loop.time_us(), list(CUR.get("life_log", []))     # snapshot before the loop is torn down

    cli_kw = None
    if case.get("cli") is not None:
        import cli_glue
        from taskiq import InMemoryBroker
        cli_kw = cli_glue.receiver_kwargs_via_cli(case["cli"], InMemoryBroker())
    _CLI["kw"] = cli_kw
    real_time = time_mod.time
    lst = logging_on() if case.get("logging") else None
    try:
        # origin of the loop's monotonic clock (arbitrary on a real host: seconds since boot)
        lg, end, lf = run_on_loop(main, int(float((case.get("wall") or {}).get("mono0", 0)) * 1_000_000))
    finally:
        time_mod.time = real_time
        if lst is not None:
            logging_off(lst)
    return {"log": lg, "end_us": end, "life": lf, "got": CUR.get("got_snapshot", [])}


# ------------------------------------------------------------------------------------- send side
def shared_reset():
    """put the shared broker object (module global of taskiq) and the class-level task registry back as they were"""
    st = CUR.pop("shared_state", None)
    if st is None:
        return
    obj, snap, reg = st
    for k in list(vars(obj)):
        if k not in snap:
            delattr(obj, k)
    for k, v in snap.items():
        setattr(obj, k, v)
    cur = AsyncBroker.global_task_registry
    for k in list(cur):
        if k not in reg:
            del cur[k]
    cur.update(reg)


async def shared_scenario(case, brokers, step):
    """sends through a SHARED task (taskiq.brokers.shared_broker): case["shared"] = {glob, mws, task_labels, via, init};
    every send S has S["sh"] = {ops, via, name?, rebind?}.  The sends are steps of one sequential scenario (the default
    broker is process-wide state).  ops, applied before the send: ["default", b] -> shared.default_broker(brokers[b]);
    ["unset"] -> default_broker(None); ["prepare", name, labels_add] -> a kicker obtained from the task NOW (bound to
    whatever the default broker is now; to the shared broker itself when there is none) and kept under `name`.  via:
    kicker -> task.kicker() now; kiq -> task.kiq() (task id from the broker's id_generator); use -> the kept kicker `name`
    (rebind = b: re-pointed with with_broker first).  The shared broker is index len(brokers): its formatter is a recording
    one and its kick() is wrapped (instance attribute) so that an attempt to send through it is logged before the real
    method decides."""
    sh, tbl, sends = case["shared"], case["labels"], case["sends"]
    SH = len(brokers)
    shared = taskiq.async_shared_broker if sh.get("glob", True) else shmod.AsyncSharedBroker()
    CUR["shared_state"] = (shared, {k: (copy.copy(v) if isinstance(v, (list, dict, set)) else v) for k, v in vars(shared).items()},
                           dict(AsyncBroker.global_task_registry))
    shared._rec_b = SH
    shared.formatter = RecFormatter(shared)
    real_kick = shared.kick

    async def kick(message):
        log(who(), "kick", message.task_id, canon(message.labels), SH)
        await real_kick(message)
    shared.kick = kick
    if sh.get("mws"):
        shared.add_middlewares(*make_mws(sh["mws"], tbl, base=100 * SH))

    def idgen():
        return "id%d" % sends[who()]["id"]
    for br in brokers + [shared]:
        br.id_generator = idgen

    async def shared_fn():
        return None
    labels = typed_labels(tbl, sh["task_labels"])
    if sh.get("via") == "register_task":
        task = shared.register_task(shared_fn, task_name="shared_task", **labels)
    else:
        task = shared.task(task_name="shared_task", **labels)(shared_fn)
    kept = {}

    def apply(ops):
        for op in ops or []:
            if op[0] == "default":
                shared.default_broker(brokers[op[1]])
            elif op[0] == "unset":
                shared.default_broker(None)
            elif op[0] == "prepare":
                k = task.kicker()
                if op[2]:
                    k = k.with_labels(**op[2])
                kept[op[1]] = k
            else:
                raise ValueError(op)
    apply(sh.get("init"))
    for i, S in enumerate(sends):
        asyncio.current_task().set_name("m%d" % i)
        await susp(S.get("arrive"))
        h = S["sh"]
        apply(h.get("ops"))
        if h["via"] == "kiq":
            await step(i, task)
            continue
        if h["via"] == "use":
            k = kept[h["name"]]
            if h.get("rebind") is not None:
                k = k.with_broker(brokers[h["rebind"]])
        else:
            k = task.kicker()
        await step(i, k.with_task_id("id%d" % S["id"]))


def run_send(case):
    """loose sends: one fresh kicker each, all concurrent (broker S["broker"], default 0).
    chains (S["chain"] = c): the sends of one chain are STEPS on one AsyncKicker object, run one after the other by one
    asyncio task (renamed m<i> for step i); before a later step S["op"] is applied to the kicker / its broker:
    broker = b -> with_broker(brokers[b]); add_mws = [specs] -> more middlewares registered on the kicker's current
    broker; labels_add = {..} -> with_labels(**..).  Every send must go through the middlewares its kicker's broker has
    at that moment."""
    tbl = case["labels"]
    sends = case["sends"]
    stacks = [case["mws"]] + list(case.get("brokers") or [])
    life = case.get("life") or {}

    async def main(loop):
        brokers = []
        for b, specs in enumerate(stacks):
            br = make_broker(life)
            br._rec_b = b
            br.formatter = RecFormatter(br)
            br.result_backend = RecBackend()
            mws = make_mws(specs, tbl, base=100 * b)
            give_life_hooks(mws, (life.get("mw_hooks") or [])[b] if b < len(life.get("mw_hooks") or []) else None)
            br.add_middlewares(*mws)
            brokers.append(br)
        CUR.update(broker=brokers[0], mws=brokers[0].middlewares, plan={i: S for i, S in enumerate(sends)}, exec={},
                   sending=True)
        for b, ops in enumerate(life.get("pre") or []):
            if b < len(brokers):
                await life_ops(brokers[b], ops)

        async def step(i, k):
            try:
                if sends[i].get("handling"):
                    # the send is made from inside an `except` block of the caller (a fallback / compensation send): another
                    # exception is being handled while kiq runs
                    try:
                        raise kick_exc(sends[i]["handling"])
                    except Exception:
                        t = await k.kiq()
                else:
                    t = await k.kiq()
                log(i, "sent", t.task_id)
            except SendTaskError as e:
                log(i, "crash", "SendTaskError", type(e.__cause__).__name__)
            except BaseException as e:   # noqa
                log(i, "crash", type(e).__name__)

        async def one(i, S):
            await susp(S.get("arrive"))
            k = AsyncKicker("t%d" % i, brokers[S.get("broker", 0)], typed_labels(tbl, S["labels"]))
            await step(i, k.with_task_id("id%d" % S["id"]))

        async def chain(idxs):
            k = None
            for i in idxs:
                S = sends[i]
                asyncio.current_task().set_name("m%d" % i)
                await susp(S.get("arrive"))
                if k is None:
                    k = AsyncKicker("t%d" % i, brokers[S.get("broker", 0)], typed_labels(tbl, S["labels"]))
                else:
                    op = S.get("op") or {}
                    if op.get("broker") is not None:
                        k = k.with_broker(brokers[op["broker"]])
                    if op.get("add_mws"):
                        br = k.broker
                        new = make_mws(op["add_mws"], tbl, base=100 * br._rec_b + len(br.middlewares))
                        if op.get("via_with"):
                            br.with_middlewares(*new)
                        else:
                            br.add_middlewares(*new)
                    if op.get("labels_add") is not None:
                        k = k.with_labels(**op["labels_add"])
                    # the application's lifespan ends / begins between two sends on this kicker's broker
                    await life_ops(k.broker, op.get("life"))
                await step(i, k.with_task_id("id%d" % S["id"]))

        if case.get("shared"):
            lt = [asyncio.create_task(life_task(brokers, [x for x in life["at"] if x[1] < len(brokers)]), name="life")] \
                if life.get("at") else []
            try:
                await shared_scenario(case, brokers, step)
            finally:
                shared_reset()
            await asyncio.gather(*lt)
            await drain_inflight()
            return list(LOG), loop.time_us(), list(CUR.get("life_log", []))
        chains = {}
        ts = []
        for i, S in enumerate(sends):
            if S.get("chain") is None:
                ts.append(asyncio.create_task(one(i, S), name="m%d" % i))
            else:
                chains.setdefault(S["chain"], []).append(i)
        for c in sorted(chains):
            ts.append(asyncio.create_task(chain(chains[c]), name="m%d" % chains[c][0]))
        if life.get("at"):
            ts.append(asyncio.create_task(life_task(brokers, [x for x in life["at"] if x[1] < len(brokers)]), name="life"))
        await asyncio.gather(*ts)
        await drain_inflight()
        return list(LOG), loop.time_us(), list(CUR.get("life_log", []))

    lg, end, lf = run_on_loop(main)
    return {"log": lg, "end_us": end, "life": lf}


def run_case(case, opts):
    LOG.clear()
    CUR.clear()
    try:
        if case["type"] == "recv":
            return run_recv(case)
        if case["type"] == "send":
            return run_send(case)
        raise ValueError(case["type"])
    finally:
        # coroutines abandoned by a crashed callback run their finalisers now, not inside the next case
        gc.collect()
        LOG.clear()
