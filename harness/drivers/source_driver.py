"""Implementation driver for C16: the real TaskiqScheduler.on_ready with recording sources / broker, and the real
LabelScheduleSource over real brokers and task registries.  Nothing of /repo is re-implemented here."""
import asyncio
import collections
import dataclasses
import datetime as dt
import decimal
import enum
import fractions
import inspect
import ipaddress
import json
import os
import pathlib
import traceback
import types
import typing
import uuid

import pydantic
import pydantic.dataclasses

import vloop

from taskiq.abc.broker import AsyncBroker
from taskiq.abc.schedule_source import ScheduleSource
from taskiq.brokers.shared_broker import AsyncSharedBroker, async_shared_broker
from taskiq.exceptions import ScheduledTaskCancelledError, SendTaskError
from taskiq.formatters.json_formatter import JSONFormatter
from taskiq.formatters.proxy_formatter import ProxyFormatter
from taskiq.labels import prepare_label
from taskiq.schedule_sources.label_based import LabelScheduleSource
from taskiq.scheduler.scheduled_task import ScheduledTask
from taskiq.scheduler.scheduler import TaskiqScheduler
from taskiq.serializers.json_serializer import JSONSerializer
from taskiq.serializers.pickle import PickleSerializer

EP = dt.datetime(1970, 1, 1)


# ------------------------------------------------------------------ payload values that are not JSON natives
# What a schedule's args / kwargs hold in a real deployment besides None / bool / int / float / str / list / dict: values
# taskiq puts on the wire in their JSON form (dates, UUIDs, enum members, decimals, sets, bytes, paths, nested pydantic
# models and dataclasses, tuples).  The classes live here because a case is JSON: {"__enum__": ["Mode", "FULL"]} etc.
class Mode(enum.Enum):
    FULL = "full"
    DELTA = "delta"


class Level(enum.Enum):
    LOW = 1
    HIGH = 7


class Prio(enum.IntEnum):
    P0 = 0
    P2 = 2


class Kind(str, enum.Enum):
    A = "a"
    B = "b"


class Sw(enum.IntEnum):
    """a switch: Sw.ON == 1 == True == 1.0 (one hash, four types), Sw.OFF == 0"""
    OFF = 0
    ON = 1


class Perm(enum.Flag):
    R = 1
    W = 2
    X = 4


class Window(pydantic.BaseModel):
    since: dt.date
    until: typing.Optional[dt.datetime] = None
    tags: typing.Set[str] = set()


class Job(pydantic.BaseModel):
    id: uuid.UUID
    mode: Mode
    window: typing.Optional[Window] = None
    extra: typing.Any = None


class Money(pydantic.BaseModel):
    """a model with a serializer of its own (model_dump honours it)"""
    amount: decimal.Decimal
    cur: str = "EUR"

    @pydantic.field_serializer("amount")
    def _amount(self, v):
        return "%s %s" % (v, self.cur)


@dataclasses.dataclass
class Point:
    x: int
    when: typing.Any = None


@dataclasses.dataclass
class Span:
    first: Point
    note: typing.Any = None


@pydantic.dataclasses.dataclass
class Day:
    n: int
    day: dt.date


class Pair(typing.NamedTuple):
    a: typing.Any
    b: typing.Any


class StrSub(str):
    """instances of plain subclasses of the primitive types (what numpy scalars, `yarl.URL`-like str subclasses, ORM column
    values, NewType-by-subclass ids ... are): {"__sub__": ["str", "x"]} in a case"""


class IntSub(int):
    pass


class FloatSub(float):
    pass


class BytesSub(bytes):
    pass


SUBS = {"str": StrSub, "int": IntSub, "float": FloatSub, "bytes": BytesSub}
SUB_NAMES = {c: n for n, c in SUBS.items()}
ENUMS = {c.__name__: c for c in (Mode, Level, Prio, Kind, Perm, Sw)}
MODELS = {c.__name__: c for c in (Window, Job, Money)}
DCS = {c.__name__: c for c in (Point, Span, Day)}


def fields_of(v):
    """field name -> value of a pydantic model / a dataclass instance (declaration order), else None"""
    if isinstance(v, pydantic.BaseModel):
        return {k: getattr(v, k) for k in type(v).model_fields}
    if dataclasses.is_dataclass(v) and not isinstance(v, type):
        return {f.name: getattr(v, f.name) for f in dataclasses.fields(v)}
    return None


# ------------------------------------------------------------------ value coding (case JSON <-> Python)
def skey(x):
    return json.dumps(x, sort_keys=True)


def dec(v):
    """case JSON -> Python value: {"__bytes__": hex} -> bytes, {"__td__": us} -> timedelta, ... (canon is the inverse)"""
    if isinstance(v, dict):
        if len(v) == 1:
            (k, x), = v.items()
            if k == "__bytes__":
                return bytes.fromhex(x)
            if k == "__bytearray__":
                return bytearray.fromhex(x)
            if k == "__td__":
                return dt.timedelta(microseconds=x)
            if k == "__float__":
                return float.fromhex(x)
            if k == "__date__":
                return dt.date(*x)
            if k == "__dt__":
                return dec_time(x)
            if k == "__time__":
                t = (EP + dt.timedelta(microseconds=x[0])).time()
                return t if x[1] is None else t.replace(tzinfo=dt.timezone(dt.timedelta(minutes=x[1])))
            if k == "__uuid__":
                return uuid.UUID(hex=x)
            if k == "__enum__":
                return ENUMS[x[0]][x[1]] if isinstance(x[1], str) else ENUMS[x[0]](x[1])
            if k == "__sub__":
                return SUBS[x[0]](dec(x[1]))
            if k == "__dec__":
                return decimal.Decimal(x)
            if k == "__frac__":
                return fractions.Fraction(x[0], x[1])
            if k == "__set__":
                return {dec(e) for e in x}
            if k == "__fset__":
                return frozenset(dec(e) for e in x)
            if k == "__tuple__":
                return tuple(dec(e) for e in x)
            if k == "__nt__":
                return Pair(*[dec(e) for e in x])
            if k == "__path__":
                return pathlib.Path(x)
            if k == "__ip__":
                return ipaddress.ip_address(x)
            if k == "__model__":
                return MODELS[x[0]](**{f: dec(y) for f, y in x[1].items()})
            if k == "__dc__":
                return DCS[x[0]](**{f: dec(y) for f, y in x[1].items()})
            if k == "__map__":
                return {dec(a): dec(b) for a, b in x}
            if k == "__odict__":
                return collections.OrderedDict((a, dec(b)) for a, b in x)
        return {k: dec(x) for k, x in v.items()}
    if isinstance(v, list):
        return [dec(x) for x in v]
    return v


def dec_time(t):
    if t is None:
        return None
    if "naive" in t:
        return EP + dt.timedelta(microseconds=t["naive"])
    tz = dt.timezone(dt.timedelta(minutes=t["offmin"]))
    return (EP.replace(tzinfo=dt.timezone.utc) + dt.timedelta(microseconds=t["aware"])).astimezone(tz)


def enc_time(t):
    if t is None:
        return None
    if t.tzinfo is None:
        return {"naive": (t - EP) // dt.timedelta(microseconds=1)}
    us = (t - EP.replace(tzinfo=dt.timezone.utc)) // dt.timedelta(microseconds=1)
    return {"aware": us, "offmin": int(t.utcoffset().total_seconds() // 60)}


def canon(v, live=None):
    """Python value -> canonical JSON-able value; `live` maps id(list) -> task name for live schedule lists"""
    if live and isinstance(v, list) and id(v) in live:
        return {"__sched__": live[id(v)]}
    if isinstance(v, enum.Enum):                       # before int / str: IntEnum and str-mixin members are both
        return {"__enum__": [type(v).__name__, v.value if isinstance(v, enum.Flag) else v.name]}
    if type(v) in SUB_NAMES:
        base = type(v).__mro__[1]
        return {"__sub__": [SUB_NAMES[type(v)], canon(base(v), live)]}
    if isinstance(v, bytes):
        return {"__bytes__": v.hex()}
    if isinstance(v, bytearray):
        return {"__bytearray__": v.hex()}
    if isinstance(v, dt.timedelta):
        return {"__td__": v // dt.timedelta(microseconds=1)}
    if isinstance(v, dt.datetime):
        return {"__dt__": enc_time(v)}
    if isinstance(v, dt.date):
        return {"__date__": [v.year, v.month, v.day]}
    if isinstance(v, dt.time):
        off = v.utcoffset()
        return {"__time__": [(dt.datetime.combine(EP.date(), v.replace(tzinfo=None)) - EP) // dt.timedelta(microseconds=1),
                             None if off is None else int(off.total_seconds() // 60)]}
    if isinstance(v, uuid.UUID):
        return {"__uuid__": v.hex}
    if isinstance(v, decimal.Decimal):
        return {"__dec__": str(v)}
    if isinstance(v, fractions.Fraction):
        return {"__frac__": [v.numerator, v.denominator]}
    if isinstance(v, (set, frozenset)):
        return {"__set__" if isinstance(v, set) else "__fset__": sorted((canon(x, live) for x in v), key=skey)}
    if isinstance(v, pathlib.PurePath):
        return {"__path__": str(v)}
    if isinstance(v, (ipaddress.IPv4Address, ipaddress.IPv6Address)):
        return {"__ip__": str(v)}
    if isinstance(v, pydantic.BaseModel) and type(v).__name__ in MODELS:
        return {"__model__": [type(v).__name__, {k: canon(x, live) for k, x in fields_of(v).items()}]}
    if fields_of(v) is not None and type(v).__name__ in DCS:
        return {"__dc__": [type(v).__name__, {k: canon(x, live) for k, x in fields_of(v).items()}]}
    if isinstance(v, collections.OrderedDict):
        return {"__odict__": [[str(k), canon(x, live)] for k, x in v.items()]}
    if isinstance(v, dict):
        if any(not isinstance(k, str) for k in v):
            return {"__map__": [[canon(k, live), canon(x, live)] for k, x in v.items()]}
        return {str(k): canon(x, live) for k, x in v.items()}
    if isinstance(v, Pair):
        return {"__nt__": [canon(x, live) for x in v]}
    if isinstance(v, tuple):
        return {"__tuple__": [canon(x, live) for x in v]}
    if isinstance(v, list):
        return [canon(x, live) for x in v]
    if isinstance(v, float):
        return {"__float__": v.hex()}
    if v is None or isinstance(v, (str, int, bool)):
        return v
    return {"__repr__": repr(v)}


ANY = pydantic.TypeAdapter(typing.Any)


def json_form(v):
    """the JSON form of a payload value, asked of pydantic directly (nothing of taskiq is involved): what taskiq's
    documented behaviour - the message is model_dump(mode="json") of the TaskiqMessage - puts on the wire for it"""
    return ANY.dump_python(v, mode="json")


def norm(py, wire):
    """`wire` = JSON form of the Python value `py`: sort the lists that stand for a set / frozenset of `py` (the order in
    which a set is written out is nobody's promise); everything else is left as it is"""
    f = fields_of(py)
    if f is not None:
        py = f
    if isinstance(py, (set, frozenset)) and isinstance(wire, list):
        return sorted(wire, key=skey)
    if isinstance(py, dict) and isinstance(wire, dict):
        if all(isinstance(k, str) for k in py):
            return {k: (norm(py[k], x) if k in py else x) for k, x in wire.items()}
        return wire
    if isinstance(py, (list, tuple)) and isinstance(wire, list) and len(py) == len(wire):
        return [norm(a, b) for a, b in zip(py, wire)]
    return wire


def wire_form(py):
    """expected decoded message content for the schedule's args (list) / kwargs (dict), canonical"""
    return norm(py, canon(json_form(py)))


_LABELS_CODE = []


def pristine_prepare(v):
    """prepare_label(v) as a process that has never sent anything computes it: the real taskiq/labels.py of the tree under
    test, executed into a module namespace of its own made for this one value - so whatever that file (or anything else in
    the process) remembers of earlier sends / earlier label values cannot reach the expectation, and computing the
    expectation leaves no trace in the live taskiq.labels either (the driver itself never calls the live prepare_label).
    Falls back to the live function only if the file cannot be executed on its own."""
    if not _LABELS_CODE:
        try:
            import taskiq.labels as live
            with open(live.__file__) as f:
                _LABELS_CODE.append(compile(f.read(), live.__file__, "exec"))
        except Exception:  # noqa: BLE001
            _LABELS_CODE.append(None)
    if _LABELS_CODE[0] is not None:
        ns = {"__name__": "taskiq.labels", "__package__": "taskiq", "__file__": _LABELS_CODE[0].co_filename}
        try:
            exec(_LABELS_CODE[0], ns)  # noqa: S102 - the file of the tree under test, as `import` would run it
            fn = ns["prepare_label"]
        except Exception:  # noqa: BLE001
            fn = None
        if fn is not None:
            return fn(v)
    return prepare_label(v)


def prepared(labels):
    """what the statement expects on the wire for these labels: prepare_label (the subject of C09) of each, history-free"""
    return {k: list(pristine_prepare(v)) for k, v in labels.items()}


def declared(labels, live=None):
    """the schedule's own label values (canonical, type-preserving): what the oracle compares the received ones with"""
    return {k: canon(v, live) for k, v in labels.items()}


class SubProxyFormatter(ProxyFormatter):
    """a deployment's own formatter that extends the default one (nothing overridden)"""


def configure(b, conf):
    """formatter / serializer of the broker as a deployment sets them.  fmt: default = what AsyncBroker.__init__ put
    there (ProxyFormatter), proxy = with_formatter(ProxyFormatter(b)), proxy_sub = a subclass of it, json = JSONFormatter;
    ser: default (JSONSerializer of __init__), json = with_serializer(JSONSerializer()), json_default =
    JSONSerializer(default=str), pickle = PickleSerializer."""
    conf = conf or {}
    fmt, ser = conf.get("fmt", "default"), conf.get("ser", "default")
    if ser == "json":
        b.with_serializer(JSONSerializer())
    elif ser == "json_default":
        b.with_serializer(JSONSerializer(default=str))
    elif ser == "pickle":
        b.with_serializer(PickleSerializer())
    elif ser != "default":
        raise AssertionError("scenario: unknown serializer %r" % (ser,))
    if fmt == "proxy":
        b.with_formatter(ProxyFormatter(b))
    elif fmt == "proxy_sub":
        b.with_formatter(SubProxyFormatter(b))
    elif fmt == "json":
        b.with_formatter(JSONFormatter())
    elif fmt != "default":
        raise AssertionError("scenario: unknown formatter %r" % (fmt,))
    b.lenient = ser == "pickle"


def norm_kicks(log, args, kwargs):
    """kick entries of the log: set-borne lists sorted the way the expectation's are (see norm)"""
    for e in log:
        if e[0] == "kick":
            e[1]["args"] = norm(list(args), e[1]["args"])
            e[1]["kwargs"] = norm(dict(kwargs), e[1]["kwargs"])


class RecBroker(AsyncBroker):
    def __init__(self, log, kick_ok=True, kick_d=0):
        super().__init__()
        self.log = log
        self.kick_ok = kick_ok
        self.kick_d = kick_d
        self.lenient = False

    async def kick(self, message):
        m = self.formatter.loads(message.message)          # decoded with the very formatter that encoded it
        args, kwargs = m.args, m.kwargs
        if self.lenient:
            # a serializer that can carry Python objects (pickle): the values themselves arriving instead of their JSON
            # form is still "the schedule's arguments" - judged on the JSON form of whatever arrived
            args, kwargs = json_form(args), json_form(kwargs)
        wire = {k: [m.labels[k], m.labels_types.get(k) if m.labels_types else None] for k in m.labels}
        try:
            m.parse_labels()                 # what the worker does with a received message (taskiq/receiver): the labels
            seen = canon(m.labels)           # as the task's middlewares / Context see them - value AND type
        except Exception as e:  # noqa: BLE001 - an observation
            seen = {"__error__": type(e).__name__}
        self.log.append(["kick", dict(task_name=m.task_name, args=canon(args), kwargs=canon(kwargs), labels=wire, seen=seen,
                                      bm_task_name=message.task_name, bm_labels=canon(message.labels))])
        await asyncio.sleep(self.kick_d / 1e6)
        if not self.kick_ok:
            raise RuntimeError("injected kick failure")

    async def listen(self):
        yield b""


class Boom(Exception):
    pass


class Cancelled2(ScheduledTaskCancelledError):
    """a source's own subclass of the cancellation error"""


# ------------------------------------------------------------------ what a callback hands back
# sync = plain def doing the work, async = `async def`; every other style is a plain def that RETURNS an awaitable
# which is NOT a coroutine object (on_ready has to wait for it all the same): task = asyncio.ensure_future(coroutine),
# future = a bare asyncio.Future resolved when work done elsewhere finishes (the shape of loop.run_in_executor /
# wrap_future / a client library's future), done_future = a Future that already holds the outcome, awaitobj = object
# with __await__ (the work runs only when awaited), gencoro = generator-based coroutine (types.coroutine), gather /
# shield = asyncio.gather(...) / asyncio.shield(...) over the work, executor = loop.run_in_executor(None, blocking work)
CO_STYLES = ("sync", "async")
AW_STYLES = ("task", "future", "done_future", "awaitobj", "gencoro", "gather", "shield", "executor")


def style_of(c, kind):
    return c.get(kind + "_style") or ("async" if c.get(kind + "_async") else "sync")


def deliver(style, work, started):
    """`work()` gives a fresh coroutine doing the callback's work; hand it back in the given (non-sync) style.
    Everything that runs without being awaited is put on `started` so the driver can let it finish afterwards."""
    loop = asyncio.get_running_loop()
    if style == "async":
        return work()
    if style == "task":
        t = asyncio.ensure_future(work())
        started.append(t)
        return t
    if style == "future":
        fut = loop.create_future()
        t = asyncio.ensure_future(work())

        def fin(t):
            if fut.done():
                return
            if t.cancelled():
                fut.cancel()
            elif t.exception() is not None:
                fut.set_exception(t.exception())
            else:
                fut.set_result(t.result())

        t.add_done_callback(fin)
        started.append(fut)
        return fut
    if style == "awaitobj":
        class Later:
            def __await__(self):
                return work().__await__()

        return Later()
    if style == "gencoro":
        @types.coroutine
        def gen():
            return (yield from work().__await__())

        return gen()
    if style == "gather":
        async def sibling():
            await asyncio.sleep(0)

        g = asyncio.gather(sibling(), work())
        started.append(g)

        return g
    if style == "shield":
        f = asyncio.shield(work())
        started.append(f)
        return f
    raise AssertionError("scenario: unknown callback style %r" % (style,))


class CallableObj:
    def __init__(self, fn):
        self.fn = fn

    def __call__(self, task):
        return self.fn(task)


def make_cb(log, started, kind, style, d, when, outcome, ret, cancel_cls="base"):
    """one callback: logs [kind.begin, sid] when called and [kind, sid] at the instant its work COMPLETES (d virtual
    microseconds later for the deferred styles), then raises per `outcome` (ok / cancel / raise) or gives `ret`"""
    def finish(task):
        log.append([kind, task.schedule_id])
        if outcome == "cancel":
            raise (Cancelled2 if cancel_cls == "sub" else ScheduledTaskCancelledError)
        if outcome == "raise":
            raise Boom(kind)
        return ret

    if style == "async":
        async def cb(task):
            log.append([kind + ".begin", task.schedule_id])
            await asyncio.sleep(d / 1e6)
            return finish(task)

        return cb

    def cb(task):
        log.append([kind + ".begin", task.schedule_id])
        if style == "sync" or (when == "call" and outcome != "ok"):
            return finish(task)                    # the plain def itself does the work / refuses before deferring
        if style == "done_future":
            fut = asyncio.get_running_loop().create_future()
            try:
                fut.set_result(finish(task))
            except Exception as e:  # noqa: BLE001 - handed over through the future
                fut.set_exception(e)
            started.append(fut)
            return fut
        if style == "executor":
            fut = asyncio.get_running_loop().run_in_executor(None, finish, task)
            started.append(fut)
            return fut

        async def work():
            if d:
                await asyncio.sleep(d / 1e6)
            return finish(task)

        return deliver(style, work, started)

    return cb


def make_source(log, started, c):
    pre = make_cb(log, started, "pre", style_of(c, "pre"), c.get("pre_d", 0), c.get("pre_when", "await"), c["pre"],
                  c.get("pre_ret"), c.get("cancel_cls", "base"))
    post = make_cb(log, started, "post", style_of(c, "post"), c.get("post_d", 0), c.get("post_when", "await"),
                   "ok" if c["post_ok"] else "raise", c.get("post_ret"))
    bind = c.get("bind", "class")

    class Src(ScheduleSource):
        async def get_schedules(self):
            return []

        if bind == "class":
            if style_of(c, "pre") == "async":
                async def pre_send(self, task):
                    return await pre(task)
            else:
                def pre_send(self, task):
                    return pre(task)

            if style_of(c, "post") == "async":
                async def post_send(self, task):
                    return await post(task)
            else:
                def post_send(self, task):
                    return post(task)

    def late_bind(src):
        """callbacks bound after the scheduler was built: instance attributes (functions / callable objects)"""
        if bind == "instance":
            src.pre_send, src.post_send = pre, post
        elif bind == "callable":
            src.pre_send, src.post_send = CallableObj(pre), CallableObj(post)

    return Src(), late_bind


async def drain(started):
    """after on_ready has returned: let whatever was started and not waited for run to its end (so a send / post_send
    that happens too late is observed, after the `ret` mark)"""
    if started:
        await asyncio.gather(*started, return_exceptions=True)
    for _ in range(3):
        await asyncio.sleep(0)


async def guarded(coro):
    try:
        await coro
        return "ok"
    except ScheduledTaskCancelledError:
        return "raise:cancelled-escaped"
    except SendTaskError:
        return "raise:SendTaskError"
    except Boom as e:
        return "raise:Boom:" + str(e)
    except Exception as e:  # noqa: BLE001 - an observation
        return "raise:" + type(e).__name__


def build_sched(p, sid):
    kw = dict(task_name=p["task"], labels=dec(p["labels"]), args=dec(p["args"]), kwargs=dec(p["kwargs"]), schedule_id=sid)
    if p.get("cron") is not None:
        kw["cron"] = p["cron"]
    if p.get("time") is not None:
        kw["time"] = dec_time(p["time"])
    return ScheduledTask(**kw)


def fire_obs(log, res, st, expect, decl):
    norm_kicks(log, st.args, st.kwargs)
    # sched_args / sched_kwargs: the schedule's arguments in the form a decoded message has them = their JSON form, asked
    # of pydantic directly (the identity on None / bool / int / float / str / list / dict)
    return dict(effects=log, result=res, expect_labels=expect, decl_labels=decl, sched_args=wire_form(list(st.args)),
                sched_kwargs=wire_form(dict(st.kwargs)))


def run_fire(c):
    log, started = [], []
    reset_globals()
    b = RecBroker(log, c["kick_ok"], c.get("kick_d", 0))
    conf = c.get("broker") or {}
    if not conf.get("late"):
        configure(b, conf)
    src, late_bind = make_source(log, started, c)
    st = build_sched(c["payload"], c["sid"])
    expect, decl = prepared(st.labels), declared(st.labels)

    async def main(loop):
        loop.set_exception_handler(lambda *_: None)      # a future nobody waited for is an observation, not noise
        sch = TaskiqScheduler(b, [src] if c.get("registered", True) else [])
        late_bind(src)
        if conf.get("late"):
            configure(b, conf)                           # formatter / serializer set after the scheduler was built
        res = await guarded(sch.on_ready(src, st))
        log.append(["ret"])                              # on_ready has returned; whatever follows happened too late
        await drain(started)
        return res

    res = vloop.run(main)
    return fire_obs(log, res, st, expect, decl)


# ------------------------------------------------------------------ histories of sends in one process
def run_hist(c):
    reset_globals()
    try:
        return run_hist_(c)
    finally:
        reset_globals()


def run_hist_(c):
    """Several sends one after another in ONE scheduler process (one event loop, one or two brokers), each step either
      {"do": "fire", "on": i, <the fields of an on_ready scenario>}   sch.on_ready(source, schedule) on broker i; `sched`:
            "reuse" = the scheduler object broker i already has, else a new TaskiqScheduler; "same_as": j = the very
            ScheduledTask object of step j is fired again (a cron schedule, minute after minute)
      {"do": "kiq", "on": i, "task": name, "decl": labels, "with": labels | None, "args": [...]}   a send that is not
            scheduled: a task declared on broker i with labels (retry_on_error=True ...), task.kicker().with_labels(..).kiq()
    Every firing is observed exactly as a single on_ready scenario is; what an earlier step left behind anywhere in the
    process is the point."""
    confs = c.get("brokers") or [{}]
    brokers = []
    for conf in confs:
        b = RecBroker([])
        if not conf.get("late"):
            configure(b, conf)
        brokers.append(b)

    async def main(loop):
        loop.set_exception_handler(lambda *_: None)
        out, scheds, sts, lated = [], {}, {}, set()
        for k, s in enumerate(c["steps"]):
            i = s.get("on", 0) % len(brokers)
            b, log, started = brokers[i], [], []
            b.log = log
            if s["do"] == "kiq":
                b.kick_ok, b.kick_d = True, 0
                task = b.find_task(s["task"])
                if task is None:
                    def fn(*a, **kw):
                        return None
                    task = b.register_task(fn, task_name=s["task"], **dec(s.get("decl") or {}))
                kicker = task.kicker()
                if s.get("with"):
                    kicker = kicker.with_labels(**dec(s["with"]))
                res = await guarded(kicker.kiq(*dec(s.get("args", []))))
                log.append(["ret"])
                out.append(dict(do="kiq", effects=log, result=res))
                continue
            b.kick_ok, b.kick_d = s["kick_ok"], s.get("kick_d", 0)
            src, late_bind = make_source(log, started, s)
            st = sts[s["same_as"]] if s.get("same_as") is not None else build_sched(s["payload"], s["sid"])
            sts[k] = st
            expect, decl = prepared(st.labels), declared(st.labels)
            sch = scheds.get(i) if s.get("sched") == "reuse" else None
            if sch is None:
                sch = scheds[i] = TaskiqScheduler(b, [src] if s.get("registered", True) else [])
            late_bind(src)
            if confs[i].get("late") and i not in lated:
                lated.add(i)
                configure(b, confs[i])
            res = await guarded(sch.on_ready(src, st))
            log.append(["ret"])
            await drain(started)
            out.append(dict(fire_obs(log, res, st, expect, decl), do="fire"))
        return out

    return dict(steps=vloop.run(main))


# ------------------------------------------------------------------ label source histories
def build_entry(e):
    d = {"_uid": e["uid"]}
    for k in ("cron", "args", "kwargs", "labels", "cron_offset"):
        if k in e:
            d[k] = dec(e[k])
    if "time" in e:
        d["time"] = dec_time(e["time"])
    return d


def reset_globals():
    """process-wide state a scenario may have touched: the global task registry, the shared broker's default broker"""
    AsyncBroker.global_task_registry.clear()
    async_shared_broker._default_broker = None


def run_label(c):
    reset_globals()
    try:
        return run_label_(c)
    finally:
        reset_globals()


def run_label_(c):
    """One history on a LabelScheduleSource(b).  Tasks b can see (get_all_tasks = global registry + b's local one):
      locals            declared on b (register_task, or the decorator form when via == "task")
      globals, plain    declared on b (own) or on another broker object `other` (foreign) and moved to the global registry
      globals, decl == "shared" / "shared2": declared through async_shared_broker.task(...) / a second AsyncSharedBroker
                        (foreign; a shared broker registers straight into the global registry)
    `hidden` tasks are declared on a third broker and stay in its local registry (b cannot see them).  Tasks with the same `fn`
    share one Python function (a function decorated on one broker and registered on another as well).
    default_before / default_after / ["default", target, who] operations call <shared broker>.default_broker(b | other |
    None) before the declarations / after them / between listings and firings."""
    log = []
    b = RecBroker(log)
    conf = c.get("broker") or {}
    if not conf.get("late"):
        configure(b, conf)
    other = RecBroker([])
    third = RecBroker([])            # the broker of the hidden tasks (nothing of it ever reaches a registry b can see)
    sh2 = AsyncSharedBroker()
    live = {}
    fns = {}
    keep = []                        # every declared task stays alive: `live` is keyed by id() of the schedule lists

    def fn_of(t):
        def fn():
            return None
        k = t.get("fn")
        return fn if k is None else fns.setdefault(k, fn)

    def set_default(target, who):
        (async_shared_broker if target == "shared" else sh2).default_broker({"b": b, "other": other, "none": None}[who])

    def declare(t, broker):
        labels = dec(t["labels"])
        if t["schedule"] is not None:
            labels["schedule"] = [build_entry(e) for e in t["schedule"]]
            live[id(labels["schedule"])] = t["name"]
        if t.get("via") == "task":
            task = broker.task(t["name"], **labels)(fn_of(t))
        else:
            task = broker.register_task(fn_of(t), task_name=t["name"], **labels)
        keep.append(task)
        return task

    for d in c.get("default_before", []):
        set_default(*d)
    for t in c.get("hidden", []):
        declare(t, third)
    for t in c["globals"]:
        decl = t.get("decl", "plain")
        if decl == "plain":
            br = b if t["own"] else other
            task = declare(t, br)
            del br.local_task_registry[t["name"]]
            AsyncBroker.global_task_registry[t["name"]] = task
        else:
            if t["own"]:
                raise AssertionError("scenario: a shared-broker task is not the scheduler broker's own")
            task = declare(t, async_shared_broker if decl == "shared" else sh2)
            if AsyncBroker.global_task_registry.get(t["name"]) is not task:
                raise AssertionError("scenario: shared task not in the global registry")
    for t in c["locals"]:
        declare(t, b)
    for d in c.get("default_after", []):
        set_default(*d)
    src = LabelScheduleSource(b)
    sch = TaskiqScheduler(b, [src])
    if conf.get("late"):
        configure(b, conf)
    real_pre, real_post = src.pre_send, src.post_send   # the source's own methods, observed through instance attributes
    started = []
    cb_style = c.get("cb_style", "sync")     # how a wrapping source hands the real callback's work back (see deliver)

    def wrap(kind, real):
        def done(task):
            log.append([kind, task.schedule_id])

        async def work(task):
            try:
                r = real(task)
                if inspect.isawaitable(r):
                    r = await r
                return r
            finally:
                done(task)

        def cb(task):
            log.append([kind + ".begin", task.schedule_id])
            if cb_style == "sync":
                try:
                    r = real(task)
                except BaseException:
                    done(task)
                    raise
                if inspect.isawaitable(r):
                    async def rest():
                        try:
                            return await r
                        finally:
                            done(task)
                    return rest()
                done(task)
                return r
            return deliver(cb_style, lambda: work(task), started)

        return cb

    src.pre_send, src.post_send = wrap("pre", real_pre), wrap("post", real_post)

    def view():
        out = []
        for name, task in b.get_all_tasks().items():
            ents = task.labels.get("schedule", [])
            out.append([name, [[e["_uid"], canon(e["labels"], live) if "labels" in e else None] for e in ents]])
        return out

    def sview(s):
        return dict(task=s.task_name, cron=s.cron, time=enc_time(s.time), args=canon(s.args), kwargs=canon(s.kwargs),
                    labels=canon(s.labels, live), cron_offset=canon(s.cron_offset), sid=s.schedule_id)

    async def main():
        listings, obs = [], []
        obs.append(dict(op="init", view=view()))
        for op in c["ops"]:
            if op[0] == "list":
                try:
                    got = await src.get_schedules()
                    listings.append(got)
                    obs.append(dict(op="list", result=[sview(s) for s in got], view=view()))
                except Exception as e:  # noqa: BLE001 - an observation
                    listings.append(None)
                    obs.append(dict(op="list", result=None, error=type(e).__name__, view=view()))
            elif op[0] == "default":
                set_default(op[1], op[2])
                obs.append(dict(op="default"))
            else:
                if op[0] == "fire_decl":
                    # a schedule for a declared entry of ANY task b can see (own or foreign), built by hand - what another
                    # source / a stale listing would hand to on_ready - fired through this source
                    tasks = list(b.get_all_tasks().items())
                    name, task = tasks[op[1] % len(tasks)]
                    ents = [e for e in task.labels.get("schedule", []) if e.get("cron") is not None or e.get("time") is not None]
                    if not ents:
                        obs.append(dict(op="skip"))
                        continue
                    e = ents[op[2] % len(ents)]
                    s = ScheduledTask(task_name=name, labels=dict(e.get("labels", {})), args=list(e.get("args", [])),
                                      kwargs=dict(e.get("kwargs", {})), cron=e.get("cron"), time=e.get("time"),
                                      cron_offset=e.get("cron_offset"))
                else:
                    ok = [l for l in listings if l]
                    if not ok:
                        obs.append(dict(op="skip"))
                        continue
                    l = ok[op[1] % len(ok)]
                    s = l[op[2] % len(l)]
                del log[:]
                expect, decl = prepared(s.labels), declared(s.labels, live)
                before = sview(s)
                del started[:]
                wire_args, wire_kwargs = wire_form(list(s.args)), wire_form(dict(s.kwargs))
                res = await guarded(sch.on_ready(src, s))
                log.append(["ret"])
                v = view()                   # the registry as on_ready left it
                await drain(started)
                norm_kicks(log, s.args, s.kwargs)
                obs.append(dict(op="fire", sched=before, expect_labels=expect, decl_labels=decl, effects=list(log), result=res, view=v,
                                by_hand=op[0] == "fire_decl", wire_args=wire_args, wire_kwargs=wire_kwargs))
        return obs

    async def main_(loop):
        loop.set_exception_handler(lambda *_: None)
        return await main()

    return dict(obs=vloop.run(main_))


def run_case_(c):
    if c["type"] == "fire":
        return run_fire(c)
    if c["type"] == "label":
        return run_label(c)
    if c["type"] == "hist":
        return run_hist(c)
    raise ValueError(c["type"])


def run_case(c, opts):
    """Every case runs in a forked copy of this driver process as it was right after its imports - a process that has
    not sent anything yet - so a case observes exactly what its replay (the case alone in a new process) observes:
    whatever taskiq keeps process-wide (registries, caches keyed by task name / label value / annotation ...) starts
    empty for each case and is filled by the case's own history only."""
    if opts.get("inline") or not hasattr(os, "fork"):
        return run_case_(c)
    rfd, wfd = os.pipe()
    pid = os.fork()
    if pid == 0:
        code = 1
        try:
            os.close(rfd)
            try:
                out = run_case_(c)
            except BaseException:  # noqa: BLE001 - a crash is an observation
                out = {"_crash": traceback.format_exc()[-2000:]}
            data = json.dumps(out, default=str).encode()
            with os.fdopen(wfd, "wb") as f:
                f.write(data)
            code = 0
        finally:
            os._exit(code)
    os.close(wfd)
    with os.fdopen(rfd, "rb") as f:
        data = f.read()
    _, status = os.waitpid(pid, 0)
    if not data or status != 0:
        return {"_crash": "case process ended with status %r and %d bytes of output" % (status, len(data))}
    return json.loads(data)
