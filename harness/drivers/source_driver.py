"""Implementation driver for C16: the real TaskiqScheduler.on_ready with recording sources / broker, and the real
LabelScheduleSource over real brokers and task registries.  Nothing of /repo is re-implemented here."""
import asyncio
import datetime as dt
import json

from taskiq.abc.broker import AsyncBroker
from taskiq.abc.schedule_source import ScheduleSource
from taskiq.exceptions import ScheduledTaskCancelledError, SendTaskError
from taskiq.labels import prepare_label
from taskiq.schedule_sources.label_based import LabelScheduleSource
from taskiq.scheduler.scheduled_task import ScheduledTask
from taskiq.scheduler.scheduler import TaskiqScheduler

EP = dt.datetime(1970, 1, 1)


# ------------------------------------------------------------------ value coding (case JSON <-> Python)
def dec(v):
    """case JSON -> Python value ({"__bytes__": hex} -> bytes, {"__td__": us} -> timedelta)"""
    if isinstance(v, dict):
        if "__bytes__" in v:
            return bytes.fromhex(v["__bytes__"])
        if "__td__" in v:
            return dt.timedelta(microseconds=v["__td__"])
        return {k: dec(x) for k, x in v.items()}
    if isinstance(v, list):
        return [dec(x) for x in v]
    return v


def dec_time(t):
    if t is None:
        return None
    if "naive" in t:
        return EP + dt.timedelta(microseconds=t["naive"])
    tz = dt.timezone(dt.timedelta(minutes=t["offmin"]))
    return (EP.replace(tzinfo=dt.timezone.utc) + dt.timedelta(microseconds=t["aware"])).astimezone(tz)


def enc_time(t):
    if t is None:
        return None
    if t.tzinfo is None:
        return {"naive": (t - EP) // dt.timedelta(microseconds=1)}
    us = (t - EP.replace(tzinfo=dt.timezone.utc)) // dt.timedelta(microseconds=1)
    return {"aware": us, "offmin": int(t.utcoffset().total_seconds() // 60)}


def canon(v, live=None):
    """Python value -> canonical JSON-able value; `live` maps id(list) -> task name for live schedule lists"""
    if live and isinstance(v, list) and id(v) in live:
        return {"__sched__": live[id(v)]}
    if isinstance(v, bytes):
        return {"__bytes__": v.hex()}
    if isinstance(v, dt.timedelta):
        return {"__td__": v // dt.timedelta(microseconds=1)}
    if isinstance(v, dt.datetime):
        return {"__dt__": enc_time(v)}
    if isinstance(v, dict):
        return {str(k): canon(x, live) for k, x in v.items()}
    if isinstance(v, (list, tuple)):
        return [canon(x, live) for x in v]
    if isinstance(v, float):
        return {"__float__": v.hex()}
    if v is None or isinstance(v, (str, int, bool)):
        return v
    return {"__repr__": repr(v)}


def prepared(labels):
    """what the statement expects on the wire for these labels: prepare_label (the subject of C09) of each"""
    return {k: list(prepare_label(v)) for k, v in labels.items()}


class RecBroker(AsyncBroker):
    def __init__(self, log, kick_ok=True):
        super().__init__()
        self.log = log
        self.kick_ok = kick_ok

    async def kick(self, message):
        m = self.formatter.loads(message.message)
        self.log.append(["kick", dict(task_name=m.task_name, args=canon(m.args), kwargs=canon(m.kwargs),
                                      labels={k: [m.labels[k], m.labels_types.get(k) if m.labels_types else None]
                                              for k in m.labels},
                                      bm_task_name=message.task_name, bm_labels=canon(message.labels))])
        await asyncio.sleep(0)
        if not self.kick_ok:
            raise RuntimeError("injected kick failure")

    async def listen(self):
        yield b""


class Boom(Exception):
    pass


def make_source(log, pre, pre_async, post_ok, post_async):
    def pre_body(task):
        log.append(["pre", task.schedule_id])
        if pre == "cancel":
            raise ScheduledTaskCancelledError
        if pre == "raise":
            raise Boom("pre")

    def post_body(task):
        log.append(["post", task.schedule_id])
        if not post_ok:
            raise Boom("post")

    class Src(ScheduleSource):
        async def get_schedules(self):
            return []

        if pre_async:
            async def pre_send(self, task):
                await asyncio.sleep(0)
                pre_body(task)
        else:
            def pre_send(self, task):
                pre_body(task)

        if post_async:
            async def post_send(self, task):
                await asyncio.sleep(0)
                post_body(task)
        else:
            def post_send(self, task):
                post_body(task)

    return Src()


async def guarded(coro):
    try:
        await coro
        return "ok"
    except ScheduledTaskCancelledError:
        return "raise:cancelled-escaped"
    except SendTaskError:
        return "raise:SendTaskError"
    except Boom as e:
        return "raise:Boom:" + str(e)
    except Exception as e:  # noqa: BLE001 - an observation
        return "raise:" + type(e).__name__


def run_fire(c):
    log = []
    AsyncBroker.global_task_registry.clear()
    b = RecBroker(log, c["kick_ok"])
    src = make_source(log, c["pre"], c["pre_async"], c["post_ok"], c["post_async"])
    p = c["payload"]
    kw = dict(task_name=p["task"], labels=dec(p["labels"]), args=dec(p["args"]), kwargs=dec(p["kwargs"]),
              schedule_id=c["sid"])
    if p.get("cron") is not None:
        kw["cron"] = p["cron"]
    if p.get("time") is not None:
        kw["time"] = dec_time(p["time"])
    st = ScheduledTask(**kw)
    expect = prepared(st.labels)
    res = asyncio.run(guarded(TaskiqScheduler(b, [src]).on_ready(src, st)))
    return dict(effects=log, result=res, expect_labels=expect, sched_args=canon(st.args), sched_kwargs=canon(st.kwargs))


# ------------------------------------------------------------------ label source histories
def build_entry(e):
    d = {"_uid": e["uid"]}
    for k in ("cron", "args", "kwargs", "labels", "cron_offset"):
        if k in e:
            d[k] = dec(e[k])
    if "time" in e:
        d["time"] = dec_time(e["time"])
    return d


def run_label(c):
    log = []
    AsyncBroker.global_task_registry.clear()
    b = RecBroker(log)
    other = RecBroker([])
    live = {}

    def declare(t, broker):
        def fn():
            return None
        labels = dec(t["labels"])
        if t["schedule"] is not None:
            labels["schedule"] = [build_entry(e) for e in t["schedule"]]
            live[id(labels["schedule"])] = t["name"]
        return broker.register_task(fn, task_name=t["name"], **labels)

    for t in c["globals"]:
        br = b if t["own"] else other
        task = declare(t, br)
        del br.local_task_registry[t["name"]]
        AsyncBroker.global_task_registry[t["name"]] = task
    for t in c["locals"]:
        declare(t, b)
    src = LabelScheduleSource(b)
    sch = TaskiqScheduler(b, [src])
    real_pre, real_post = src.pre_send, src.post_send   # the source's own methods, observed through instance attributes

    def pre_send(task):
        log.append(["pre", task.schedule_id])
        return real_pre(task)

    def post_send(task):
        log.append(["post", task.schedule_id])
        return real_post(task)

    src.pre_send, src.post_send = pre_send, post_send

    def view():
        out = []
        for name, task in b.get_all_tasks().items():
            ents = task.labels.get("schedule", [])
            out.append([name, [[e["_uid"], canon(e["labels"], live) if "labels" in e else None] for e in ents]])
        return out

    def sview(s):
        return dict(task=s.task_name, cron=s.cron, time=enc_time(s.time), args=canon(s.args), kwargs=canon(s.kwargs),
                    labels=canon(s.labels, live), cron_offset=canon(s.cron_offset), sid=s.schedule_id)

    async def main():
        listings, obs = [], []
        obs.append(dict(op="init", view=view()))
        for op in c["ops"]:
            if op[0] == "list":
                try:
                    got = await src.get_schedules()
                    listings.append(got)
                    obs.append(dict(op="list", result=[sview(s) for s in got], view=view()))
                except Exception as e:  # noqa: BLE001 - an observation
                    listings.append(None)
                    obs.append(dict(op="list", result=None, error=type(e).__name__, view=view()))
            else:
                ok = [l for l in listings if l]
                if not ok:
                    obs.append(dict(op="skip"))
                    continue
                l = ok[op[1] % len(ok)]
                s = l[op[2] % len(l)]
                del log[:]
                expect = prepared(s.labels)
                before = sview(s)
                res = await guarded(sch.on_ready(src, s))
                obs.append(dict(op="fire", sched=before, expect_labels=expect, effects=list(log), result=res, view=view()))
        return obs

    return dict(obs=asyncio.run(main()))


def run_case(c, opts):
    if c["type"] == "fire":
        return run_fire(c)
    if c["type"] == "label":
        return run_label(c)
    raise ValueError(c["type"])
