"""Implementation driver for C13/C14: the real get_task_delay under a controlled wall clock."""
import datetime as dt
import os
import zoneinfo

import pytz

import taskiq.cli.scheduler.run as run
from taskiq.scheduler.scheduled_task import ScheduledTask

EP = dt.datetime(1970, 1, 1, tzinfo=dt.timezone.utc)
NOW = [EP]


class VDT(dt.datetime):
    """datetime whose now()/utcnow() are the harness clock"""

    @classmethod
    def now(cls, tz=None):
        return NOW[0].astimezone(tz) if tz is not None else NOW[0].replace(tzinfo=None)

    @classmethod
    def utcnow(cls):
        return NOW[0].replace(tzinfo=None)


def setup(opts):
    run.datetime = VDT


def spell(T_us, sp):
    tt = EP + dt.timedelta(microseconds=T_us)
    k = sp["kind"]
    if k == "naive":
        return tt.replace(tzinfo=None)
    if k == "utc":
        return tt
    if k == "pytzutc":
        return tt.astimezone(pytz.UTC)
    if k == "fixed":
        return tt.astimezone(dt.timezone(dt.timedelta(minutes=sp["minutes"])))
    if k == "pytz":
        return tt.astimezone(pytz.timezone(sp["zone"]))
    if k == "zoneinfo":
        pz = os.path.join(os.path.dirname(pytz.__file__), "zoneinfo")
        return tt.astimezone(zoneinfo.ZoneInfo.from_file(open(os.path.join(pz, sp["zone"]), "rb"), key=sp["zone"]))
    raise ValueError(k)


def pytz_offset_us(zone, us):
    """UTC offset of `zone` at instant `us`, read by the stdlib TZif reader from pytz's own data."""
    pz = os.path.join(os.path.dirname(pytz.__file__), "zoneinfo")
    z = _ZI.get(zone)
    if z is None:
        z = _ZI[zone] = zoneinfo.ZoneInfo.from_file(open(os.path.join(pz, zone), "rb"), key=zone)
    off = (EP + dt.timedelta(microseconds=us)).astimezone(z).utcoffset()
    return (off.days * 86400 + off.seconds) * 10**6 + off.microseconds


_ZI = {}


def run_case(c, opts):
    NOW[0] = EP + dt.timedelta(microseconds=c["now"])
    if c["type"] == "time":
        t = ScheduledTask(task_name="t", labels={}, args=[], kwargs={}, time=spell(c["T"], c["spell"]))
        r = run.get_task_delay(t)
        if r is not None and type(r) is not int:
            return {"delay": repr(r), "badtype": True}
        return {"delay": r}
    if c["type"] == "cron":
        off = c["off"]
        if off is None:
            o = None
            shift = 0
        elif off["kind"] == "td":
            o = dt.timedelta(microseconds=off["us"])
            shift = off["us"]
        else:
            o = off["zone"]
            shift = pytz_offset_us(off["zone"], c["now"])
        t = ScheduledTask(task_name="t", labels={}, args=[], kwargs={}, cron=c["cron"], cron_offset=o)
        try:
            r = run.get_task_delay(t)
        except ValueError as e:
            return {"delay": "ValueError", "shift": shift, "err": str(e)[:100]}
        return {"delay": r, "shift": shift}
    raise ValueError(c["type"])
