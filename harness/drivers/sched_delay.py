"""Implementation driver for C13/C14: the real get_task_delay under a controlled wall clock.

A case may carry "host": the time zone of the machine the scheduler runs on (a POSIX TZ string such as "MSK-3",
"EST5EDT", "IST-5:30", "NZST-12NZDT", or an IANA name resolved by the C library; absent / None = "UTC", what the harness
environment sets).  It is installed with os.environ["TZ"] + time.tzset() before the real code is called, and the
controlled clock answers exactly like the real datetime class on such a host: now(tz) / utcnow() report the instant,
now() WITHOUT tz the naive local wall clock of the host zone (C library localtime(), fold included)."""
import datetime as dt
import os
import time
import zoneinfo

import pytz

import taskiq.cli.scheduler.run as run
from taskiq.scheduler.scheduled_task import ScheduledTask

EP = dt.datetime(1970, 1, 1, tzinfo=dt.timezone.utc)
NOW = [EP]


HOST = [None]


def set_host(host):
    """make `host` the system time zone of this process (what TZ / /etc/localtime is on the scheduler machine)"""
    host = host or "UTC"
    if HOST[0] != host:
        os.environ["TZ"] = host
        time.tzset()
        HOST[0] = host


def host_offset_us(us):
    """UTC offset of the installed host zone at instant `us` (C library), for the evidence only"""
    off = (EP + dt.timedelta(microseconds=us)).astimezone().utcoffset()
    return (off.days * 86400 + off.seconds) * 10**6 + off.microseconds


class VDT(dt.datetime):
    """datetime whose now()/utcnow() are the harness clock, answered the way the real class answers them:
    now(tz) = the instant in tz, utcnow() = naive UTC, now() = naive wall clock of the SYSTEM zone (TZ / tzset)"""

    @classmethod
    def now(cls, tz=None):
        if tz is None:
            loc = NOW[0].astimezone().replace(tzinfo=None)   # system local time: time.localtime(), honours tzset()
        else:
            loc = NOW[0].astimezone(tz)
        return cls.combine(loc.date(), loc.timetz())         # an instance of the class, as datetime.now() returns

    @classmethod
    def utcnow(cls):
        loc = NOW[0].replace(tzinfo=None)
        return cls.combine(loc.date(), loc.timetz())


def setup(opts):
    run.datetime = VDT


def spell(T_us, sp):
    tt = EP + dt.timedelta(microseconds=T_us)
    k = sp["kind"]
    if k == "naive":
        return tt.replace(tzinfo=None)
    if k == "utc":
        return tt
    if k == "pytzutc":
        return tt.astimezone(pytz.UTC)
    if k == "fixed":
        return tt.astimezone(dt.timezone(dt.timedelta(minutes=sp["minutes"])))
    if k == "hostlocal":   # the host's own zone as CPython reports it (a fixed-offset tzinfo), after set_host()
        return tt.astimezone()
    if k == "pytz":
        return tt.astimezone(pytz.timezone(sp["zone"]))
    if k == "zoneinfo":
        pz = os.path.join(os.path.dirname(pytz.__file__), "zoneinfo")
        return tt.astimezone(zoneinfo.ZoneInfo.from_file(open(os.path.join(pz, sp["zone"]), "rb"), key=sp["zone"]))
    raise ValueError(k)


def pytz_offset_us(zone, us):
    """UTC offset of `zone` at instant `us`, read by the stdlib TZif reader from pytz's own data."""
    pz = os.path.join(os.path.dirname(pytz.__file__), "zoneinfo")
    z = _ZI.get(zone)
    if z is None:
        z = _ZI[zone] = zoneinfo.ZoneInfo.from_file(open(os.path.join(pz, zone), "rb"), key=zone)
    off = (EP + dt.timedelta(microseconds=us)).astimezone(z).utcoffset()
    return (off.days * 86400 + off.seconds) * 10**6 + off.microseconds


_ZI = {}


def run_case(c, opts):
    NOW[0] = EP + dt.timedelta(microseconds=c["now"])
    set_host(c.get("host"))
    if c["type"] == "time":
        t = ScheduledTask(task_name="t", labels={}, args=[], kwargs={}, time=spell(c["T"], c["spell"]))
        r = run.get_task_delay(t)
        host = {"host_off_us": host_offset_us(c["now"]), "local_now": VDT.now().isoformat()} if c.get("host") else {}
        if r is not None and type(r) is not int:
            return dict(host, delay=repr(r), badtype=True)
        return dict(host, delay=r)
    if c["type"] == "cron":
        off = c["off"]
        if off is None:
            o = None
            shift = 0
        elif off["kind"] == "td":
            o = dt.timedelta(microseconds=off["us"])
            shift = off["us"]
        else:
            o = off["zone"]
            shift = pytz_offset_us(off["zone"], c["now"])
        t = ScheduledTask(task_name="t", labels={}, args=[], kwargs={}, cron=c["cron"], cron_offset=o)
        try:
            r = run.get_task_delay(t)
        except ValueError as e:
            return {"delay": "ValueError", "shift": shift, "err": str(e)[:100]}
        return {"delay": r, "shift": shift}
    raise ValueError(c["type"])
