"""Implementation driver for C13/C14: the real get_task_delay under a controlled wall clock.

A case may carry "host": the time zone of the machine the scheduler runs on (a POSIX TZ string such as "MSK-3",
"EST5EDT", "IST-5:30", "NZST-12NZDT", or an IANA name resolved by the C library; absent / None = "UTC", what the harness
environment sets).  It is installed with os.environ["TZ"] + time.tzset() before the real code is called, and the
controlled clock answers exactly like the real datetime class on such a host: now(tz) / utcnow() report the instant,
now() WITHOUT tz the naive local wall clock of the host zone (C library localtime(), fold included).

A case {"type": "group", "group": [element, ...], "mode": "interleaved" | "build-first"} is a back-to-back group: what ONE
long-lived scheduler process does with the schedules of one night - several ScheduledTask objects are constructed (the
real pydantic model, validators included, from the spelled datetime of every element) and evaluated one after the other.
Elements are ordinary time cases plus: spell.wall / spell.fold (the wall-clock fields and the PEP 495 fold given to the
datetime constructor directly - zoneinfo / dateutil zones, whose tzinfo object is shared by every element of the group
with the same (kind, zone, tzid), as ZoneInfo(key) / tz.gettz(name) share it in an application); "obj" (elements with
the same number hand the very same datetime OBJECT to the model, elements with different numbers equal-or-not distinct
objects); "task" (elements with the same number evaluate the very same ScheduledTask again - what the loop does every
minute); "via": "iso" (the time reaches the model as an ISO 8601 string with its UTC offset, as a schedule source that
stores JSON hands it over).  "build-first" constructs every task (in element order of `build_order`) before the first
evaluation - a schedule source returning its list - "interleaved" constructs each task right before its evaluation.
The whole group runs in a forked child of the driver process: its observation does not depend on what the cases that
happened to share the driver process left behind, so a replay of the group alone sees the same thing.  Every element's
observation carries `spelled_us`: the instant of an equal datetime built separately (fresh tzinfo objects) that taskiq
never sees - the harness compares it with the T it computed on its own when generating (harness self-check)."""
import datetime as dt
import json
import os
import time
import traceback
import zoneinfo

import pytz

import taskiq.cli.scheduler.run as run
from taskiq.scheduler.scheduled_task import ScheduledTask

EP = dt.datetime(1970, 1, 1, tzinfo=dt.timezone.utc)
NOW = [EP]


HOST = [None]


def set_host(host):
    """make `host` the system time zone of this process (what TZ / /etc/localtime is on the scheduler machine)"""
    host = host or "UTC"
    if HOST[0] != host:
        os.environ["TZ"] = host
        time.tzset()
        HOST[0] = host


def host_offset_us(us):
    """UTC offset of the installed host zone at instant `us` (C library), for the evidence only"""
    off = (EP + dt.timedelta(microseconds=us)).astimezone().utcoffset()
    return (off.days * 86400 + off.seconds) * 10**6 + off.microseconds


class VDT(dt.datetime):
    """datetime whose now()/utcnow() are the harness clock, answered the way the real class answers them:
    now(tz) = the instant in tz, utcnow() = naive UTC, now() = naive wall clock of the SYSTEM zone (TZ / tzset)"""

    @classmethod
    def now(cls, tz=None):
        if tz is None:
            loc = NOW[0].astimezone().replace(tzinfo=None)   # system local time: time.localtime(), honours tzset()
        else:
            loc = NOW[0].astimezone(tz)
        return cls.combine(loc.date(), loc.timetz())         # an instance of the class, as datetime.now() returns

    @classmethod
    def utcnow(cls):
        loc = NOW[0].replace(tzinfo=None)
        return cls.combine(loc.date(), loc.timetz())


def setup(opts):
    run.datetime = VDT


def pep495_zone(kind, zone):
    """a NEW tzinfo object of a PEP 495 zone (utcoffset() honours fold), read from pytz's own copy of the zone data"""
    path = os.path.join(os.path.dirname(pytz.__file__), "zoneinfo", zone)
    if kind == "zoneinfo":
        return zoneinfo.ZoneInfo.from_file(open(path, "rb"), key=zone)
    if kind == "dateutil":
        import dateutil.tz
        return dateutil.tz.tzfile(path)
    raise ValueError(kind)


def spell(T_us, sp, tzc=None):
    """the datetime a case spells.  tzc: the tzinfo objects of the surrounding group ((kind, zone, tzid) -> object)"""
    d = spell0(T_us, sp, tzc)
    if sp.get("fold") and "wall" not in sp:   # fold=1 on a value whose zone does not look at it: the same instant
        d = d.replace(fold=1)
    return d


def spell0(T_us, sp, tzc):
    tt = EP + dt.timedelta(microseconds=T_us)
    k = sp["kind"]
    if "wall" in sp:      # wall-clock fields + fold given to the constructor, the zone object shared inside a group
        key = (k, sp["zone"], sp.get("tzid", 0))
        tz = None if tzc is None else tzc.get(key)
        if tz is None:
            tz = pep495_zone(k, sp["zone"])
            if tzc is not None:
                tzc[key] = tz
        return dt.datetime(*sp["wall"], fold=sp.get("fold", 0), tzinfo=tz)
    if k == "naive":
        return tt.replace(tzinfo=None)
    if k == "utc":
        return tt
    if k == "pytzutc":
        return tt.astimezone(pytz.UTC)
    if k == "fixed":
        return tt.astimezone(dt.timezone(dt.timedelta(minutes=sp["minutes"])))
    if k == "hostlocal":   # the host's own zone as CPython reports it (a fixed-offset tzinfo), after set_host()
        return tt.astimezone()
    if k == "pytz":
        return tt.astimezone(pytz.timezone(sp["zone"]))
    if k == "zoneinfo":
        pz = os.path.join(os.path.dirname(pytz.__file__), "zoneinfo")
        return tt.astimezone(zoneinfo.ZoneInfo.from_file(open(os.path.join(pz, sp["zone"]), "rb"), key=sp["zone"]))
    raise ValueError(k)


def pytz_offset_us(zone, us):
    """UTC offset of `zone` at instant `us`, read by the stdlib TZif reader from pytz's own data."""
    pz = os.path.join(os.path.dirname(pytz.__file__), "zoneinfo")
    z = _ZI.get(zone)
    if z is None:
        z = _ZI[zone] = zoneinfo.ZoneInfo.from_file(open(os.path.join(pz, zone), "rb"), key=zone)
    off = (EP + dt.timedelta(microseconds=us)).astimezone(z).utcoffset()
    return (off.days * 86400 + off.seconds) * 10**6 + off.microseconds


_ZI = {}


def instant_us(d):
    """the instant an aware datetime denotes (naive = UTC), by datetime's own arithmetic (utcoffset(), fold honoured)"""
    if d.tzinfo is None:
        d = d.replace(tzinfo=dt.timezone.utc)
    return (d - EP) // dt.timedelta(microseconds=1)


def observe(c, t):
    """one evaluation of the real get_task_delay on task t at the element's `now`"""
    NOW[0] = EP + dt.timedelta(microseconds=c["now"])
    r = run.get_task_delay(t)
    host = {"host_off_us": host_offset_us(c["now"]), "local_now": VDT.now().isoformat()} if c.get("host") else {}
    if r is not None and type(r) is not int:
        return dict(host, delay=repr(r), badtype=True)
    return dict(host, delay=r)


def make_task(value):
    return ScheduledTask(task_name="t", labels={}, args=[], kwargs={}, time=value)


def run_group(c):
    elems = c["group"]
    set_host(elems[0].get("host") if elems else None)   # one scheduler process has one system zone
    fresh = []
    for e in elems:   # the harness' own reading of every spelled value, on objects taskiq never sees
        try:
            fresh.append(instant_us(spell(e["T"], e["spell"], {})))
        except Exception:
            fresh.append(None)
    tzc, objs, tasks, built, out = {}, {}, {}, {}, [None] * len(elems)

    def build(k):
        e = elems[k]
        try:
            if e.get("task") is not None and e["task"] in tasks:
                built[k] = tasks[e["task"]]
                return
            d = objs.get(e.get("obj")) if e.get("obj") is not None else None
            if d is None:
                d = spell(e["T"], e["spell"], tzc)
                if e.get("obj") is not None:
                    objs[e["obj"]] = d
            built[k] = make_task(d.isoformat() if e.get("via") == "iso" else d)
            if e.get("task") is not None:
                tasks[e["task"]] = built[k]
        except Exception:  # a crash of one element is that element's observation; the rest of the group still runs
            out[k] = {"_crash": traceback.format_exc()[-2000:]}

    if c.get("mode") == "build-first":
        for k in c.get("build_order") or range(len(elems)):
            build(k)
    for k, e in enumerate(elems):
        if k not in built and out[k] is None:
            build(k)
        if out[k] is None:
            try:
                out[k] = observe(e, built[k])
            except Exception:
                out[k] = {"_crash": traceback.format_exc()[-2000:]}
        out[k]["spelled_us"] = fresh[k]
    return {"group": out}


def forked(fn):
    """fn() in a forked child of this process; its JSON-able result comes back through a pipe"""
    rd, wr = os.pipe()
    pid = os.fork()
    if pid == 0:
        try:
            os.close(rd)
            try:
                data = json.dumps(fn(), default=str)
            except BaseException:
                data = json.dumps({"_crash": traceback.format_exc()[-2000:]})
            with os.fdopen(wr, "w") as f:
                f.write(data)
        finally:
            os._exit(0)
    os.close(wr)
    with os.fdopen(rd) as f:
        data = f.read()
    os.waitpid(pid, 0)
    return json.loads(data) if data else {"_crash": "the forked group process died without an answer"}


def run_case(c, opts):
    if c["type"] == "group":
        return forked(lambda: run_group(c))
    NOW[0] = EP + dt.timedelta(microseconds=c["now"])
    set_host(c.get("host"))
    if c["type"] == "time":
        return dict(observe(c, make_task(spell(c["T"], c["spell"]))), spelled_us=instant_us(spell(c["T"], c["spell"])))
    if c["type"] == "cron":
        off = c["off"]
        if off is None:
            o = None
            shift = 0
        elif off["kind"] == "td":
            o = dt.timedelta(microseconds=off["us"])
            shift = off["us"]
        else:
            o = off["zone"]
            shift = pytz_offset_us(off["zone"], c["now"])
        t = ScheduledTask(task_name="t", labels={}, args=[], kwargs={}, cron=c["cron"], cron_offset=o)
        try:
            r = run.get_task_delay(t)
        except ValueError as e:
            return {"delay": "ValueError", "shift": shift, "err": str(e)[:100]}
        return {"delay": r, "shift": shift}
    raise ValueError(c["type"])
