"""Implementation driver for C13/C14: the real get_task_delay under a controlled wall clock.

A case may carry "host": the time zone of the machine the scheduler runs on (a POSIX TZ string such as "MSK-3",
"EST5EDT", "IST-5:30", "NZST-12NZDT", or an IANA name resolved by the C library; absent / None = "UTC", what the harness
environment sets).  It is installed with os.environ["TZ"] + time.tzset() before the real code is called, and the
controlled clock answers exactly like the real datetime class on such a host: now(tz) / utcnow() report the instant,
now() WITHOUT tz the naive local wall clock of the host zone (C library localtime(), fold included).

A case {"type": "group", "group": [element, ...], "mode": "interleaved" | "build-first"} is a back-to-back group: what ONE
long-lived scheduler process does with the schedules of one night - several ScheduledTask objects are constructed (the
real pydantic model, validators included, from the spelled datetime of every element) and evaluated one after the other.
Elements are ordinary time cases plus: spell.wall / spell.fold (the wall-clock fields and the PEP 495 fold given to the
datetime constructor directly - zoneinfo / dateutil zones, whose tzinfo object is shared by every element of the group
with the same (kind, zone, tzid), as ZoneInfo(key) / tz.gettz(name) share it in an application); "obj" (elements with
the same number hand the very same datetime OBJECT to the model, elements with different numbers equal-or-not distinct
objects); "task" (elements with the same number evaluate the very same ScheduledTask again - what the loop does every
minute); "via": "iso" (the time reaches the model as an ISO 8601 string with its UTC offset, as a schedule source that
stores JSON hands it over).  "build-first" constructs every task (in element order of `build_order`) before the first
evaluation - a schedule source returning its list - "interleaved" constructs each task right before its evaluation.
The whole group runs in a forked child of the driver process: its observation does not depend on what the cases that
happened to share the driver process left behind, so a replay of the group alone sees the same thing.  Every element's
observation carries `spelled_us`: the instant of an equal datetime built separately (fresh tzinfo objects) that taskiq
never sees - the harness compares it with the T it computed on its own when generating (harness self-check).

A time case / group element may carry "sched": the OTHER fields of the schedule, filled the way schedule sources really
fill them (absent = the constants of the first build: task_name "t", empty labels / args / kwargs, no cron_offset, the
constructor).  "off": the cron_offset - None, {"kind": "td", "us": n, "as": "timedelta" | "seconds"} (a timedelta, or the
whole number of seconds a JSON-ish source hands over and the pydantic model turns into one) or {"kind": "zone", "zone":
name}; "offobj" (group elements with the same number hand over the very same timedelta OBJECT); "cron" (cron AND time
on one schedule - the cron branch decides, not judged by C14); "name" / "labels" / "args" / "kwargs" / "sid" (schedule_id,
None = the model's default factory); "how": the construction path - "ctor" (keyword arguments), "validate"
(ScheduledTask.model_validate / parse_obj of a dict), "assign" (built without the offset, `task.cron_offset = ...`
afterwards: the model is mutable), "copy" (a model_copy / copy of the constructed task is what gets evaluated), "label"
(the schedule is a dict of the `schedule` label of a task registered with a real InMemoryBroker and comes back from the real
LabelScheduleSource.get_schedules(), which copies cron_offset onto every schedule).  A group with "source": "label"
(build-first only) registers ALL its schedules as labels of one broker and builds them with ONE get_schedules() call.
"reoff" on an element that re-evaluates an existing task: the offset is re-assigned on that task object first.
The statement for a schedule with a target time mentions none of these fields.

A group element may carry "re": the schedule OBJECT in slot "task" (or "src") has been evaluated before and is re-worked
before THIS evaluation - what a long-lived in-memory schedule source does to postpone / pull forward / re-arm a schedule.
"derive": the evaluated object is a copy of the one in slot "src" (default: the element's own slot) - model_copy /
model_copy(deep) / copy.copy / copy.deepcopy / a pickle round trip / model_validate(model_dump()) / the JSON round trip -
and takes the element's slot from then on (the source object stays in its own slot when "src" names another one);
"set_time": the element's own spelled datetime becomes the target (`task.time = value`, or part of the `update=` of the
copy when "in_copy"); "set": other fields assigned the same way (task_name / labels / args / kwargs / schedule_id / cron /
cron_offset).  The element's T is the target the object carries at this evaluation; an element that does not set the time
itself relies on its predecessors: the driver reads task.time back (instant_us, its own arithmetic) and marks the
observation "stale" (not an observation of the statement) when the object does not carry the element's T - so that a
shrunk group, from which the assignment was dropped, cannot be misread.  Every observation of a group carries
`carried_us`: the instant of task.time as read back from the evaluated object."""
import copy
import datetime as dt
import json
import os
import pickle
import time
import sys
import traceback
import zoneinfo

import pytz

import taskiq.cli.scheduler.run as run
import patchall
from taskiq.scheduler.scheduled_task import ScheduledTask

EP = dt.datetime(1970, 1, 1, tzinfo=dt.timezone.utc)
NOW = [EP]


HOST = [None]


def set_host(host):
    """make `host` the system time zone of this process (what TZ / /etc/localtime is on the scheduler machine)"""
    host = host or "UTC"
    if HOST[0] != host:
        os.environ["TZ"] = host
        time.tzset()
        HOST[0] = host


def host_offset_us(us):
    """UTC offset of the installed host zone at instant `us` (C library), for the evidence only"""
    off = (EP + dt.timedelta(microseconds=us)).astimezone().utcoffset()
    return (off.days * 86400 + off.seconds) * 10**6 + off.microseconds


class VDT(dt.datetime):
    """datetime whose now()/utcnow() are the harness clock, answered the way the real class answers them:
    now(tz) = the instant in tz, utcnow() = naive UTC, now() = naive wall clock of the SYSTEM zone (TZ / tzset)"""

    @classmethod
    def now(cls, tz=None):
        if tz is None:
            loc = NOW[0].astimezone().replace(tzinfo=None)   # system local time: time.localtime(), honours tzset()
        else:
            loc = NOW[0].astimezone(tz)
        return cls.combine(loc.date(), loc.timetz())         # an instance of the class, as datetime.now() returns

    @classmethod
    def utcnow(cls):
        loc = NOW[0].replace(tzinfo=None)
        return cls.combine(loc.date(), loc.timetz())


def setup(opts):
    # (not `run.datetime = VDT`: the name may be bound to the datetime MODULE in another spelling of the imports)
    patchall.patch_attr(dt, "datetime", VDT, later_imports=True)   # wherever else the package reads the clock: the class under any name,
    #                                        or the datetime module itself under any name (import datetime as dt)


def pep495_zone(kind, zone):
    """a NEW tzinfo object of a PEP 495 zone (utcoffset() honours fold), read from pytz's own copy of the zone data"""
    path = os.path.join(os.path.dirname(pytz.__file__), "zoneinfo", zone)
    if kind == "zoneinfo":
        return zoneinfo.ZoneInfo.from_file(open(path, "rb"), key=zone)
    if kind == "dateutil":
        import dateutil.tz
        return dateutil.tz.tzfile(path)
    raise ValueError(kind)


def spell(T_us, sp, tzc=None):
    """the datetime a case spells.  tzc: the tzinfo objects of the surrounding group ((kind, zone, tzid) -> object)"""
    d = spell0(T_us, sp, tzc)
    if sp.get("fold") and "wall" not in sp:   # fold=1 on a value whose zone does not look at it: the same instant
        d = d.replace(fold=1)
    return d


def spell0(T_us, sp, tzc):
    tt = EP + dt.timedelta(microseconds=T_us)
    k = sp["kind"]
    if "wall" in sp:      # wall-clock fields + fold given to the constructor, the zone object shared inside a group
        key = (k, sp["zone"], sp.get("tzid", 0))
        tz = None if tzc is None else tzc.get(key)
        if tz is None:
            tz = pep495_zone(k, sp["zone"])
            if tzc is not None:
                tzc[key] = tz
        return dt.datetime(*sp["wall"], fold=sp.get("fold", 0), tzinfo=tz)
    if k == "naive":
        return tt.replace(tzinfo=None)
    if k == "utc":
        return tt
    if k == "pytzutc":
        return tt.astimezone(pytz.UTC)
    if k == "fixed":
        return tt.astimezone(dt.timezone(dt.timedelta(minutes=sp["minutes"])))
    if k == "hostlocal":   # the host's own zone as CPython reports it (a fixed-offset tzinfo), after set_host()
        return tt.astimezone()
    if k == "pytz":
        return tt.astimezone(pytz.timezone(sp["zone"]))
    if k == "zoneinfo":
        pz = os.path.join(os.path.dirname(pytz.__file__), "zoneinfo")
        return tt.astimezone(zoneinfo.ZoneInfo.from_file(open(os.path.join(pz, sp["zone"]), "rb"), key=sp["zone"]))
    raise ValueError(k)


def pytz_offset_us(zone, us):
    """UTC offset of `zone` at instant `us`, read by the stdlib TZif reader from pytz's own data."""
    pz = os.path.join(os.path.dirname(pytz.__file__), "zoneinfo")
    z = _ZI.get(zone)
    if z is None:
        z = _ZI[zone] = zoneinfo.ZoneInfo.from_file(open(os.path.join(pz, zone), "rb"), key=zone)
    off = (EP + dt.timedelta(microseconds=us)).astimezone(z).utcoffset()
    return (off.days * 86400 + off.seconds) * 10**6 + off.microseconds


_ZI = {}


def instant_us(d):
    """the instant an aware datetime denotes (naive = UTC), by datetime's own arithmetic (utcoffset(), fold honoured)"""
    if d.tzinfo is None:
        d = d.replace(tzinfo=dt.timezone.utc)
    return (d - EP) // dt.timedelta(microseconds=1)


def observe(c, t):
    """one evaluation of the real get_task_delay on task t at the element's `now`"""
    NOW[0] = EP + dt.timedelta(microseconds=c["now"])
    r = run.get_task_delay(t)
    host = {"host_off_us": host_offset_us(c["now"]), "local_now": VDT.now().isoformat()} if c.get("host") else {}
    if c.get("sched"):
        host.update(seen(t))
    if r is not None and type(r) is not int:
        return dict(host, delay=repr(r), badtype=True)
    return dict(host, delay=r)


def offset_value(off, offc=None, key=None):
    """the cron_offset value a case spells; offc / key: timedelta objects shared inside a group"""
    if off is None:
        return None
    if off["kind"] == "zone":
        return off["zone"]
    if off.get("as") == "seconds":      # what a JSON-ish source hands over; the model makes a timedelta of it
        return off["us"] // 10**6
    if offc is not None and key is not None:
        k = (key, off["us"])
        if k not in offc:
            offc[k] = dt.timedelta(microseconds=off["us"])
        return offc[k]
    return dt.timedelta(microseconds=off["us"])


def as_timedelta(off):
    """an offset assigned to an attribute is not validated by the model: hand over what a caller would (timedelta / str)"""
    v = offset_value(off)
    return dt.timedelta(seconds=v) if isinstance(v, int) else v


def label_dict(value, sc, offc=None):
    """one entry of a task's `schedule` label, as the documentation writes them"""
    d = {"time": value}
    if sc.get("cron") is not None:
        d["cron"] = sc["cron"]
    if "off" in sc and (sc["off"] is not None or sc.get("offkey")):   # offkey: the key is present with value None
        d["cron_offset"] = offset_value(sc["off"], offc, sc.get("offobj"))
    for k in ("labels", "args", "kwargs"):
        if k in sc:
            d[k] = json.loads(json.dumps(sc[k]))
    return d


def from_label_source(named):
    """named: [(task_name, [label dict, ...])] -> the ScheduledTasks the real LabelScheduleSource returns for a real
    broker whose tasks carry these schedule labels, in the order of the labels"""
    import asyncio

    from taskiq import InMemoryBroker
    from taskiq.schedule_sources import LabelScheduleSource
    broker = InMemoryBroker()
    for name, dicts in named:
        def fn(*a, **k):
            return None
        broker.register_task(fn, task_name=name, schedule=dicts)
    loop = asyncio.new_event_loop()
    try:
        return loop.run_until_complete(LabelScheduleSource(broker).get_schedules())
    finally:
        loop.close()


def make_task(value, sc=None, offc=None):
    if not sc:
        return ScheduledTask(task_name="t", labels={}, args=[], kwargs={}, time=value)
    how = sc.get("how", "ctor")
    if how == "label":
        got = from_label_source([(sc.get("name") or "t", [label_dict(value, sc, offc)])])
        if len(got) != 1:
            raise RuntimeError("LabelScheduleSource.get_schedules() returned %d schedules for 1 time label" % len(got))
        return got[0]
    kw = dict(task_name=sc.get("name", "t"), labels=json.loads(json.dumps(sc.get("labels", {}))),
              args=json.loads(json.dumps(sc.get("args", []))), kwargs=json.loads(json.dumps(sc.get("kwargs", {}))), time=value)
    if sc.get("sid") is not None:
        kw["schedule_id"] = sc["sid"]
    if sc.get("cron") is not None:
        kw["cron"] = sc["cron"]
    if how == "assign":
        t = ScheduledTask(**kw)
        t.cron_offset = as_timedelta(sc.get("off"))
        return t
    if "off" in sc and (sc["off"] is not None or sc.get("offkey")):
        kw["cron_offset"] = offset_value(sc["off"], offc, sc.get("offobj"))
    if how == "validate":
        return (getattr(ScheduledTask, "model_validate", None) or ScheduledTask.parse_obj)(kw)
    t = ScheduledTask(**kw)
    if how == "copy":
        cp = getattr(t, "model_copy", None) or t.copy
        # (the harness reads its zoneinfo zones from pytz's files with ZoneInfo.from_file: such objects refuse to be
        # pickled / deep-copied by CPython - a property of the harness' zone objects, so those copies stay shallow)
        return cp(deep=bool(sc.get("deep")) and not isinstance(getattr(value, "tzinfo", None), zoneinfo.ZoneInfo))
    return t


def seen(t):
    """what the evaluated task carries besides its time - evidence and replay text only"""
    o = t.cron_offset
    if o is None:
        so = "none"
    elif isinstance(o, dt.timedelta):
        so = "timedelta:%d" % (o // dt.timedelta(microseconds=1))
    else:
        so = "%s:%s" % (type(o).__name__, o)
    return {"off_seen": so, "cron_seen": t.cron}


FIELD = {"name": "task_name", "labels": "labels", "args": "args", "kwargs": "kwargs", "sid": "schedule_id", "cron": "cron"}


def carried_us(t):
    """the instant of the target time the task object carries right now, read by the harness' own arithmetic"""
    v = getattr(t, "time", None)
    return instant_us(v) if isinstance(v, dt.datetime) else None


def derive(t, how, upd):
    """a copy of task t the way applications take one; upd: fields handed to the copy operation itself (or None).
    (The harness reads its zoneinfo zones with ZoneInfo.from_file: CPython refuses to pickle / deep-copy such objects -
    "Cannot pickle a ZoneInfo file from a file stream" - wherever one sits in the task, its labels included: a property of
    the harness' zone objects, so exactly that refusal makes the copy a shallow one.)"""
    try:
        return derive0(t, how, upd)
    except pickle.PicklingError as e:
        if "ZoneInfo file from a file stream" not in str(e):
            raise
        return derive0(t, {"model_copy_deep": "model_copy"}.get(how, "copy.copy"), upd)


def derive0(t, how, upd):
    if how in ("model_copy", "model_copy_deep"):
        cp = getattr(t, "model_copy", None) or t.copy
        return cp(update=upd, deep=how == "model_copy_deep") if upd else cp(deep=how == "model_copy_deep")
    if how in ("revalidate", "revalidate_iso"):    # a NEW object from the dumped fields (what a storing source does)
        data = (getattr(t, "model_dump", None) or t.dict)()
        data.update(upd or {})
        if how == "revalidate_iso" and isinstance(data.get("time"), dt.datetime):
            data["time"] = data["time"].isoformat()     # the time as a JSON store keeps it
        return (getattr(ScheduledTask, "model_validate", None) or ScheduledTask.parse_obj)(data)
    if how == "copy.deepcopy":
        n = copy.deepcopy(t)
    elif how == "pickle":
        # (the driver's own round trip of a schedule object: pickle names classes through sys.modules, where the clock stand-in
        # answers for `datetime` while later imports are redirected - patchall.patch_attr(later_imports=True))
        shim_mod, sys.modules["datetime"] = sys.modules["datetime"], dt
        try:
            n = pickle.loads(pickle.dumps(t))
        finally:
            sys.modules["datetime"] = shim_mod
    else:
        n = copy.copy(t)
    for f, v in (upd or {}).items():
        setattr(n, f, v)
    return n


def run_group(c):
    elems = c["group"]
    set_host(elems[0].get("host") if elems else None)   # one scheduler process has one system zone
    fresh = []
    for e in elems:   # the harness' own reading of every spelled value, on objects taskiq never sees
        try:
            fresh.append(instant_us(spell(e["T"], e["spell"], {})))
        except Exception:
            fresh.append(None)
    tzc, objs, tasks, built, out, offc = {}, {}, {}, {}, [None] * len(elems), {}

    def value(e, raw=False):
        d = objs.get(e.get("obj")) if e.get("obj") is not None else None
        if d is None:
            d = spell(e["T"], e["spell"], tzc)
            if e.get("obj") is not None:
                objs[e["obj"]] = d
        return d.isoformat() if e.get("via") == "iso" and not raw else d

    def rework(k):
        """the object of an earlier evaluation, re-worked for this one (see the module text: "re")"""
        e = elems[k]
        re = e["re"]
        t = tasks.get(re.get("src", e.get("task")))
        if t is None or isinstance(t, int):   # its slot was never filled (a shrunk group): an ordinary new schedule
            t = make_task(value(e), e.get("sched"), offc)
            if e.get("task") is not None:
                tasks[e["task"]] = t
            return t, False
        if not re.get("set_time") and carried_us(t) != e["T"]:
            return t, True                     # the element's T was assigned by an element that is not there
        upd = {}
        if re.get("set_time"):                 # (attributes are not validated on assignment: always a datetime)
            upd["time"] = value(e, raw=True)
        for f, v in (re.get("set") or {}).items():
            upd[FIELD.get(f, f)] = as_timedelta(v) if f == "cron_offset" else json.loads(json.dumps(v))
        if re.get("derive"):
            t = derive(t, re["derive"], upd if re.get("in_copy") else None)
        if not (re.get("derive") and re.get("in_copy")):
            for f, v in upd.items():
                setattr(t, f, v)
        if e.get("task") is not None:
            tasks[e["task"]] = t
        return t, False

    def build(k):
        e = elems[k]
        if "re" in e:     # re-worked objects come into being at their evaluation, whatever the construction order
            return
        try:
            if e.get("task") is not None and e["task"] in tasks:
                built[k] = tasks[e["task"]]
                return
            built[k] = make_task(value(e), e.get("sched"), offc)
            if e.get("task") is not None:
                tasks[e["task"]] = built[k]
        except Exception:  # a crash of one element is that element's observation; the rest of the group still runs
            out[k] = {"_crash": traceback.format_exc()[-2000:]}

    def build_from_label_source(order):
        """every schedule of the group is a label of ONE broker; one get_schedules() call returns them all"""
        named, first = [], []
        for k in order:
            e = elems[k]
            if "re" in e or (e.get("task") is not None and e["task"] in tasks):
                continue
            sc = e.get("sched") or {}
            try:
                entry = label_dict(value(e), sc, offc)
            except Exception:
                out[k] = {"_crash": traceback.format_exc()[-2000:]}
                continue
            if e.get("task") is not None:
                tasks[e["task"]] = k      # placeholder: the element whose schedule it is
            name = sc.get("name") or "t"
            for n, dicts, ks in named:
                if n == name:
                    break
            else:
                dicts, ks = [], []
                named.append((name, dicts, ks))
            dicts.append(entry)
            ks.append(k)
            first.append(k)
        try:
            got = from_label_source([(n, dicts) for n, dicts, _ in named])
            want = [k for _, _, ks in named for k in ks]
            if len(got) != len(want):
                raise RuntimeError("LabelScheduleSource.get_schedules() returned %d schedules for %d time labels" % (
                    len(got), len(want)))
            for k, t in zip(want, got):
                built[k] = t
        except Exception:
            for k in first:
                out[k] = {"_crash": traceback.format_exc()[-2000:]}
        for key, k in list(tasks.items()):
            if isinstance(k, int):
                if k in built:
                    tasks[key] = built[k]
                else:
                    del tasks[key]
        for k in order:
            e = elems[k]
            if k not in built and out[k] is None and e.get("task") in tasks and "re" not in e:
                built[k] = tasks[e["task"]]

    if c.get("mode") == "build-first":
        order = c.get("build_order") or range(len(elems))
        if c.get("source") == "label":
            build_from_label_source(list(order))
        else:
            for k in order:
                build(k)
    for k, e in enumerate(elems):
        if k not in built and out[k] is None:
            build(k)
        if out[k] is None:
            try:
                stale = False
                if "re" in e:
                    built[k], stale = rework(k)
                if "reoff" in e:      # the offset re-assigned on the existing task object before this evaluation
                    built[k].cron_offset = as_timedelta(e["reoff"])
                out[k] = observe(e, built[k])
                out[k]["carried_us"] = carried_us(built[k])
                if stale:
                    out[k]["stale"] = True
            except Exception:
                out[k] = {"_crash": traceback.format_exc()[-2000:]}
        out[k]["spelled_us"] = fresh[k]
    return {"group": out}


def forked(fn):
    """fn() in a forked child of this process; its JSON-able result comes back through a pipe"""
    rd, wr = os.pipe()
    pid = os.fork()
    if pid == 0:
        try:
            os.close(rd)
            try:
                data = json.dumps(fn(), default=str)
            except BaseException:
                data = json.dumps({"_crash": traceback.format_exc()[-2000:]})
            with os.fdopen(wr, "w") as f:
                f.write(data)
        finally:
            os._exit(0)
    os.close(wr)
    with os.fdopen(rd) as f:
        data = f.read()
    os.waitpid(pid, 0)
    return json.loads(data) if data else {"_crash": "the forked group process died without an answer"}


def run_case(c, opts):
    if c["type"] == "group":
        return forked(lambda: run_group(c))
    NOW[0] = EP + dt.timedelta(microseconds=c["now"])
    set_host(c.get("host"))
    if c["type"] == "time":
        return dict(observe(c, make_task(spell(c["T"], c["spell"]), c.get("sched"))),
                    spelled_us=instant_us(spell(c["T"], c["spell"])))
    if c["type"] == "cron":
        off = c["off"]
        if off is None:
            o = None
            shift = 0
        elif off["kind"] == "td":
            o = dt.timedelta(microseconds=off["us"])
            shift = off["us"]
        else:
            o = off["zone"]
            shift = pytz_offset_us(off["zone"], c["now"])
        t = ScheduledTask(task_name="t", labels={}, args=[], kwargs={}, cron=c["cron"], cron_offset=o)
        try:
            r = run.get_task_delay(t)
        except ValueError as e:
            return {"delay": "ValueError", "shift": shift, "err": str(e)[:100]}
        return {"delay": r, "shift": shift}
    raise ValueError(c["type"])
