"""Implementation driver for C13: the real get_task_delay (cron branch) under a controlled wall clock.

A case: {"now": us since the epoch (UTC), "cron": five-field string, "off": None | {"kind": "td", "us": n} |
{"kind": "zone", "zone": name}, optional "spec": [five values, str or int] -> the expression is built by
taskiq's CronSpec(...).to_cron() and the offset travels through CronSpec.offset, as AsyncKicker.schedule_by_cron
does}.  A case {"group": [case, case, ...]} is a back-to-back group: its elements are evaluated one after the other in
THIS process in the given order (what a long-lived scheduler does tick after tick - anything get_task_delay keeps
between calls is shared by them); the observation is {"group": [observation, ...]}.  Because the whole group is one
case, the grouping does not depend on how the harness shards the case list.  Only observations of /repo code (and of pytz, which it calls) are returned; the oracle side (zoneinfo reader,
matcher) lives in harness/props/C13.py.

A case (or group element) may carry "host": the time zone of the machine the scheduler runs on (a POSIX TZ string such as
"MSK-3" / "EST5EDT" / "IST-5:30", or an IANA name resolved by the C library; absent / None = "UTC", the harness
environment).  It is installed with os.environ["TZ"] + time.tzset() before the real code is called, and the controlled
clock answers exactly like the real datetime class on such a host: now(tz) / utcnow() report the instant, now() WITHOUT
tz the naive local wall clock of the host zone.

A group may carry "objs": "once": a ScheduledTask is then built ONCE per distinct (expression / CronSpec, offset) of the
group and that one object is evaluated at every instant the group names it (what a schedule source that keeps its
objects does); absent / "rebuilt" = a fresh object per evaluation (what LabelScheduleSource does).

A case {"labelsrc": {...}} declares the schedules where a deployment declares them - as `schedule` labels of tasks
registered with a real broker - and lets the REAL LabelScheduleSource list them, poll after poll, on one source object:
  "tasks": [{"name", "decl": "register" | "decorator", "extra": {other task labels},
             "schedule": [{"cron", "off", "offkey", "args" (absent = key absent), "kwargs", "labels", "same": k}
                          | {"time": us} | {"junk": ...}]}],
  "polls": [{"now": us, "relist": bool, "newsrc": bool, "via": "source" | "run.get_schedules" | "get_all_schedules",
             "post_send": bool}],
  "src_first": the source object is constructed before the tasks are registered, "host".
At every poll the clock is set, the source is listed (or, "relist": false, the objects of the previous listing are kept:
built once, evaluated at many instants) and EVERY listed ScheduledTask is handed to the real get_task_delay, in the
order of the listing, as run_scheduler_loop does.  "post_send": the time schedules found due are passed to
source.post_send() afterwards (the loop's on_ready does that; the source then pops the label, so later labels move up).
Observation: {"polls": [{"listed": [{task_name, cron, offtype, off_us | off_zone, args, kwargs, time_us, delay | raised,
"same_obj_as_prev": the object at this position is the one evaluated at the previous poll}], ...}]}."""
import asyncio
import datetime as dt
import os
import time
import traceback

import pytz

import taskiq.cli.scheduler.run as run
import patchall
from taskiq import InMemoryBroker
from taskiq.schedule_sources.label_based import LabelScheduleSource
from taskiq.scheduler.scheduled_task import CronSpec, ScheduledTask
from taskiq.scheduler.scheduler import TaskiqScheduler

EP = dt.datetime(1970, 1, 1, tzinfo=dt.timezone.utc)
NOW = [EP]


HOST = [None]


def set_host(host):
    """make `host` the system time zone of this process (what TZ / /etc/localtime is on the scheduler machine)"""
    host = host or "UTC"
    if HOST[0] != host:
        os.environ["TZ"] = host
        time.tzset()
        HOST[0] = host


class VDT(dt.datetime):
    """datetime whose now()/utcnow() are the harness clock, answered the way the real class answers them:
    now(tz) = the instant in tz, utcnow() = naive UTC, now() = naive wall clock of the SYSTEM zone (TZ / tzset)"""

    @classmethod
    def now(cls, tz=None):
        if tz is None:
            loc = NOW[0].astimezone().replace(tzinfo=None)   # system local time: time.localtime(), honours tzset()
        else:
            loc = NOW[0].astimezone(tz)
        return cls.combine(loc.date(), loc.timetz())         # an instance of the class, as datetime.now() returns

    @classmethod
    def utcnow(cls):
        loc = NOW[0].replace(tzinfo=None)
        return cls.combine(loc.date(), loc.timetz())


def setup(opts):
    # (not `run.datetime = VDT`: the name may be bound to the datetime MODULE in another spelling of the imports)
    patchall.patch_attr(dt, "datetime", VDT, later_imports=True)   # wherever else the package reads the clock: the class under any name,
    #                                        or the datetime module itself under any name (import datetime as dt)


def td_us(d):
    return (d.days * 86400 + d.seconds) * 10**6 + d.microseconds


def run_case(c, opts):
    if "labelsrc" in c:
        return run_labelsrc(c["labelsrc"])
    if "group" in c:
        built = {} if c.get("objs") == "once" else None
        return {"group": [guarded(e, built) for e in c["group"]]}
    return run_one(c)


def guarded(e, built=None):
    try:
        return run_one(e, built)
    except Exception:  # a crash of one element is that element's observation; the rest of the group still runs
        return {"_crash": traceback.format_exc()[-2000:]}


def offset_value(off):
    if off is None:
        return None
    if off["kind"] == "td":
        return dt.timedelta(microseconds=off["us"])
    if off["kind"] == "zone":
        return off["zone"]
    raise ValueError(off)


def build_task(c):
    o = offset_value(c["off"])
    if c.get("spec") is not None:
        mi, h, dom, mon, dow = c["spec"]
        spec = CronSpec(minutes=mi, hours=h, days=dom, months=mon, weekdays=dow, offset=o)
        cron, o = spec.to_cron(), spec.offset
    else:
        cron = c["cron"]
    return ScheduledTask(task_name="t", labels={}, args=[], kwargs={}, cron=cron, cron_offset=o)


def run_one(c, built=None):
    NOW[0] = EP + dt.timedelta(microseconds=c["now"])
    set_host(c.get("host"))
    if built is None:
        t = build_task(c)
    else:   # built once per distinct schedule of the group, evaluated at every instant that names it
        key = repr((c.get("cron"), c.get("spec"), c["off"]))
        t = built.get(key)
        if t is None:
            t = built[key] = build_task(c)
    return evaluate(t, bool(c.get("host")))


def evaluate(t, with_host=False):
    obs = {"cron": t.cron, "offtype": type(t.cron_offset).__name__}
    if with_host:   # evidence only: what the C library makes of the host zone at this instant
        obs["host_off_us"] = td_us(NOW[0].astimezone().utcoffset())
        obs["local_now"] = VDT.now().isoformat()
    if isinstance(t.cron_offset, dt.timedelta):
        obs["off_us"] = td_us(t.cron_offset)
    elif isinstance(t.cron_offset, str):
        obs["off_zone"] = t.cron_offset
        try:  # what pytz itself says the offset is at this instant (compared with the zoneinfo reader by the check)
            obs["pytz_off_us"] = td_us(NOW[0].astimezone(pytz.timezone(t.cron_offset)).utcoffset())
        except Exception as e:  # unknown zone in the malformed stream
            obs["pytz_err"] = type(e).__name__
    try:
        r = run.get_task_delay(t)
    except Exception as e:
        obs["raised"] = type(e).__name__
        obs["caught_by_loop"] = isinstance(e, ValueError)   # run_scheduler_loop catches ValueError only
        obs["msg"] = str(e)[:120]
        return obs
    if r is None:
        obs["delay"] = None
    elif type(r) is int:
        obs["delay"] = r
    else:
        obs["delay"] = repr(r)
        obs["badtype"] = True
    return obs


# --------------------------------------------------------------------------- schedules declared as task labels
LOOP = [None]


def aw(coro):
    if LOOP[0] is None:
        LOOP[0] = asyncio.new_event_loop()
    return LOOP[0].run_until_complete(coro)


def _body(*a, **k):
    return None


def label_dicts(labels):
    out = []
    for l in labels:
        if l.get("same") is not None:      # the very same dict object listed twice
            out.append(out[l["same"]])
            continue
        d = {}
        if "cron" in l:
            d["cron"] = l["cron"]
            if l["off"] is not None or l.get("offkey"):
                d["cron_offset"] = offset_value(l["off"])
        if "time" in l:
            d["time"] = EP + dt.timedelta(microseconds=l["time"])
        for k in ("args", "kwargs", "labels", "junk"):
            if k in l:
                d[k] = l[k]
        out.append(d)
    return out


def jsonable(x):
    try:
        import json
        return json.loads(json.dumps(x))
    except Exception:
        return repr(x)


def run_labelsrc(L):
    set_host(L.get("host"))
    NOW[0] = EP + dt.timedelta(microseconds=L["polls"][0]["now"])
    broker = InMemoryBroker()
    src = LabelScheduleSource(broker) if L.get("src_first") else None
    for t in L["tasks"]:
        dicts = label_dicts(t["schedule"])
        extra = dict(t.get("extra") or {})
        if t.get("decl") == "decorator":
            broker.task(task_name=t["name"], schedule=dicts, **extra)(_body)
        else:
            broker.register_task(_body, task_name=t["name"], schedule=dicts, **extra)
    if src is None:
        src = LabelScheduleSource(broker)
    scheduler = TaskiqScheduler(broker, [src])
    listed, prev, out = None, [], []
    for p in L["polls"]:
        NOW[0] = EP + dt.timedelta(microseconds=p["now"])
        po = {}
        try:
            if p.get("newsrc"):
                src = LabelScheduleSource(broker)
                scheduler = TaskiqScheduler(broker, [src])
            relisted = listed is None or p.get("relist", True)
            if relisted:
                via = p.get("via") or "source"
                if via == "get_all_schedules":     # what run_scheduler_loop calls
                    listed = list(aw(run.get_all_schedules(scheduler))[src])
                elif via == "run.get_schedules":
                    listed = list(aw(run.get_schedules(src)))
                else:
                    listed = list(aw(src.get_schedules()))
            po["relisted"] = bool(relisted)
            obs = []
            for k, t in enumerate(listed):
                o = evaluate(t)
                o["task_name"] = t.task_name
                o["args"], o["kwargs"] = jsonable(t.args), jsonable(t.kwargs)
                if t.time is not None:
                    o["time_us"] = td_us((t.time if t.time.tzinfo is not None else t.time.replace(tzinfo=dt.timezone.utc)) - EP)
                o["same_obj_as_prev"] = k < len(prev) and prev[k] is t
                obs.append(o)
            po["listed"] = obs
            if p.get("post_send"):   # what on_ready does after a send: the source forgets a time label that was sent
                for t, o in zip(listed, obs):
                    if t.cron is None and o.get("delay") is not None and "raised" not in o:
                        r = src.post_send(t)
                        if asyncio.iscoroutine(r):
                            aw(r)
            prev = list(listed)
        except Exception:
            po["_crash"] = traceback.format_exc()[-2000:]
        out.append(po)
    if L.get("host"):
        hoff = td_us(NOW[0].astimezone().utcoffset())
    else:
        hoff = None
    return {"polls": out, "host_off_us": hoff}
