"""Implementation driver for C13: the real get_task_delay (cron branch) under a controlled wall clock.

A case: {"now": us since the epoch (UTC), "cron": five-field string, "off": None | {"kind": "td", "us": n} |
{"kind": "zone", "zone": name}, optional "spec": [five values, str or int] -> the expression is built by
taskiq's CronSpec(...).to_cron() and the offset travels through CronSpec.offset, as AsyncKicker.schedule_by_cron
does}.  A case {"group": [case, case, ...]} is a back-to-back group: its elements are evaluated one after the other in
THIS process in the given order (what a long-lived scheduler does tick after tick - anything get_task_delay keeps
between calls is shared by them); the observation is {"group": [observation, ...]}.  Because the whole group is one
case, the grouping does not depend on how the harness shards the case list.  Only observations of /repo code (and of pytz, which it calls) are returned; the oracle side (zoneinfo reader,
matcher) lives in harness/props/C13.py.

A case (or group element) may carry "host": the time zone of the machine the scheduler runs on (a POSIX TZ string such as
"MSK-3" / "EST5EDT" / "IST-5:30", or an IANA name resolved by the C library; absent / None = "UTC", the harness
environment).  It is installed with os.environ["TZ"] + time.tzset() before the real code is called, and the controlled
clock answers exactly like the real datetime class on such a host: now(tz) / utcnow() report the instant, now() WITHOUT
tz the naive local wall clock of the host zone."""
import datetime as dt
import os
import time
import traceback

import pytz

import taskiq.cli.scheduler.run as run
import patchall
from taskiq.scheduler.scheduled_task import CronSpec, ScheduledTask

EP = dt.datetime(1970, 1, 1, tzinfo=dt.timezone.utc)
NOW = [EP]


HOST = [None]


def set_host(host):
    """make `host` the system time zone of this process (what TZ / /etc/localtime is on the scheduler machine)"""
    host = host or "UTC"
    if HOST[0] != host:
        os.environ["TZ"] = host
        time.tzset()
        HOST[0] = host


class VDT(dt.datetime):
    """datetime whose now()/utcnow() are the harness clock, answered the way the real class answers them:
    now(tz) = the instant in tz, utcnow() = naive UTC, now() = naive wall clock of the SYSTEM zone (TZ / tzset)"""

    @classmethod
    def now(cls, tz=None):
        if tz is None:
            loc = NOW[0].astimezone().replace(tzinfo=None)   # system local time: time.localtime(), honours tzset()
        else:
            loc = NOW[0].astimezone(tz)
        return cls.combine(loc.date(), loc.timetz())         # an instance of the class, as datetime.now() returns

    @classmethod
    def utcnow(cls):
        loc = NOW[0].replace(tzinfo=None)
        return cls.combine(loc.date(), loc.timetz())


def setup(opts):
    run.datetime = VDT
    patchall.patch_attr(dt, "datetime", VDT)   # wherever else the package reads the clock: the class under any name,
    #                                        or the datetime module itself under any name (import datetime as dt)


def td_us(d):
    return (d.days * 86400 + d.seconds) * 10**6 + d.microseconds


def run_case(c, opts):
    if "group" in c:
        return {"group": [guarded(e) for e in c["group"]]}
    return run_one(c)


def guarded(e):
    try:
        return run_one(e)
    except Exception:  # a crash of one element is that element's observation; the rest of the group still runs
        return {"_crash": traceback.format_exc()[-2000:]}


def run_one(c):
    NOW[0] = EP + dt.timedelta(microseconds=c["now"])
    set_host(c.get("host"))
    off = c["off"]
    if off is None:
        o = None
    elif off["kind"] == "td":
        o = dt.timedelta(microseconds=off["us"])
    elif off["kind"] == "zone":
        o = off["zone"]
    else:
        raise ValueError(off)
    if c.get("spec") is not None:
        mi, h, dom, mon, dow = c["spec"]
        spec = CronSpec(minutes=mi, hours=h, days=dom, months=mon, weekdays=dow, offset=o)
        cron, o = spec.to_cron(), spec.offset
    else:
        cron = c["cron"]
    t = ScheduledTask(task_name="t", labels={}, args=[], kwargs={}, cron=cron, cron_offset=o)
    obs = {"cron": t.cron, "offtype": type(t.cron_offset).__name__}
    if c.get("host"):   # evidence only: what the C library makes of the host zone at this instant
        obs["host_off_us"] = td_us(NOW[0].astimezone().utcoffset())
        obs["local_now"] = VDT.now().isoformat()
    if isinstance(t.cron_offset, dt.timedelta):
        obs["off_us"] = td_us(t.cron_offset)
    elif isinstance(t.cron_offset, str):
        obs["off_zone"] = t.cron_offset
        try:  # what pytz itself says the offset is at this instant (compared with the zoneinfo reader by the check)
            obs["pytz_off_us"] = td_us(NOW[0].astimezone(pytz.timezone(t.cron_offset)).utcoffset())
        except Exception as e:  # unknown zone in the malformed stream
            obs["pytz_err"] = type(e).__name__
    try:
        r = run.get_task_delay(t)
    except Exception as e:
        obs["raised"] = type(e).__name__
        obs["caught_by_loop"] = isinstance(e, ValueError)   # run_scheduler_loop catches ValueError only
        obs["msg"] = str(e)[:120]
        return obs
    if r is None:
        obs["delay"] = None
    elif type(r) is int:
        obs["delay"] = r
    else:
        obs["delay"] = repr(r)
        obs["badtype"] = True
    return obs
