"""Implementation driver for C08: one full trip of a call through the real taskiq code.

    task.kiq(*args, **kwargs)                      (real AsyncKicker: _prepare_arg / _prepare_message)
      -> broker.formatter.dumps(message)           (real ProxyFormatter / JSONFormatter, JSON / pickle serializer - the
                                                    objects the broker's own constructor installed, or hand-built ones:
                                                    see make_broker)
      -> bytes -> Receiver.callback(bytes)         (real loads, parse_params, dependency resolution, run_task)
      -> the generated task function's body        (captures locals() at entry)

Nothing of taskiq is re-implemented here.  Besides the trip the driver reports, for the oracle and for the model's
conversion table, pydantic's OWN answer for every (annotation of the signature, value on the wire) pair - asked of the
library directly (pydantic.TypeAdapter(annotation).validate_python; pydantic.parse_obj_as on pydantic 1), NEVER through
taskiq.compat.parse_obj_as: "converted to the annotated type when convertible" is pydantic's notion, and a table filled
through /repo's wrapper would inherit whatever the wrapper does wrong (a lossy shortcut such as int(2.5)) on the expected
side as well.  Also CPython's own opinion about the call (inspect.Signature.bind with tokens) and get_type_hints' keys."""
import dataclasses
import datetime
import enum
import inspect
import json
import typing
from typing import Annotated, Any, Dict, List, Optional, Union  # noqa: F401  (used by generated sources)

import pydantic

import vloop
from taskiq import AckableMessage, AsyncBroker, Context, TaskiqDepends, async_shared_broker  # noqa: F401
from taskiq.brokers.inmemory_broker import InMemoryBroker, InmemoryResultBackend
from taskiq.compat import parse_obj_as

# The conversions parse_params asks for are observed through ONE trampoline put in by identity wherever taskiq.receiver
# reaches taskiq.compat.parse_obj_as (the function under any name, or the compat module under any name); a call installs its
# logger in _PARSE_HOOK for its own duration.
_PARSE_HOOK = [None]


def _parse_tramp(*a, **k):
    h = _PARSE_HOOK[0]
    return h(*a, **k) if h is not None else parse_obj_as(*a, **k)


def _install_parse_tramp():
    import patchall
    import taskiq.compat as _compat
    patchall.patch_attr(_compat, "parse_obj_as", _parse_tramp, prefix="taskiq.receiver")

from taskiq.formatters.json_formatter import JSONFormatter
from taskiq.formatters.proxy_formatter import ProxyFormatter
from taskiq.message import BrokerMessage
from taskiq.receiver import Receiver, params_parser
from taskiq.serializers.json_serializer import JSONSerializer
from taskiq.serializers.pickle import PickleSerializer


# --------------------------------------------------------------------------- types the generated signatures use
class M1(pydantic.BaseModel):
    x: int
    y: str = "q"


class M2(pydantic.BaseModel):
    items: List[int]
    inner: Optional[M1] = None


class M3(pydantic.BaseModel):
    """fields whose python form is not their JSON form (model_dump(mode="json") matters)"""

    t: typing.Tuple[int, int]
    when: datetime.date


@dataclasses.dataclass
class D1:
    x: int
    y: List[int] = dataclasses.field(default_factory=list)


@dataclasses.dataclass
class D2:
    name: str
    d: Optional[D1] = None


class X:
    """a class pydantic cannot build a schema for"""


class NZ:
    """a type with its own pydantic validator that accepts None: the only kind of annotation on which passing None
    through parse_obj_as is visible in the received value (parse_params must leave a None alone)"""

    @classmethod
    def __get_pydantic_core_schema__(cls, source, handler):
        from pydantic_core import core_schema

        return core_schema.no_info_plain_validator_function(lambda v: 0 if v is None else int(v))


class DepVal:
    """what a generated dependency function returns"""

    def __init__(self, name):
        self.name = name


class _Default:
    pass


DFLT = _Default()
_ADAPTERS = {}


def reference_parse(tn, value):
    """pydantic's conversion of `value` to the annotation named `tn`, independent of /repo (see the module docstring).
    Building the adapter may itself raise (annotation `X`: no schema) - like taskiq's wrapper, that happens at call time."""
    if hasattr(pydantic, "TypeAdapter"):
        ad = _ADAPTERS.get(tn)
        if ad is None:
            ad = _ADAPTERS[tn] = pydantic.TypeAdapter(ANNS[tn])
        return ad.validate_python(value)
    return pydantic.parse_obj_as(ANNS[tn], value)  # pragma: no cover  (pydantic 1)


# annotation name -> registry name of a class built for one group of calls (same-named twins, see register_types);
# identity-keyed: two twins have the same __name__ / __qualname__ / repr and must still be told apart
TWIN_NAME = {}


def tname(cls):
    return TWIN_NAME.get(cls, cls.__name__)


ANNS = {
    "int": int, "str": str, "float": float, "bool": bool, "List[int]": List[int], "Dict[str,int]": Dict[str, int],
    "Optional[int]": Optional[int], "Any": Any, "M1": M1, "M2": M2, "D1": D1, "D2": D2, "X": X,
    "Union[int,str]": Union[int, str], "None": type(None), "List[M1]": List[M1], "Context": Context,
    "BaseModel": pydantic.BaseModel, "NZ": NZ, "M3": M3, "List[str]": List[str], "Dict[str,str]": Dict[str, str],
}
ANN_SRC = dict({k: k for k in ANNS}, **{"Dict[str,int]": "Dict[str, int]", "Union[int,str]": "Union[int, str]",
                                        "BaseModel": "pydantic.BaseModel", "Dict[str,str]": "Dict[str, str]"})
MODELS = {"M1": M1, "M2": M2, "M3": M3}
DCS = {"D1": D1, "D2": D2}


# --------------------------------------------------------------------------- canonical form of python values
class Frozen:
    """canonical form of a value, taken at the entry of a task function that goes on to change its arguments in place"""

    def __init__(self, c):
        self.c = c


def canon(v):
    if v is None:
        return ["none"]
    if isinstance(v, Frozen):
        return v.c
    if v is DFLT:
        return ["default"]
    if isinstance(v, DepVal):
        return ["dep", v.name]
    if isinstance(v, Context):
        return ["ctx"]
    if isinstance(v, enum.Enum):            # before int / str: members of mixin enums are ints / strs too
        return ["enum", tname(type(v)), v.name, canon(v.value)]
    if isinstance(v, bool):
        return ["bool", v]
    if isinstance(v, int):
        return ["int", str(v)]
    if isinstance(v, float):
        return ["float", v.hex()]
    if isinstance(v, str):
        return ["str", v]
    if isinstance(v, (bytes, bytearray)):
        return [type(v).__name__, v.hex()]
    if isinstance(v, list):
        return ["list", [canon(x) for x in v]]
    if isinstance(v, tuple) and hasattr(type(v), "_fields"):
        return ["namedtuple", tname(type(v)), canon(dict(zip(type(v)._fields, v)))]
    if isinstance(v, tuple):
        return ["tuple", [canon(x) for x in v]]
    if isinstance(v, dict):
        return ["dict", sorted([[json.dumps(canon(k), sort_keys=True), canon(x)] for k, x in v.items()])]
    if isinstance(v, pydantic.BaseModel):
        return ["model", tname(type(v)), canon({k: getattr(v, k) for k in type(v).model_fields})]
    if dataclasses.is_dataclass(v) and not isinstance(v, type):
        return ["dc", tname(type(v)), canon({f.name: getattr(v, f.name) for f in dataclasses.fields(v)})]
    return ["other", type(v).__name__, repr(v)[:80]]


def build(spec):
    """value spec -> python object"""
    if "j" in spec:
        return spec["j"]
    if "model" in spec:
        return MODELS[spec["model"]](**{k: build(x) for k, x in spec["kw"].items()})
    if "dc" in spec:
        return DCS[spec["dc"]](**{k: build(x) for k, x in spec["kw"].items()})
    if "dctype" in spec:
        return DCS[spec["dctype"]]
    if "l" in spec:
        return [build(x) for x in spec["l"]]
    raise ValueError(spec)


def dict_form(obj):
    """the dict form the statement speaks about, NOT computed through taskiq: pydantic's JSON dump / dataclasses.asdict
    (recursively: a model inside a list or a dataclass also travels as a dict)"""
    if isinstance(obj, pydantic.BaseModel):
        return json.loads(obj.model_dump_json())
    if dataclasses.is_dataclass(obj) and not isinstance(obj, type):
        return dict_form(dataclasses.asdict(obj))
    if isinstance(obj, list):
        return [dict_form(x) for x in obj]
    if isinstance(obj, dict):
        return {k: dict_form(x) for k, x in obj.items()}
    return obj


def top_form(obj):
    if isinstance(obj, pydantic.BaseModel):
        return json.loads(obj.model_dump_json())
    if dataclasses.is_dataclass(obj) and not isinstance(obj, type):
        return dataclasses.asdict(obj)
    return obj


# --------------------------------------------------------------------------- generated task functions
def source(case):
    parts, star = [], False
    for p in case["params"]:
        k, name, ann, dep = p["kind"], p["name"], p.get("ann"), p.get("dep")
        if k == "kw" and not star:
            parts.append("*")
            star = True
        a = ANN_SRC[ann] if ann is not None else None
        dflt = "DFLT" if p.get("default") else None
        if dep == "default":
            dflt = "TaskiqDepends(dep_%s)" % name
        elif dep == "context":
            a, dflt = "Context", "TaskiqDepends()"
        elif dep == "annotated":
            a, dflt = "Annotated[%s, TaskiqDepends(dep_%s)]" % (a or "int", name), None
        s = {"pos": "", "kw": "", "varpos": "*", "varkw": "**"}[k] + name
        if k == "varpos":
            star = True
        if a is not None:
            s += ": " + a
        if dflt is not None:
            s += " = " + dflt
        parts.append(s)
    ret = " -> " + ANN_SRC[case["ret"]] if case.get("ret") else ""
    body = "    CAP.append(dict(locals()))\n"
    if case.get("mutate"):
        # a task function that works on its arguments IN PLACE (they are its own, decoded from the wire).  What arrived is
        # recorded at entry, in canonical form, BEFORE anything is changed.
        body = "    _seen = dict(locals())\n    CAP.append(ENTRY(_seen))\n    MUTATE(%r, _seen, CAP)\n" % case["mutate"]
    return "%sdef f(%s)%s:\n%s" % ("async " if case.get("async", True) else "", ", ".join(parts), ret, body)


class CapList(list):
    """what the bodies of one generated function recorded at entry; .mut: per execution, how many containers / objects
    among its arguments the body then changed in place"""

    def __init__(self):
        super().__init__()
        self.mut = []


def ENTRY(seen):  # noqa: N802
    out = {}
    for k, v in seen.items():
        if type(v) is tuple:                 # *args
            out[k] = tuple(Frozen(canon(x)) for x in v)
        elif type(v) is dict:                # a dict argument or **kwargs: `call` reads either through canon / .items()
            out[k] = {n: Frozen(canon(x)) for n, x in v.items()}
        else:
            out[k] = Frozen(canon(v))
    return out


MUTATIONS = ["grow", "shrink", "clear", "reverse", "overwrite", "sort"]


def mutate(v, mode):
    """change `v` in place, all the way down, the way a task function may treat its own arguments; returns how many
    containers / objects were changed.  Never raises."""
    n = 0
    if isinstance(v, list):
        for x in list(v):
            n += mutate(x, mode)
        if mode == "grow":
            v.append("mutated")
        elif mode == "shrink" and v:
            v.pop()
        elif mode == "clear" and v:
            v.clear()
        elif mode == "reverse" and len(v) > 1:
            v.reverse()
        elif mode == "overwrite" and v:
            v[0] = ["mutated", v[0]]
        elif mode == "sort" and len(v) > 1:
            v.sort(key=lambda x: json.dumps(canon(x), sort_keys=True), reverse=True)
            v.insert(0, v.pop())
        else:
            return n
        return n + 1
    if isinstance(v, dict):
        for x in list(v.values()):
            n += mutate(x, mode)
        if mode in ("grow", "sort"):
            v["attempts"] = v["attempts"] + 1 if type(v.get("attempts")) is int else 1
        elif mode == "shrink" and v:
            v.pop(next(iter(v)))
        elif mode == "clear" and v:
            v.clear()
        elif mode in ("overwrite", "reverse") and v:
            k = next(iter(v))
            v[k] = ["mutated", v[k]]
        else:
            return n
        return n + 1
    if isinstance(v, tuple):
        return sum(mutate(x, mode) for x in v)
    fields = None
    if isinstance(v, pydantic.BaseModel):
        fields = list(type(v).model_fields)
    elif dataclasses.is_dataclass(v) and not isinstance(v, type):
        fields = [f.name for f in dataclasses.fields(v)]
    if fields:
        for k in fields:
            n += mutate(getattr(v, k, None), mode)
        if mode == "overwrite":
            try:
                setattr(v, fields[0], "mutated")
                n += 1
            except Exception:  # noqa: BLE001  (frozen class)
                pass
    return n


def MUTATE(mode, seen, cap):  # noqa: N802
    n = 0
    for v in seen.values():
        n += mutate(v, mode)
    cap.mut.append(n)


class CapBroker(AsyncBroker):
    def __init__(self):
        super().__init__()
        self.sent = []

    async def kick(self, message):
        self.sent.append(message)

    async def listen(self):
        return
        yield b""  # pragma: no cover


def py_bind(fn, case, nargs, kwnames):
    """CPython's own binding of the call as it will be made: positional tokens, resolved dependencies, message kwargs"""
    deps = {p["name"]: ["dep", p["name"]] for p in case["params"] if p.get("dep")}
    kw = dict(deps)
    kw.update({n: ["kw", n] for n in kwnames})
    try:
        ba = inspect.signature(fn).bind(*[["pos", i] for i in range(nargs)], **kw)
    except TypeError as e:
        return None, str(e)
    out = {}
    for p in case["params"]:
        n = p["name"]
        if n not in ba.arguments:
            out[n] = ["default"] if p["kind"] in ("pos", "kw") else (["star", []] if p["kind"] == "varpos" else ["starstar", []])
        elif p["kind"] == "varpos":
            out[n] = ["star", [t[1] for t in ba.arguments[n]]]
        elif p["kind"] == "varkw":
            out[n] = ["starstar", sorted(ba.arguments[n])]
        else:
            out[n] = ba.arguments[n]
    return out, None


def define(case, out):
    """exec the generated source of one case; returns (function, the list its body appends locals() to)"""
    CAP = CapList()
    ns = dict(globals())
    ns["CAP"] = CAP
    for p in case["params"]:
        if p.get("dep") in ("default", "annotated"):
            ns["dep_" + p["name"]] = (lambda nm: (lambda: DepVal(nm)))(p["name"])
    src = source(case)
    exec(src, ns)  # noqa: S102
    fn = ns["f"]
    out["src"] = src
    real_hints = typing.get_type_hints(fn)
    hints = []
    for p in case["params"]:
        if p["name"] in real_hints:
            tn = "Context" if p.get("dep") == "context" else (p.get("ann") or "int")
            if real_hints[p["name"]] != ANNS[tn]:
                raise RuntimeError("get_type_hints(%s) = %r, generated %s" % (p["name"], real_hints[p["name"]], tn))
            hints.append([p["name"], tn])
    if "return" in real_hints:
        hints.append(["return", case["ret"]])
    out["hints"] = hints
    return fn, CAP


def make_broker(fmt, ser, broker=None):
    """formatter x serializer of the broker the call goes through.
    ser: "default" = the broker keeps the serializer ITS OWN CONSTRUCTOR installed (AsyncBroker.__init__, reached through the
    CapBroker / InMemoryBroker subclasses) - what every application that configures nothing runs with; "json" / "pickle" = a
    JSONSerializer() / PickleSerializer() built here and handed over through with_serializer.
    fmt: "proxy" (or None) = the formatter the constructor installed is left alone (ProxyFormatter(broker)); "proxy_built" =
    a ProxyFormatter(broker) built here and handed over through with_formatter; "json" = JSONFormatter()."""
    if broker is None:
        broker = CapBroker().with_result_backend(InmemoryResultBackend())
    if ser != "default":
        broker = broker.with_serializer(PickleSerializer() if ser == "pickle" else JSONSerializer())
    if fmt == "json":
        broker = broker.with_formatter(JSONFormatter())
    elif fmt == "proxy_built":
        broker = broker.with_formatter(ProxyFormatter(broker))
    captured = broker.captured = []
    real_dumps = broker.formatter.dumps

    def dumps(message):
        captured.append((canon(message), [canon(v) for v in message.args],
                         [[k, canon(v)] for k, v in message.kwargs.items()], message))
        return real_dumps(message)

    broker.formatter.dumps = dumps
    return broker


async def trip(case):
    out = {}
    fn, CAP = define(case, out)
    broker = make_broker(case.get("fmt"), case.get("ser"))
    task = broker.register_task(fn, task_name="t")
    return await call(case, out, fn, CAP, broker, task,
                      lambda: Receiver(broker, validate_params=bool(case.get("validate", True))))


async def call(case, out, fn, CAP, broker, task, get_receiver, registry=None, worker=None, deliver=None, seq=None):
    """one call of `task` through kiq -> wire -> the receiver.  `broker` is the broker the kick lands on.  Ordinary call:
    `fn` (registered with `broker`) is the function under test and `CAP` its capture list.  registry = (defs, target):
    the call is made in a process where several functions are registered (see registry_trip); which of them the receiver
    ran is read off their capture lists (each body appends to its own) and the observation - hints, pydantic's table,
    CPython's binding, received values - is taken against THAT function (against defs[target] when none ran).
    deliver: how the message reaches a receiver when that is not `get_receiver().callback(bytes)` (life-cycle groups: the
    real InMemoryBroker.kick -> whatever `broker.receiver` is at that moment).
    seq = (Deliveries, j): the call is step j of a sequence that may deliver one wire message more than once (see
    redelivery_trip): case["again"] = i - nothing is sent, the broker message of step i is delivered once more;
    case["task_id"] - sent through task.kicker().with_task_id(..); case["kicker"] = i - through the kicker object of step i."""
    if registry is not None:
        out["executed"], out["judged"] = [], registry[1]
        out["src"], out["hints"] = registry[0][registry[1]][1]["src"], registry[0][registry[1]][1]["hints"]
    out["broker_conf"] = [type(broker).__mro__[1].__name__ if type(broker) in (CapBroker, LifeBroker) else type(broker).__name__,
                          type(broker.formatter).__name__, type(broker.serializer).__name__]
    args = [build(s) for s in case["args"]]
    kwargs = {k: build(s) for k, s in case["kwargs"]}
    has_type = any(isinstance(a, type) for a in list(args) + list(kwargs.values()))
    if not has_type:
        # what must be on the wire (recursive dict form) and what _prepare_message must produce (top level only:
        # "everything else untouched" - a list holding a model is left to the formatter)
        out["dict_forms"] = {"args": [canon(dict_form(a)) for a in args],
                             "kwargs": [[k, canon(dict_form(v))] for k, v in kwargs.items()]}
    tf = lambda a: ["dctype"] if isinstance(a, type) else canon(top_form(a))  # noqa: E731
    out["prepared_forms"] = {"args": [tf(a) for a in args], "kwargs": [[k, tf(v)] for k, v in kwargs.items()]}
    nsent, ncap = len(broker.sent), len(broker.captured)
    if case.get("again") is not None:
        bm, captured = seq[0].sent[case["again"]]       # a redelivery: the broker message of an earlier step, not sent again
    else:
        try:
            if case.get("kicker") is not None:
                await seq[0].kickers[case["kicker"]].kiq(*args, **kwargs)
            elif case.get("task_id") is not None:
                kicker = task.kicker().with_task_id(case["task_id"])
                seq[0].kickers[seq[1]] = kicker
                await kicker.kiq(*args, **kwargs)
            else:
                await task.kiq(*args, **kwargs)
        except BaseException as e:  # noqa: BLE001
            out["kiq"] = "raised:" + type(e).__name__
            out["kiq_msg"] = str(e)[:200]
            return out
        if len(broker.sent) != nsent + 1 or len(broker.captured) != ncap + 1:
            raise RuntimeError("one kiq() sent %d messages / dumped %d" % (len(broker.sent) - nsent, len(broker.captured) - ncap))
        bm, captured = broker.sent[-1], broker.captured[-1]
        if seq is not None:
            seq[0].sent[seq[1]] = (bm, captured)
    out["kiq"] = "ok"
    whole, pargs, pkwargs, message = captured
    out["prepared"] = {"args": pargs, "kwargs": pkwargs}
    out["wire_type"] = type(bm.message).__name__
    loaded = broker.formatter.loads(bm.message)
    out["wire"] = {"args": [canon(v) for v in loaded.args], "kwargs": [[k, canon(v)] for k, v in loaded.kwargs.items()]}
    out["roundtrip_eq"] = bool(loaded == message)
    out["roundtrip_canon_eq"] = canon(loaded) == whole
    rest = lambda m: canon({k: getattr(m, k) for k in type(m).model_fields if k not in ("args", "kwargs")})  # noqa: E731
    out["roundtrip_rest_eq"] = rest(loaded) == rest(message)

    def table_and_bind(case, fn):
        # pydantic itself (not taskiq.compat) on every (annotation in the signature, value on the wire)
        table = []
        seen = set()
        for _, tn in out["hints"]:
            for v in list(loaded.args) + list(loaded.kwargs.values()):
                cv = canon(v)
                key = tn + "|" + json.dumps(cv, sort_keys=True)
                if key in seen:
                    continue
                seen.add(key)
                try:
                    table.append([tn, cv, "val", canon(reference_parse(tn, v))])
                except (ValueError, RuntimeError) as e:
                    table.append([tn, cv, "swallowed", type(e).__name__])
                except BaseException as e:  # noqa: BLE001
                    table.append([tn, cv, "raise", type(e).__name__])
        out["conv"] = table
        out["pybind"], out["pybind_err"] = py_bind(fn, case, len(loaded.args), list(loaded.kwargs))

    if registry is None:
        table_and_bind(case, fn)
        n0 = len(CAP)
    else:
        n0 = [len(d[3]) for d in registry[0]]
    receiver = get_receiver() if deliver is None else None
    consulted = out["consulted"] = []

    def logging_parse_obj_as(annot, value):
        names = [k for k, t in ANNS.items() if t == annot]
        consulted.append([names[0] if names else "?" + repr(annot), canon(value)])
        return parse_obj_as(annot, value)

    exc = None
    how = case.get("how")
    data = bm.message
    if seq is not None:
        out["same_bytes_delivered_before"], out["mutated_by_earlier_deliveries"] = seq[0].seen.get(bytes(data), [0, 0])
    if how in ("equal_copy", "ackable_copy"):
        data = bytes(bytearray(data))                  # equal bytes, another object
        if data is bm.message:
            raise RuntimeError("no distinct copy of the wire bytes")
    _PARSE_HOOK[0] = logging_parse_obj_as
    try:
        if deliver is not None:
            await deliver(bm if data is bm.message else BrokerMessage(task_id=bm.task_id, task_name=bm.task_name, message=data,
                                                                      labels=bm.labels))
        elif how in ("ackable", "ackable_copy"):
            acks = []
            await receiver.callback(AckableMessage(data=data, ack=lambda: acks.append(1)))
            out["acks"] = len(acks)
        else:
            await receiver.callback(data)
    except BaseException as e:  # noqa: BLE001
        exc = e
    finally:
        _PARSE_HOOK[0] = None
    # the statement's last sentence holds of EVERY decode: the same bytes decoded once more, after the task function has
    # done whatever it does to the values it was given, still yield a message equal to the encoded one
    again = broker.formatter.loads(bm.message)
    out["wire_after"] = {"args": [canon(v) for v in again.args], "kwargs": [[k, canon(v)] for k, v in again.kwargs.items()]}
    out["roundtrip_after_eq"] = bool(again == message) and canon(again) == whole
    out["roundtrip_after_rest_eq"] = rest(again) == rest(message)
    if registry is None:
        new = CAP[n0:]
    else:
        defs, target = registry
        ran = [i for i, d in enumerate(defs) if len(d[3]) > n0[i]]
        out["executed"] = ran                    # which function bodies this one message entered
        k = out["judged"] = ran[0] if ran else target
        fd, od, fn, cap = defs[k]
        case = dict(case, params=fd["params"], ret=fd.get("ret"))
        out["src"], out["hints"] = od["src"], od["hints"]
        new = cap[n0[k]:]
        table_and_bind(case, fn)
    mut = getattr(CAP if registry is None else cap, "mut", [])      # one entry per execution of a mutating function
    out["mutated"] = sum(mut[len(mut) - len(new):]) if new and mut else 0
    if seq is not None:
        e = seq[0].seen.setdefault(bytes(bm.message), [0, 0])
        e[0] += 1
        e[1] += out["mutated"]
    if exc is not None:
        out["outcome"] = "raised"
        out["exc"] = type(exc).__name__
        return out
    if new:
        out["outcome"] = "invoked"
        out["calls"] = len(new)
        rec = {}
        for p in case["params"]:
            v = new[0][p["name"]]
            if p["kind"] == "varpos":
                rec[p["name"]] = ["star", [canon(x) for x in v]]
            elif p["kind"] == "varkw":
                rec[p["name"]] = ["starstar", [[k, canon(x)] for k, x in v.items()]]
            else:
                rec[p["name"]] = canon(v)
        out["received"] = rec
        out["extra_locals"] = sorted(set(new[0]) - {p["name"] for p in case["params"]})
        return out
    backend = (worker or broker).result_backend
    ready = await backend.is_result_ready(bm.task_id)
    if ready:
        res = await backend.get_result(bm.task_id)
        if res.is_err and isinstance(res.error, TypeError):
            out["outcome"] = "typeerror"
            out["exc"] = str(res.error)[:200]
            return out
        out["outcome"] = "other"
        out["exc"] = repr(res.error)[:200]
        return out
    out["outcome"] = "other"
    out["exc"] = "no call, no result"
    return out


# --------------------------------------------------------------------------- groups of calls over same-named types
# A group case {"types": {registry name: spec}, "steps": [ordinary cases], "shared": bool, ...} is a SEQUENCE run in this
# one process: the steps' signatures are annotated with classes built here from the specs - distinct class objects that
# share __name__ / __qualname__ / __module__ / repr() / str() (two `Status` enums, two factory-built `Payload` models or
# dataclasses, NewType / TypedDict / NamedTuple of one name) but differ in members / fields - bare or inside
# List / Optional / Dict.  A worker process converts the arguments of many tasks one after the other; whatever it keeps
# between calls (adapters, signatures, hints) must be kept per annotation OBJECT.  Each step is judged on its own
# against pydantic applied directly to the step's own class (reference_parse, adapters dropped when the group ends).
# shared = one broker and ONE Receiver (constructed after all the group's tasks are registered, as in a worker) for
# all steps; otherwise a fresh broker + receiver per step.
FIELD_ANNS = {"int": int, "str": str, "float": float, "bool": bool, "List[int]": List[int], "Optional[int]": Optional[int]}
FIELD_SRC = {k: k for k in FIELD_ANNS}
WRAPS = {"List[%s]": lambda t: List[t], "Optional[%s]": lambda t: Optional[t], "Dict[str,%s]": lambda t: Dict[str, t]}


def _class_by_factory(spec, deco, base):
    """class statement inside a function (a class factory): qualname `make.<locals>.Name`, module as given"""
    lines = ["def make():", "    %sclass %s%s:" % (deco, spec["name"], base)]
    for f in spec["fields"]:
        lines.append("        %s: %s" % (f[0], FIELD_SRC[f[1]]) + (" = %r" % (f[2],) if len(f) > 2 else ""))
    lines.append("    return %s" % spec["name"])
    ns = {"pydantic": pydantic, "dataclasses": dataclasses, "List": List, "Optional": Optional,
          "__name__": spec.get("module") or __name__}
    exec("\n".join(lines) + "\n", ns)  # noqa: S102
    return ns["make"]()


def build_type(spec):
    k, name, module = spec["k"], spec["name"], spec.get("module") or __name__
    if k == "enum":
        members = [(m, v) for m, v in spec["members"]]
        mix = {"str": str, "int": int}.get(spec.get("mixin"))
        return enum.Enum(name, members, module=module, type=mix) if mix else enum.Enum(name, members, module=module)
    if k == "model":
        if spec.get("how") == "factory":
            return _class_by_factory(spec, "", "(pydantic.BaseModel)")
        return pydantic.create_model(name, __module__=module,
                                     **{f[0]: (FIELD_ANNS[f[1]], f[2] if len(f) > 2 else ...) for f in spec["fields"]})
    if k == "dc":
        if spec.get("how") == "factory":
            return _class_by_factory(spec, "@dataclasses.dataclass\n    ", "")
        return dataclasses.make_dataclass(
            name, [(f[0], FIELD_ANNS[f[1]]) + ((dataclasses.field(default=f[2]),) if len(f) > 2 else ()) for f in spec["fields"]],
            module=module)
    if k == "newtype":
        t = typing.NewType(name, FIELD_ANNS[spec["base"]])
    elif k == "typeddict":
        t = typing.TypedDict(name, {f[0]: FIELD_ANNS[f[1]] for f in spec["fields"]}, total=bool(spec.get("total", True)))
    elif k == "namedtuple":
        t = typing.NamedTuple(name, [(f[0], FIELD_ANNS[f[1]]) for f in spec["fields"]])
    else:
        raise ValueError(spec)
    t.__module__ = module
    return t


def register_types(types):
    added = []
    for tn, spec in types.items():
        if tn in ANNS or tn in globals():
            raise RuntimeError("type name %s taken" % tn)
        cls = build_type(spec)
        TWIN_NAME[cls] = tn
        globals()[tn] = cls          # the generated sources are exec'd in a copy of this module's globals
        ANNS[tn], ANN_SRC[tn] = cls, tn
        added.append(tn)
        if spec["k"] == "model":
            MODELS[tn] = cls
        if spec["k"] == "dc":
            DCS[tn] = cls
        for pat, mk in WRAPS.items():
            ANNS[pat % tn], ANN_SRC[pat % tn] = mk(cls), (pat % tn).replace(",", ", ")
            added.append(pat % tn)
    return added


def unregister_types(added):
    for n in added:
        cls = ANNS.pop(n)
        ANN_SRC.pop(n)
        _ADAPTERS.pop(n, None)
        MODELS.pop(n, None)
        DCS.pop(n, None)
        if globals().get(n) is cls:
            del globals()[n]
            TWIN_NAME.pop(cls, None)


async def group_trip(case):
    added = register_types(case["types"])
    try:
        out = {"type_reprs": {tn: repr(ANNS[tn]) for tn in case["types"]}}
        steps = case["steps"]
        if not case.get("shared"):
            out["steps"] = [await trip(s) for s in steps]
            return out
        conf = (case.get("fmt"), case.get("ser"), bool(case.get("validate", True)))
        for s in steps:
            if (s.get("fmt"), s.get("ser"), bool(s.get("validate", True))) != conf:
                raise RuntimeError("a step of a shared-receiver group has its own formatter / serializer / validate_params")
        broker = make_broker(conf[0], conf[1])
        defs = []
        for i, s in enumerate(steps):
            o = {}
            fn, CAP = define(s, o)
            defs.append((s, o, fn, CAP, broker.register_task(fn, task_name="t%d" % i)))
        receiver = Receiver(broker, validate_params=conf[2])
        out["steps"] = [await call(s, o, fn, CAP, broker, task, lambda: receiver) for s, o, fn, CAP, task in defs]
        return out
    finally:
        unregister_types(added)


# --------------------------------------------------------------------------- groups of calls around a task registry
# A registry case {"fns": [function definitions], "events": [...], "steps": [calls], fmt, ser, validate} is a SEQUENCE run
# in this one process around ONE worker broker and ONE Receiver:
#   {"ev": "reg", "fn": i, "where": "local" | "shared" | "other", "name": str | None, "how": "register" | "decorator"}
#       registers function i on the worker broker itself / as a shared task (async_shared_broker: the process-wide global
#       registry every broker sees) / on another broker of the same configuration (a producer-side definition);
#       name None = no task_name given, taskiq derives "<module>:<function name>" - the same for every generated `f`
#   {"ev": "receiver"}            the worker's Receiver is constructed here (before, between or after the registrations)
#   {"ev": "call", "step": j}     steps[j]: kiq through the task object of registration `via`, the message that landed on
#                                 that task's broker is handed to the worker's receiver
# Several functions may share a task name (a shared task overridden on the broker, a task registered again, a producer
# stub) with different signatures / annotations / dependencies.  Every function body appends to its own capture list,
# so the observation says which function really ran; the call is judged by THAT function's signature.
async def registry_trip(case):
    conf = (case.get("fmt"), case.get("ser"), bool(case.get("validate", True)))
    for s in case["steps"]:
        if (s.get("fmt"), s.get("ser"), bool(s.get("validate", True))) != conf:
            raise RuntimeError("a step of a registry group has its own formatter / serializer / validate_params")
    AsyncBroker.global_task_registry.clear()
    worker, other = make_broker(conf[0], conf[1]), make_broker(conf[0], conf[1])
    async_shared_broker.default_broker(worker)
    try:
        defs = []
        for fd in case["fns"]:
            o = {}
            fn, CAP = define(fd, o)
            defs.append((fd, o, fn, CAP))
        regs, holder = [], []
        out = {"names": [], "steps": [None] * len(case["steps"])}

        def get_receiver():
            if not holder:
                raise RuntimeError("a call before the receiver exists")
            return holder[0]

        for ev in case["events"]:
            if ev["ev"] == "reg":
                b = {"local": worker, "other": other, "shared": async_shared_broker}[ev["where"]]
                fn = defs[ev["fn"]][2]
                if ev["how"] == "register":
                    t = b.register_task(fn, task_name=ev["name"])
                elif ev["name"] is None:
                    t = b.task(fn)
                else:
                    t = b.task(task_name=ev["name"])(fn)
                regs.append((t, ev, other if ev["where"] == "other" else worker))
                out["names"].append(t.task_name)
            elif ev["ev"] == "receiver":
                holder[:] = [Receiver(worker, validate_params=conf[2])]
            else:
                st = case["steps"][ev["step"]]
                task, rev, kb = regs[st["via"]]
                # the generator's idea of "same task name" (its name key; None = derived name) must be taskiq's
                same = {t.task_name for t, e, _ in regs if e["name"] == rev["name"]}
                diff = {t.task_name for t, e, _ in regs if e["name"] != rev["name"]}
                if len(same) != 1 or same & diff:
                    raise RuntimeError("task names are not what the generator assumed: %r / %r" % (same, diff))
                out["steps"][ev["step"]] = await call(st, {}, None, None, kb, task, get_receiver,
                                                      registry=(defs, st["target"]), worker=worker)
        return out
    finally:
        AsyncBroker.global_task_registry.clear()
        async_shared_broker.default_broker(None)


# --------------------------------------------------------------------------- groups of calls along a broker's life cycle
# A life-cycle case {"broker": {InMemoryBroker options}, "life": [...], "steps": [calls], fmt, ser, validate} is a SEQUENCE
# run in this one process on ONE InMemoryBroker object (cast_types = validate; the other constructor options as given;
# formatter / serializer set on it as on any broker):
#   {"ev": "reg", "step": j, "how": "register" | "decorator"}   the function of steps[j] becomes task "t<j>"
#   {"ev": "startup"} / {"ev": "shutdown"}                      await broker.startup() / broker.shutdown()
#   {"ev": "call", "step": j}                                   steps[j] through kiq -> InMemoryBroker.kick ->
#                                                               broker.receiver.callback -> the function body
# steps[j]["task"] = i (i <= j): the call uses the function / task object of steps[i] (the same task called again, e.g.
# before and after a restart).  The configuration of the broker is fixed at construction; every message of the
# sequence is judged on its own with THAT configuration (cast_types False: everything arrives as sent), whatever
# start-ups and shut-downs the object went through before.
class LifeBroker(InMemoryBroker):
    """the real InMemoryBroker.  kick() only parks the message, so that `call` can take its observations (what was
    prepared / dumped, pydantic's table, CPython's binding) between kiq() and the delivery; deliver() then runs the
    real InMemoryBroker.kick on it (find_task, self.receiver.callback, in place or as a background task) + wait_all()"""

    def __init__(self, **kw):
        super().__init__(**kw)
        self.sent = []

    async def kick(self, message):
        self.sent.append(message)

    async def deliver(self, message):
        await InMemoryBroker.kick(self, message)
        await self.wait_all()


async def lifecycle_trip(case):
    conf = (case.get("fmt"), case.get("ser"), bool(case.get("validate", True)))
    steps = case["steps"]
    for s in steps:
        if (s.get("fmt"), s.get("ser"), bool(s.get("validate", True))) != conf:
            raise RuntimeError("a step of a life-cycle group has its own formatter / serializer / cast_types")
    broker = make_broker(conf[0], conf[1], LifeBroker(cast_types=conf[2], **case["broker"]))
    defs, receivers = {}, []
    out = {"steps": [None] * len(steps)}
    try:
        for ev in case["life"]:
            if ev["ev"] == "reg":
                j = ev["step"]
                o = {}
                fn, CAP = define(steps[j], o)
                if ev["how"] == "register":
                    t = broker.register_task(fn, task_name="t%d" % j)
                else:
                    t = broker.task(task_name="t%d" % j)(fn)
                defs[j] = (o, fn, CAP, t)
            elif ev["ev"] == "startup":
                await broker.startup()
            elif ev["ev"] == "shutdown":
                await broker.shutdown()
            else:
                j = ev["step"]
                st = steps[j]
                o, fn, CAP, t = defs[st.get("task", j)]
                if [p for p in st["params"]] != [p for p in steps[st.get("task", j)]["params"]]:
                    raise RuntimeError("a step that re-uses a task has another signature")
                if not any(x is broker.receiver for x in receivers):
                    receivers.append(broker.receiver)          # kept alive: identity, not id()
                out["steps"][j] = await call(st, dict(o), fn, CAP, broker, t, None, deliver=broker.deliver)
        out["receiver_objects"] = len(receivers)
        return out
    finally:
        broker.executor.shutdown()


# --------------------------------------------------------------------------- groups of calls with redelivery / re-sends
# A redelivery case {"redelivery": {"path": "receiver" | "inmemory", "receiver": "shared" | "fresh", "broker": {options}},
# "steps": [calls], fmt, ser, validate} is a SEQUENCE run in this one process.  Every step is an ordinary call (own
# signature, arguments, split) and is judged on its own, plus:
#   "task": i       the step uses the function / task object of step i (the same task called again)
#   "again": i      nothing is sent: the broker message step i produced is DELIVERED once more (an at-least-once broker
#                   redelivering an un-acked message; the step carries the arguments of step i).  "how": the very same
#                   bytes object / an equal copy / wrapped in an AckableMessage (receiver path)
#   "task_id": s    sent through task.kicker().with_task_id(s) (an idempotency key: a second send with the same id and
#                   the same arguments produces the same bytes); "kicker": i - through the kicker object made at step i
#   "mutate": mode  (on the step that defines the function) the body works on its arguments in place after recording them
# path "receiver": a CapBroker, all tasks registered, then ONE Receiver for the whole sequence as in a worker ("shared")
# or a new Receiver(broker) for every delivery ("fresh"); bytes -> receiver.callback.  path "inmemory": ONE started
# InMemoryBroker(cast_types=validate, **options); kick(message) -> its own receiver.
class Deliveries:
    def __init__(self):
        self.sent = {}       # step -> (broker message, what formatter.dumps was given)
        self.kickers = {}    # step -> kicker object with a custom task id
        self.seen = {}       # wire bytes -> [deliveries so far, containers changed in place by those executions]


async def redelivery_trip(case):
    conf = (case.get("fmt"), case.get("ser"), bool(case.get("validate", True)))
    steps, rd = case["steps"], case["redelivery"]
    for s in steps:
        if (s.get("fmt"), s.get("ser"), bool(s.get("validate", True))) != conf:
            raise RuntimeError("a step of a redelivery group has its own formatter / serializer / validate_params")
    inmem = rd["path"] == "inmemory"
    broker = make_broker(conf[0], conf[1], LifeBroker(cast_types=conf[2], **rd["broker"]) if inmem else None)
    state = Deliveries()
    out = {"steps": []}
    try:
        defs = {}
        for j, st in enumerate(steps):
            if st.get("task", j) == j and st.get("again") is None:
                o = {}
                fn, CAP = define(st, o)
                defs[j] = (o, fn, CAP, broker.register_task(fn, task_name="t%d" % j))
        if inmem:
            await broker.startup()
        shared = None if inmem else Receiver(broker, validate_params=conf[2])
        for j, st in enumerate(steps):
            owner = st.get("task", j)
            if [p for p in st["params"]] != [p for p in steps[owner]["params"]]:
                raise RuntimeError("a step that re-uses a task has another signature")
            if st.get("again") is not None:
                src = steps[st["again"]]
                if (st["args"], st["kwargs"], st.get("task", j)) != (src["args"], src["kwargs"], src.get("task", st["again"])):
                    raise RuntimeError("a redelivery step does not carry the call of the step it redelivers")
            o, fn, CAP, t = defs[owner]
            get = (lambda: shared) if rd.get("receiver", "shared") == "shared" else \
                (lambda: Receiver(broker, validate_params=conf[2]))
            out["steps"].append(await call(dict(st, mutate=steps[owner].get("mutate")), dict(o), fn, CAP, broker, t, get,
                                           deliver=broker.deliver if inmem else None, seq=(state, j)))
        return out
    finally:
        if inmem:
            await broker.shutdown()


_TRAMP_DONE = [False]


def run_case(case, opts):
    if not _TRAMP_DONE[0]:
        _install_parse_tramp()
        _TRAMP_DONE[0] = True
    async def main(loop):
        if "redelivery" in case:
            return await redelivery_trip(case)
        if "life" in case:
            return await lifecycle_trip(case)
        if "events" in case:
            return await registry_trip(case)
        if "steps" in case:
            return await group_trip(case)
        return await trip(case)

    return vloop.run(main)
