"""Implementation driver for C09 (and the shared plumbing of C11).

A case is a scenario: tasks with declared labels, a history of kicker operations, and for every send a plan of
what the task body does on each delivery (ok / err / fail->retry middleware / requeue / noresult).  Everything runs on
the real code of taskiq: decorated tasks, AsyncKicker, ProxyFormatter + the chosen bundled serializer,
Receiver.callback (formatter.loads + parse_labels), SimpleRetryMiddleware, Context.requeue.  Observation points:
task.labels after every operation, the BrokerMessage handed to AsyncBroker.kick, and per delivery the labels in a
recording middleware (pre_execute / post_execute), in Context inside the task body, and in the stored TaskiqResult.

Typed label values travel as JSON objects {"t": type, "v": payload}:
  int -> decimal string, float -> 16 hex digits of the binary64 pattern (every NaN canonicalised to 7ff8000000000000),
  bool -> true/false, str -> list of code points (lone surrogates survive), bytes -> list of ints,
  other -> {"k": kind} on input; on output {"t": "other", "ty": type name, "s": code points of str(value)}.
"""
import asyncio
import enum
import struct

import vloop
from taskiq import Context, SimpleRetryMiddleware, TaskiqDepends, TaskiqMessage, TaskiqMiddleware
from taskiq.abc.broker import AsyncBroker
from taskiq.abc.result_backend import AsyncResultBackend
from taskiq.brokers.shared_broker import AsyncSharedBroker
from taskiq.exceptions import NoResultError
from taskiq.receiver import Receiver
from taskiq.serializers import JSONSerializer, PickleSerializer

NBROKERS = 3
OTHER_KINDS = ["none", "list", "intenum", "tuple", "obj", "bytearray"]
CANON_NAN = "7ff8000000000000"


class Colour(enum.IntEnum):
    RED = 1


class Weird:
    def __str__(self):
        return "weird!"


# ------------------------------------------------------------------ typed values
def fbits(x):
    if x != x:
        return CANON_NAN
    return struct.pack(">d", x).hex()


def ffrom(h):
    return struct.unpack(">d", bytes.fromhex(h))[0]


def dec(v):
    """case encoding -> Python value"""
    t = v["t"]
    if t == "int":
        return int(v["v"])
    if t == "float":
        return ffrom(v["v"])
    if t == "bool":
        return bool(v["v"])
    if t == "str":
        return "".join(map(chr, v["v"]))
    if t == "bytes":
        return bytes(v["v"])
    if t == "other":
        k = v["k"]
        return {"none": None, "list": [1, "a"], "intenum": Colour.RED, "tuple": (1, 2), "obj": Weird(),
                "bytearray": bytearray(b"ab")}[k]
    raise ValueError(t)


def enc(x):
    """Python value -> observation encoding, by exact type"""
    ty = type(x)
    if ty is bool:
        return {"t": "bool", "v": x}
    if ty is int:
        return {"t": "int", "v": str(x)}
    if ty is float:
        return {"t": "float", "v": fbits(x)}
    if ty is str:
        return {"t": "str", "v": [ord(c) for c in x]}
    if ty is bytes:
        return {"t": "bytes", "v": list(x)}
    return {"t": "other", "ty": ty.__name__, "s": [ord(c) for c in str(x)]}


def enc_dict(d):
    """ordered list of [key code points, value]"""
    return [[[ord(c) for c in k], enc(v)] for k, v in d.items()]


def key(k):
    return "".join(map(chr, k))


def dec_pairs(pairs):
    return {key(k): dec(v) for k, v in pairs}


# ------------------------------------------------------------------ scenario plumbing
class RecBroker(AsyncBroker):
    def __init__(self, idx, gen, sink):
        super().__init__()
        self.with_id_generator(gen)
        self.idx, self.sink = idx, sink

    async def kick(self, message):
        self.sink.append((self.idx, message))

    async def listen(self):
        return
        yield b""  # pragma: no cover


class RecBackend(AsyncResultBackend):
    def __init__(self, log):
        self.log = log

    async def set_result(self, task_id, result):
        self.log.append(("save", task_id, enc_dict(result.labels), bool(result.is_err),
                         type(result.error).__name__ if result.error is not None else None))

    async def is_result_ready(self, task_id):
        return True

    async def get_result(self, task_id, with_logs=False):
        return None


class RecMiddleware(TaskiqMiddleware):
    def __init__(self, log, tag=""):
        super().__init__()
        self.log, self.tag = log, tag

    def pre_execute(self, message):
        self.log.append(("pre" + self.tag, message.task_id, enc_dict(message.labels), message.task_name,
                         list(message.args), dict(message.kwargs)))
        return message

    def post_execute(self, message, result):
        self.log.append(("post" + self.tag, message.task_id, enc_dict(message.labels), enc_dict(result.labels)))


# ------------------------------------------------------------------ middlewares that hand the message on (case["xmw"])
# A middleware's pre_execute / pre_send returns "the" message: the object it was given, or any other TaskiqMessage with the
# same content.  None of the ways below touches a label (value or type), so everything downstream must see the labels that
# were set.  PASS_MODES = how the returned object is made; STYLES = how it is returned.
PASS_MODES = ["same", "copy", "deep", "update", "rebuild", "sub", "construct", "validate", "notypes"]
STYLES = ["sync", "async", "future", "awaitable"]


class SubMessage(TaskiqMessage):
    """a user's own message class (no extra fields: the wire form stays what it is)"""

    def describe(self):
        return "%s/%s" % (self.task_name, self.task_id)


class Ready:
    """an awaitable that is neither a coroutine nor a Future"""

    def __init__(self, value):
        self.value = value

    def __await__(self):
        return self.value
        yield  # pragma: no cover


def pass_on(m, mode):
    if mode == "same":
        return m
    if mode == "copy":                      # shallow: the copy shares the labels dict with the original
        return m.model_copy()
    if mode == "deep":
        return m.model_copy(deep=True)
    if mode == "update":
        return m.model_copy(update={"labels": dict(m.labels)})
    if mode == "validate":                  # python-mode dump: values stay the objects they are
        return TaskiqMessage.model_validate(m.model_dump())
    fields = dict(task_id=m.task_id, task_name=m.task_name, labels=dict(m.labels),
                  labels_types=None if m.labels_types is None else dict(m.labels_types),
                  args=list(m.args), kwargs=dict(m.kwargs))
    if mode == "rebuild":
        return TaskiqMessage(**fields)
    if mode == "sub":
        return SubMessage(**fields)
    if mode == "construct":
        return TaskiqMessage.model_construct(**fields)
    if mode == "notypes":                   # worker side only: the labels are parsed already, the types are spent
        fields["labels_types"] = None
        return TaskiqMessage(**fields)
    raise ValueError(mode)


def styled(value, style):
    if style == "future":
        f = asyncio.get_running_loop().create_future()
        f.set_result(value)
        return f
    if style == "awaitable":
        return Ready(value)
    return value


def make_hook(mode, style, log, what):
    if style == "async":
        async def hook(self, message):
            log.append((what, mode, style))
            return pass_on(message, mode)
    else:
        def hook(self, message):
            log.append((what, mode, style))
            return styled(pass_on(message, mode), style)
    return hook


def make_pass_middleware(spec, log):
    """spec = {"pos": first|mid|last, "pre": mode or None, "send": mode or None, "style": .., "inherit": bool}; only the hooks
    that are configured are defined (Receiver / kicker skip hooks that are TaskiqMiddleware's own)"""
    ns = {}
    style = spec.get("style", "sync")
    if spec.get("pre"):
        ns["pre_execute"] = make_hook(spec["pre"], style, log, "xpre")
    if spec.get("send"):
        ns["pre_send"] = make_hook(spec["send"], style, log, "xsend")
    cls = type("PassMiddleware", (TaskiqMiddleware,), ns)
    if spec.get("inherit"):                 # the hooks live in a base class of the middleware's class
        cls = type("InheritingPassMiddleware", (cls,), {})
    return cls()


def build_stack(base, xmw, log):
    """base = [recorder, (retry middleware)]; first = before the recorder, mid = after it, last = after the retry middleware;
    a second recorder at the very end sees what the later middlewares see"""
    by = {"first": [], "mid": [], "last": []}
    for spec in xmw:
        by[spec.get("pos", "mid")].append(make_pass_middleware(spec, log))
    return by["first"] + base[:1] + by["mid"] + base[1:] + by["last"] + [RecMiddleware(log, "2")]


def wire_of(broker, bm):
    """decode the bytes handed to kick with the broker's own serializer (no parse_labels)"""
    try:
        raw = broker.serializer.loadb(bm.message)
        lt = raw.get("labels_types")
        return {"labels": [[[ord(c) for c in k], enc(v)] for k, v in raw["labels"].items()],
                "types": None if lt is None else [[[ord(c) for c in k], v] for k, v in lt.items()],
                "task_id": raw["task_id"], "task_name": raw["task_name"], "args": raw["args"], "kwargs": raw["kwargs"]}
    except Exception as e:  # noqa: BLE001
        return {"undecodable": repr(e)[:200]}


class Scenario:
    def __init__(self, case, uid):
        self.case = case
        self.kicked = []  # (broker idx, BrokerMessage)
        self.log = []
        self.plan = []
        self.repeat_last = bool(case.get("repeat_last"))
        self.guard = int(case.get("guard", 40))
        self.body_log = []
        n = [0]

        def gen():
            n[0] += 1
            return "g%d" % (n[0] - 1)

        ser = {"json": JSONSerializer, "pickle": PickleSerializer}[case.get("ser", "json")]
        mw = case.get("mw", {})
        self.brokers = []
        for i in range(NBROKERS):
            b = RecBroker(i, gen, self.kicked).with_serializer(ser())
            b.result_backend = RecBackend(self.log)
            mws = [RecMiddleware(self.log)]
            if mw.get("enabled", True):
                mws.append(SimpleRetryMiddleware(default_retry_count=mw.get("count", 100),
                                                 default_retry_label=mw.get("label", True),
                                                 no_result_on_retry=mw.get("nror", True)))
            if case.get("xmw") is not None:
                mws = build_stack(mws, case["xmw"], self.log)
            b.add_middlewares(*mws)
            self.brokers.append(b)
        self.shared = AsyncSharedBroker()
        self.shared.default_broker(self.brokers[1])
        self.shared.id_generator = gen
        scen = self

        async def body(*args, ctx: Context = TaskiqDepends(), **kwargs):
            if scen.repeat_last and len(scen.plan) == 1:
                act = scen.plan[0]
            else:
                act = scen.plan.pop(0) if scen.plan else "ok"
            rec = {"act": act, "ctx": enc_dict(ctx.message.labels), "tid": ctx.message.task_id,
                   "args": list(args), "kwargs": dict(kwargs)}
            scen.body_log.append(rec)
            if act == "requeue":
                try:
                    await ctx.requeue()
                except BaseException as e:
                    rec["raised"] = type(e).__name__
                    raise
                rec["raised"] = None
                return "requeue-returned"
            if act == "fail":
                raise ValueError("planned failure")
            if act == "err":
                raise KeyError("planned final error")
            if act == "noresult":
                raise NoResultError()
            return "ok"

        self.tasks = []
        self.names = []
        for i, t in enumerate(case["tasks"]):
            name = "c%s_t%d" % (uid, i)
            self.names.append(name)
            labels = dec_pairs(t["labels"])
            owner = self.shared if t.get("shared") else self.brokers[t.get("broker", 0)]
            self.tasks.append(owner.task(task_name=name, **labels)(body))
            for b in self.brokers:
                if b is not owner:
                    b.task(task_name=name)(body)
        self.receivers = [Receiver(b, max_async_tasks=1, run_startup=False, validate_params=True) for b in self.brokers]

    def snapshot(self):
        return [enc_dict(t.labels) for t in self.tasks]

    async def deliver_chain(self, bidx, bm, plan):
        """process one sent message and everything it re-sends; returns the list of attempts"""
        attempts = []
        queue = [(bidx, bm)]
        self.plan = list(plan)
        guard = 0
        while queue and guard < self.guard:
            guard += 1
            bi, m = queue.pop(0)
            self.log.clear()
            self.body_log.clear()
            before = len(self.kicked)
            exc = None
            try:
                await self.receivers[bi].callback(m.message)
            except BaseException as e:  # noqa: BLE001
                exc = type(e).__name__
            new = self.kicked[before:]
            del self.kicked[before:]
            at = {"broker": bi, "task_id": m.task_id, "callback_raised": exc, "pre": None, "ctx": None, "post": None,
                  "post_res": None, "res": None, "act": None, "raised": None, "nbody": len(self.body_log), "args": None,
                  "pre2": None, "post2": None, "passed": [list(ev) for ev in self.log if ev[0] in ("xpre", "xsend")],
                  "resent": [dict(broker=b2, task_id=m2.task_id, task_name=m2.task_name,
                                  bm_labels=enc_dict(m2.labels), wire=wire_of(self.brokers[b2], m2)) for b2, m2 in new]}
            for ev in self.log:
                if ev[0] == "pre":
                    at["pre"], at["pre_tid"], at["name"], at["margs"] = ev[2], ev[1], ev[3], [ev[4], ev[5]]
                elif ev[0] == "post":
                    at["post"], at["post_res"] = ev[2], ev[3]
                elif ev[0] == "pre2":
                    at["pre2"] = ev[2]
                elif ev[0] == "post2":
                    at["post2"] = ev[2]
                elif ev[0] == "save":
                    at["res"], at["res_tid"], at["res_err"], at["res_exc"] = ev[2], ev[1], ev[3], ev[4]
            if self.body_log:
                r = self.body_log[0]
                at.update(ctx=r["ctx"], act=r["act"], raised=r.get("raised"), args=[r["args"], r["kwargs"]],
                          ctx_tid=r["tid"])
            attempts.append(at)
            queue += new
        return attempts


_UID = [0]


def run_codec(case):
    """direct calls of the real prepare_label / parse_label"""
    from taskiq.labels import parse_label, prepare_label
    out = []
    for it in case["codec"]:
        if "prep" in it:
            s, t = prepare_label(dec(it["prep"]))
            out.append({"s": [ord(c) for c in s], "t": t, "is_str": type(s) is str})
        else:
            cps, t = it["parse"]
            try:
                out.append({"v": enc(parse_label("".join(map(chr, cps)), t))})
            except Exception as e:  # noqa: BLE001
                out.append({"raise": type(e).__name__})
    return {"codec": out, "other_str": {k: [ord(c) for c in str(dec({"t": "other", "k": k}))] for k in OTHER_KINDS}}


def run_case(case, opts):
    if "codec" in case:
        return run_codec(case)
    _UID[0] += 1
    uid = "%d_%d" % (id(case) % 9973, _UID[0])

    async def main(loop):
        sc = Scenario(case, uid)
        snaps = [[-1, sc.snapshot()]]
        kickers = []
        sent = []
        for oi, op in enumerate(case["ops"]):
            o = op["op"]
            err = None
            try:
                if o == "kicker":
                    kickers.append(sc.tasks[op["t"]].kicker())
                elif o == "with_labels":
                    r = kickers[op["k"]].with_labels(**dec_pairs(op["labels"]))
                    assert r is kickers[op["k"]], "with_labels returned another object"
                elif o == "with_task_id":
                    kickers[op["k"]].with_task_id(op["id"])
                elif o == "with_broker":
                    kickers[op["k"]].with_broker(sc.brokers[op["b"]])
                elif o in ("kiq", "task_kiq"):
                    before = len(sc.kicked)
                    nlog = len(sc.log)
                    args = op.get("args", [])
                    kwargs = op.get("kwargs", {})
                    try:
                        if o == "kiq":
                            h = await kickers[op["k"]].kiq(*args, **kwargs)
                        else:
                            h = await sc.tasks[op["t"]].kiq(*args, **kwargs)
                        kerr, hid = None, h.task_id
                    except Exception as e:  # noqa: BLE001
                        kerr, hid = "%s: %s / %r" % (type(e).__name__, e, e.__cause__), None
                    new = sc.kicked[before:]
                    del sc.kicked[before:]
                    rec = {"op": oi, "err": kerr, "handle_id": hid, "n": len(new), "plan": op.get("plan", ["ok"]),
                           "passed": [list(ev) for ev in sc.log[nlog:] if ev[0] == "xsend"]}
                    if new:
                        b, m = new[0]
                        rec.update(broker=b, task_id=m.task_id, task_name=m.task_name, bm_labels=enc_dict(m.labels),
                                   wire=wire_of(sc.brokers[b], m), _bm=m)
                    sent.append(rec)
                else:
                    raise ValueError(o)
            except Exception as e:  # noqa: BLE001
                err = "%s: %s" % (type(e).__name__, e)
            s = sc.snapshot()
            if s != snaps[-1][1] or err:
                snaps.append([oi, s] + ([err] if err else []))
        for rec in sent:
            m = rec.pop("_bm", None)
            rec["chain"] = await sc.deliver_chain(rec["broker"], m, rec["plan"]) if m is not None else []
        return {"names": sc.names, "snaps": snaps, "sent": sent, "final": sc.snapshot(),
                "other_str": {k: [ord(c) for c in str(dec({"t": "other", "k": k}))] for k in OTHER_KINDS}}

    return vloop.run(main)
