"""Implementation driver for C06 / C12.

One case = a generated dependency graph (nodes of six styles, cached / use_cache=False edges, depth <= 3), a few
tasks over it and 1..6 messages that are handed *concurrently* to the real `Receiver.callback` of /repo on the
virtual-time loop.  Nothing of taskiq / taskiq_dependencies is re-implemented; what is observed:

  * every dependency body records enter / fail / close / closed events and echoes the Context it was given
    (task id, first argument, `who` label, `kw` kwarg of `ctx.message`);
  * the resolver's context tree: `BaseResolveContext.__init__` is wrapped so that `opened_dependencies` and
    `sub_contexts` are logging `list` subclasses (append is logged, everything else is the plain list) and every
    context object is kept; `traverse_deps` is wrapped by a pass-through generator that logs the start of the
    traversal (the moment the resolver copies its initial cache) and tells dependency bodies which context
    computed their kwargs; `DependencyGraph.async_ctx` is wrapped to log its call;
  * the task body (args / kwargs / Context echo, outcome), a recording middleware (on_error, post_execute,
    post_save), a recording result backend (set_result call) and the message's ack callable;
  * scripted writes (`muts` of a message plan): a dependency (while opening / in its teardown) or the task function
    (at its start / after its awaits) writes to what it was given - a label set in place, `Context.requeue()` (which
    bumps X-Taskiq-requeue in place; `broker.kick` is replaced by a recorder so that nothing is executed again), the
    args list, the kwargs dict, `ctx.message` re-assigned to a private copy - each logged as a `mut` event.  Every
    echo is the full message the reader holds at that moment (task id, args, kwargs, labels); dependencies echo once
    more in their teardown and the task function after its awaits.

Messages may carry no labels at all (`nolabels`), tasks may be declared with labels (`labels` of a task spec), and
several deliveries may carry the same task id (`tid`): an execution is identified by its delivery index only.

Validated arguments (`val` of a task spec = the annotation kind of an extra parameter `pv`, `raw` / `by` of a message
plan = the raw value sent for it, positionally or by keyword; `validate` of the case = the receiver's
validate_params switch): the annotation makes pydantic build a fresh *mutable* object out of the raw value (a model
with a mode="before" validator from "a,b" / an int / a dict, a list subclass with its own core schema from "1,2" / a
list, a pydantic dataclass from "7;1;2" / a dict, `List[int]` / `Set[int]` / `Dict[str, int]` / a stdlib dataclass
from a raw list / dict; `Json[List[int]]` / `Json[Dict[str, int]]` are there too - the receiver reads the hints with
`get_type_hints`, which drops the `Annotated` metadata, so a JSON string stays a string).  Executions write
their own mark into the object they received (`val` / `valtmp` writes: through the parameter in the task function,
through `ctx.message.args / kwargs` in a dependency) and every echo carries the canonical form of what is held.

How the Receiver that executes the deliveries comes to exist is part of the case (`path`; absent = built directly by
the driver, or the broker's own one with `via_inmemory`):
  * {"kind": "cli", "argv": [...]}: the real worker command line (harness/cli_glue.py: WorkerArgs.from_cli +
    start_listen) computes the keyword arguments of the Receiver;
  * {"kind": "api", "kwargs": {...}}: the real taskiq.api.run_receiver_task does (its own parameter names);
  * {"kind": "api", "kwargs": {...}, "run": {"drops": [[k, name], ...]}}: the real run_receiver_task COROUTINE runs
    on the virtual-time loop for the whole case (receiver_cls = a Receiver subclass whose callback() only tags the
    execution and calls the real one).  The broker's listen() is scripted (cli_glue.FlakyFeed): it serves the
    deliveries when their runner hands them in, and its j-th call raises (a dropped connection) when it is asked for
    its (k+1)-th message - so the deliveries of the case are executed by the first / second / third Receiver that
    run_receiver_task builds, earlier ones possibly still running under the receiver that was replaced.  The worker
    task is cancelled when every delivery is through;
  * {"kind": "inmemory", "life": [...], "send": "kick" | "kicker", ...}: an InMemoryBroker built with the case's
    switches (propagate_exceptions, cast_types, max_async_tasks, await_inplace, sync_tasks_pool_size) is taken through
    the life-cycle calls of `life` (startup / shutdown, e.g. startup, shutdown, startup = a broker reused after a
    shutdown) and the deliveries are then SENT: through the broker's real kick() (the bytes the driver built) or
    through the real kicker of the task (with_task_id / with_labels / kiq).  Whatever receiver the broker holds at
    that moment executes them; the callback task the broker spawns is found by its execution tag and awaited
    (broker.wait_all() at the end).  The broker hands over bare bytes: there is nothing to acknowledge.
  * {"kind": "listen", "kwargs": {...} | "argv": [...], "stop": {"how": "budget" | "exhausted" | "event", "after": us},
    "pool": k}: a WORKER THAT STOPS while executions are in flight (deps11).  The real Receiver.listen(finish_event) runs on
    the virtual-time loop (the Receiver subclass only tags executions; its keyword arguments are the case's, or what the
    real worker command line computes from `argv`: --max-tasks-per-child, --wait-tasks-timeout, ...), over a scripted
    broker.listen() that serves the deliveries as their runners hand them in.  The worker is told to stop - its
    max_tasks_to_execute budget is used up by the last delivery / the broker's listen() ends after the last delivery /
    the finish event is set `after` microseconds after the last delivery was taken up - and Receiver.runner then waits
    for the executions in flight for at most `wait_tasks_timeout` seconds (small values: the wait expires while a
    task function, a sync function in the thread pool, an awaiting dependency teardown, set_result ... is under way)
    before listen() returns.  The loop RUNS ON after listen() returned (as under taskiq.api.run_receiver_task in an
    application, or while the broker is shut down): the driver waits until every delivery's callback has ended and the
    thread pool is idle, then one more virtual second, before the case is over.  Sync task functions run in a
    vloop.VPool of `pool` threads and spend their `dur` as VIRTUAL time there (h_body_sync: vloop.thread_vsleep), so a
    sync function can still be running when the wait expires.  The observation carries `stop` (how the worker stopped,
    the log position / time at which the receiver's on_exit was called, the wait_tasks_timeout / budget the receiver
    really held).
The property statements do not depend on the path: the case's `propagate` / `validate` / `ack` are what was ASKED for.

Strings of unusual but legal shapes ON THE WIRE (`tids` of a message plan = the task id the message carries, verbatim;
`slabels` = extra string labels, keys and values verbatim; a raw value of the `str` annotation kind; `name` of a task
spec = the name the task is registered under and the messages for it carry; `wire` of a message plan = {"via": "raw",
...}: the bytes are written by hand - json.dumps of a plain dict, key order / separators / ensure_ascii as the plan
says - as a producer that is not this Python client would, never passing through TaskiqMessage on the sending side).
Every echo carries the task name too.

The OBJECT a failing execution raises is part of the case (`exc` of a message plan = what the task function raises,
`exc` of a message's `fail` = what the failing dependency raises; absent = a plain ValueError / BodyBase / NoResultError
/ DepFail as before): an exception object that is falsy (__bool__ False, __len__ 0), unhashable, equal by value to
every other instance of its class, a BaseException that is not an Exception (falsy too), an exception group (plain,
of BaseExceptions, falsy), a falsy NoResultError subclass (EXC_KINDS).  `exc_shared`: the very same exception object is
raised by every execution of the case that raises that kind (object reuse).  What was raised is logged (`raised`).

WHAT KIND OF CALLABLE a task is registered with is part of the case (`fn` of a task spec; absent = an `async def`, or a
plain `def` when `sync`) - FN_KINDS:
  * the work is done inside the call of the registered callable (ordinary events `task_start` / `task_end`):
    `async_wraps_sync` / `async_wraps_async` (a functools.wraps decorator whose wrapper is `async def` around a plain /
    a coroutine function), `partial_async` / `partial_sync` (a functools.partial object over a coroutine / plain
    function, made registrable with functools.update_wrapper), `callable_sync` (an instance of a class with a plain
    `__call__`);
  * the registered callable is NOT a coroutine function for asyncio.iscoroutinefunction but hands back an awaitable in
    which the real work would be done: `sync_wraps_async` (a coroutine function under a decorator that is not
    async-aware: `def wrapper(*a, **kw): return fn(*a, **kw)`), `ret_coro` / `ret_awaitable` / `ret_future` (a plain
    `def` returning a coroutine / an object with `__await__` / an asyncio.Future that already holds the outcome),
    `callable_async` (an instance whose `__call__` is `async def`), `async_ret_coro` (a coroutine function whose result
    is the un-awaited coroutine of the real work).  The call of the registered callable is the task
    function (`task_start`, `returns_awaitable`, `task_end return`); whatever runs of the awaitable logs `inner_start`
    (with, per dependency value it was given, whether that dependency was already finalised), `inner_end`,
    `inner_raised` - whoever awaits it, whenever; the Future logs `future_awaited` / `future_raised` when its outcome is
    taken out by an await.  The driver awaits none of them: what is left un-awaited when the
    case is over is closed (a coroutine that never started runs no code).

HOW a node / a task function comes by its Context, its message and its broker is part of the case (`src` of a node or
task spec that has `ctx`; absent = the Context as a cached dependency, `ctx: Context = TaskiqDepends()`):
  * {"kind": "ctx", "cached": false}: `ctx: Context = TaskiqDepends(use_cache=False)` - the resolver does not take it from
    its cache but builds one itself, late (when the kwargs of the requesting function are computed, after every cached
    dependency - awaiting ones included - has been resolved);
  * {"kind": "msg" | "brk", "cached": b}: `TaskiqMessage` / `AsyncBroker` requested from the resolver directly;
  * {"kind": "prov", "prov": K, "cached": b}: through provider K of the case's `provs` - a nested dependency (plain function /
    coroutine / generator / async generator) that takes the Context itself (cached or `pc` false: use_cache=False) and
    hands on the Context, `ctx.message` or `ctx.broker`; providers are shared by the nodes / tasks that name them.
Whatever is obtained is observed the same way: the whole message it refers to (for a broker: whether it is the case's
broker).  A provider is a dependency too: it echoes the Context it was given.  Shapes taskiq does not support end the
execution with an error of its own while its dependencies are resolved (no body, no read) - that is an observation,
not a harness failure.

WHO HOLDS THE ARGUMENT OBJECTS is part of the case (`pobj` of a message plan whose task has a validated parameter of a
container kind - `dany` / `lany` / `any` = Dict[str, Any] / List[Any] / Any, or dict / list / set / dc / csv from a raw
dict / list): the PRODUCER keeps argument object number `obj` for the whole case and the message is not built before
the case starts but when it is kicked - the producer rewrites its object in place to the value this message is to
carry (`raw`; nested containers stay the objects they are), puts that very object into the call of the task's real
kicker (InMemoryBroker path with send = kicker) or into a TaskiqMessage that the broker's own formatter serializes at
that moment (every other path: kick(), Receiver.callback, the scripted listen()), and - `after`: scribble / clear, at
once or `delay` later - goes on using the object.  `kicked` logs what the message held when it was serialized,
`prod_after` the producer's later write.  `prod.reuse`: the producer also reuses one labels dict / args list / kwargs
dict for every kick.  `fmt` of a case: the broker's formatter (absent = what the broker has, "proxy" = a ProxyFormatter
set with with_formatter, "json" = JSONFormatter), `ser`: "pickle" = PickleSerializer instead of the JSON one.
Executions' `val` / `valtmp` marks go into plain lists / dicts nested in the object they received too.

ONE OBJECT AT SEVERAL POSITIONS OF A MESSAGE (`refs` of a message plan = {"how": "same" | "intern" | "equal", "wrap": None |
"tuple" | "box"}; iso10).  The plan's values (`raw`, `slabels`, `tids`) say WHAT the message carries - e.g. a dict argument
{"owner": u, "editor": u}, the list [path, path], a label whose value is the task id or the string argument -, `refs` says
whether parts that are equal are also the SAME object when the message is handed to the sending side, as they are when a
program builds them from one variable (kiq(path, path)): `same` - every str / list / dict of the message (task id, label
keys and values, args, kwargs, at any depth) that equals an earlier one IS that earlier object; `intern` - every string is
built separately and passed through sys.intern (equal strings are one object, containers stay apart); `equal` - every
string (longer than one character: shorter ones are singletons of the interpreter anyway) and every container is an object
of its own (control group).  `wrap`: lists nested in an argument are tuples / dicts of the shape {"n": int, "items": [ints]}
nested in an argument are instances of the dataclass Box on the sending side (what a picklable custom object is to the
client).  What the driver really built is counted (`aliased` event: objects referenced from two or more positions, by kind).
`ser` of a case: "pickle" = PickleSerializer, "json" = a JSONSerializer set by hand (absent = what the broker has; cbor2 /
msgpack / orjson are not installed here: those serializers of taskiq/serializers cannot be constructed); `ser_late`: the
serializer is set after the Receiver has been built (the formatter looks the broker's serializer up when it is used).

The execution an event belongs to is carried by a ContextVar set by the harness task that calls
`Receiver.callback` (propagated into the worker thread of sync task functions by the loop subclass) - it does
not go through anything the properties are about."""
import asyncio
import contextlib
import contextvars
import dataclasses
import functools
import inspect
import json
import random
import re
import sys
import types
from concurrent.futures import ThreadPoolExecutor
from typing import Any, Dict, List, Optional, Set

import pydantic

import taskiq_dependencies.ctx as dctx
import taskiq_dependencies.graph as dgraph
import vloop
from taskiq import Context, TaskiqDepends
from taskiq.abc.broker import AsyncBroker
from taskiq.abc.middleware import TaskiqMiddleware
from taskiq.abc.result_backend import AsyncResultBackend
from taskiq.acks import AckableMessage, AcknowledgeType
from taskiq.brokers.inmemory_broker import InMemoryBroker
from taskiq.exceptions import NoResultError
from taskiq.kicker import AsyncKicker
from taskiq.message import BrokerMessage, TaskiqMessage
from taskiq.receiver import Receiver

EXEC = contextvars.ContextVar("verif_exec", default=None)
YIELDING = ("gen", "agen", "cm", "acm")


class DepFail(Exception):
    """raised by a dependency that is scripted to fail while it is being opened"""


class BodyBase(BaseException):
    """a non-Exception BaseException raised by a task body"""


class FalsyBoolError(Exception):
    """an exception object that is falsy: __bool__ returns False"""

    def __bool__(self):
        return False


class FalsyLenError(Exception):
    """an exception object that is falsy because it is a sized thing of length 0 (e.g. 'the batch of failed rows')"""

    def __len__(self):
        return 0


class UnhashableError(Exception):
    """value-based __eq__ without __hash__: instances are unhashable"""

    def __eq__(self, other):
        return type(other) is type(self) and other.args == self.args

    __hash__ = None


class EqualError(Exception):
    """every instance equals every other one (and hashes alike)"""

    def __eq__(self, other):
        return isinstance(other, EqualError)

    def __hash__(self):
        return 7


class FalsyBase(BaseException):
    """a BaseException that is not an Exception, and falsy"""

    def __bool__(self):
        return False


class FalsyGroup(ExceptionGroup):
    """an exception group that is a sized thing: len = number of sub-exceptions that still matter (none)"""

    def derive(self, excs):
        return FalsyGroup(self.message, excs)

    def __len__(self):
        return 0


class FalsyNoResult(NoResultError):
    """a client's own falsy no-result signal"""

    def __bool__(self):
        return False


class FalsyDepFail(DepFail):
    """the scripted failure of a dependency, as a falsy object"""

    def __len__(self):
        return 0


# kind -> (constructor of the raised object from the payload, outcome of the task function it stands for)
EXC_KINDS = {
    "falsy_bool": (FalsyBoolError, "raise"),
    "falsy_len": (FalsyLenError, "raise"),
    "unhashable": (UnhashableError, "raise"),
    "equal": (EqualError, "raise"),
    "group": (lambda p: ExceptionGroup("several", [ValueError(p), KeyError("k")]), "raise"),
    "falsy_group": (lambda p: FalsyGroup("several", [ValueError(p)]), "raise"),
    "falsy_depfail": (FalsyDepFail, "raise"),
    "plain_base": (BodyBase, "base"),
    "falsy_base": (FalsyBase, "base"),
    "base_group": (lambda p: BaseExceptionGroup("several", [BodyBase(p), ValueError(p)]), "base"),
    "falsy_noresult": (lambda p: FalsyNoResult(), "noresult"),
}


def make_exc(kind, payload, shared):
    """the object to raise: a fresh one, or (shared) the one object of that kind every execution of the case raises"""
    if shared:
        if kind not in R.shared_excs:
            R.shared_excs[kind] = EXC_KINDS[kind][0]("shared")
        return R.shared_excs[kind]
    return EXC_KINDS[kind][0](payload)


class UserCfg:
    """a user entry of broker.custom_dependency_context (broker.add_dependency_context); shared by design.
    When the key is missing from the dict the resolver is handed, it instantiates the class itself (tag -1)."""

    def __init__(self, tag: int = -1) -> None:
        self.tag = tag


class Tags(pydantic.BaseModel):
    """argument type with compact wire forms: "red,blue" and 7 stand for {"tags": [...]}"""

    tags: List[str]
    note: Optional[str] = None

    @pydantic.model_validator(mode="before")
    @classmethod
    def _compact(cls, value: Any) -> Any:
        if isinstance(value, str):
            return {"tags": [part for part in value.split(",") if part]}
        if isinstance(value, int) and not isinstance(value, bool):
            return {"tags": [str(value)]}
        return value


@dataclasses.dataclass
class Box:
    n: int
    items: List[int] = dataclasses.field(default_factory=list)


@pydantic.dataclasses.dataclass
class PBox:
    """pydantic dataclass with a compact wire form: "7;1;2" stands for {"n": 7, "items": [1, 2]}"""

    n: int
    items: List[int] = dataclasses.field(default_factory=list)

    @pydantic.model_validator(mode="before")
    @classmethod
    def _compact(cls, value: Any) -> Any:
        if isinstance(value, str):
            parts = [int(part) for part in value.split(";") if part]
            return {"n": parts[0], "items": parts[1:]}
        return value


class IntList(list):
    """custom type with its own core schema: built from "1,2,3" or from a list of ints"""

    @classmethod
    def __get_pydantic_core_schema__(cls, source, handler):
        from pydantic_core import core_schema

        def build(value):
            if isinstance(value, str):
                value = [int(part) for part in value.split(",") if part]
            if not isinstance(value, list) or not all(type(x) is int for x in value):
                raise ValueError("not a list of ints")
            return cls(value)

        return core_schema.no_info_plain_validator_function(build)


# annotation kinds of the validated parameter `pv` (process-wide objects, as the types of a worker are)
ANNS = {"jl": pydantic.Json[List[int]], "jd": pydantic.Json[Dict[str, int]], "csv": Tags, "list": List[int],
        "set": Set[int], "dict": Dict[str, int], "dc": Box, "pdc": PBox, "ilist": IntList, "str": str,
        # containers of anything: validation builds a new top-level container at most, whatever is nested in it stays
        # the object the decoded message holds
        "dany": Dict[str, Any], "lany": List[Any], "any": Any}
NOPV = object()


def mark_val(obj, e):
    """execution e writes its own mark into the object it was given - and into every plain list / dict nested in it;
    False when the object cannot be written to"""
    if isinstance(obj, list):
        for x in obj:
            if isinstance(x, (list, dict)):
                mark_val(x, e)
        obj.append(-(e + 1))
    elif isinstance(obj, set):
        obj.add(-(e + 1))
    elif isinstance(obj, dict):
        for x in obj.values():
            if isinstance(x, (list, dict)):
                mark_val(x, e)
        obj["x%d" % e] = e
    elif isinstance(obj, Tags):
        obj.tags.append("x%d" % e)
        obj.note = "x%d" % e
    elif isinstance(obj, (Box, PBox)):
        obj.items.append(-(e + 1))
    else:
        return False
    return True


def unmark_val(obj, e):
    """execution e removes its own mark again (scratch use of its argument)"""
    if isinstance(obj, list):
        if -(e + 1) in obj:
            obj.remove(-(e + 1))
        for x in obj:
            if isinstance(x, (list, dict)):
                unmark_val(x, e)
    elif isinstance(obj, set):
        obj.discard(-(e + 1))
    elif isinstance(obj, dict):
        if obj.get("x%d" % e) == e:
            del obj["x%d" % e]
        for x in obj.values():
            if isinstance(x, (list, dict)):
                unmark_val(x, e)
    elif isinstance(obj, Tags):
        if "x%d" % e in obj.tags:
            obj.tags.remove("x%d" % e)
        if obj.note == "x%d" % e:
            obj.note = None
    elif isinstance(obj, (Box, PBox)):
        if -(e + 1) in obj.items:
            obj.items.remove(-(e + 1))


def fresh_str(v):
    """an equal string that is an object of its own (strings of length <= 1 are singletons of the interpreter)"""
    return "".join([v[:1], v[1:]]) if len(v) > 1 else v


def share_fields(fields, refs):
    """the fields of a message with its equal parts made ONE object (`same`), its strings interned (`intern`) or every part
    an object of its own (`equal`) - see the module docstring; the values are what they were"""
    how, wrap = refs.get("how", "same"), refs.get("wrap")
    pool = {}

    def walk(v, depth):
        if isinstance(v, str):
            if how == "same":
                return pool.setdefault(("str", v), v)
            v = fresh_str(v)
            return sys.intern(v) if how == "intern" else v
        if not isinstance(v, (list, dict)):
            return v
        key = (type(v).__name__, json.dumps(v, sort_keys=True))
        if how == "same" and key in pool:
            return pool[key]
        if isinstance(v, list):
            new = [walk(x, depth + 1) for x in v]
            if wrap == "tuple" and depth >= 1:
                new = tuple(new)
        else:
            new = {walk(k, depth + 1): walk(x, depth + 1) for k, x in v.items()}
            if (wrap == "box" and depth >= 1 and set(new) == {"n", "items"} and type(new["n"]) is int
                    and isinstance(new["items"], list) and all(type(x) is int for x in new["items"])):
                new = Box(new["n"], new["items"])
        if how == "same":
            pool[key] = new
        return new

    out = dict(fields)
    out["task_id"] = walk(fields["task_id"], 0)
    out["task_name"] = walk(fields["task_name"], 0)
    out["labels"] = {walk(k, 0): walk(v, 0) for k, v in fields["labels"].items()}
    out["args"] = [walk(v, 0) for v in fields["args"]]
    out["kwargs"] = {walk(k, 0): walk(v, 0) for k, v in fields["kwargs"].items()}
    return out


def count_shared(fields):
    """how many objects of each kind the built message references from two or more positions (the driver's own look at
    what it hands to the sending side; identity, not equality)"""
    seen = {}

    def visit(v):
        if isinstance(v, str):
            kind = "str" if len(v) > 1 else "str of length <= 1"
        elif isinstance(v, (list, dict, tuple, Box)):
            kind = type(v).__name__
        else:
            return
        ent = seen.setdefault(id(v), [kind, 0])
        ent[1] += 1
        if ent[1] > 1:
            return
        if isinstance(v, dict):
            for k, x in v.items():
                visit(k)
                visit(x)
        elif isinstance(v, (list, tuple)):
            for x in v:
                visit(x)
        elif isinstance(v, Box):
            visit(v.items)

    visit(fields["task_id"])
    visit(fields["task_name"])
    for part in (fields["labels"], fields["kwargs"]):
        for k, x in part.items():
            visit(k)
            visit(x)
    for x in fields["args"]:
        visit(x)
    out = {}
    for kind, n in seen.values():
        if n > 1:
            out[kind] = out.get(kind, 0) + 1
    return out


def tname(case, t):
    """the name task t is registered under (and that the messages for it carry)"""
    return case["tasks"][t].get("name", "task_%d" % t)


def val_slot(message, plan):
    """the validated argument as the message a Context refers to holds it"""
    if plan.get("raw") is None:
        return None
    if plan.get("by", "pos") == "pos":
        return message.args[1] if len(message.args) > 1 else None
    return message.kwargs.get("pv")


class Run:
    """state of one case"""

    def __init__(self, case):
        self.case = case
        self.log = []
        self.ctxs = []          # every resolver context, kept alive (ids stay unique)
        self.cid = {}           # id(context) -> number
        self.tok = 0
        self.pending = {}       # exec -> (token, node) entered, about to be appended
        self.objtok = {}        # id(opened object) -> token
        self.objs = []
        self.src = {}           # exec -> context number that computed the kwargs of the next dependency call
        self.pause_i = {}
        self.toksrc = {}        # token -> context number that computed the kwargs of that dependency call
        self.scratch = {}       # exec -> object it marked for the time of its task function (`valtmp`)
        self.broker = None
        self.sending = set()    # executions whose delivery is being handed to the broker's real kick()
        self.shared_excs = {}   # kind -> the one exception object of that kind (`exc_shared`)
        self.closed_toks = set()  # tokens of the dependencies whose teardown has completed
        self.awaitables = []    # what the registered callables of the `fn` kinds handed back
        self.loop = None
        self.pobjs = {}         # number -> the argument object the PRODUCER keeps and rewrites between kicks (`pobj`)
        self.pbufs = None       # the producer's reused labels dict / args list / kwargs dict (`prod.reuse`)

    def ev(self, *a):
        self.log.append(list(a))

    def plan(self, e):
        return self.case["msgs"][e] if e is not None else {}


R = None


# --------------------------------------------------------------------------- shims on the resolver (observation only)
class LogList(list):
    def __init__(self, owner, kind):
        super().__init__()
        self._owner, self._kind = owner, kind

    def append(self, x):
        super().append(x)
        if R is not None:
            on_append(self._owner, self._kind, x)


def codename(o):
    for a in ("gi_code", "ag_code"):
        c = getattr(o, a, None)
        if c is not None:
            return c.co_name
    g = getattr(o, "gen", None)
    if g is not None:
        return codename(g)
    return None


def on_append(owner, kind, x):
    e = EXEC.get()
    cid = R.cid.get(id(owner))
    if kind == "sub":
        R.ev("sub", e, cid, R.cid.get(id(x)))
        return
    if (codename(x) or "").startswith("prov_"):
        return                  # a generator provider of the Context / message / broker: not one of the graph's nodes
    tok, node = R.pending.pop(e, (None, None))
    if tok is None or codename(x) != "node_%d" % node:
        raise RuntimeError("harness: opened object %r does not match the entered dependency %r" % (codename(x), node))
    R.objtok[id(x)] = tok
    R.objs.append(x)
    R.ev("own", e, cid, tok, node)


_orig_init = dctx.BaseResolveContext.__init__
_orig_traverse = dctx.BaseResolveContext.traverse_deps
_orig_async_ctx = dgraph.DependencyGraph.async_ctx


def _init(self, *a, **k):
    _orig_init(self, *a, **k)
    if R is None:
        return
    n = len(R.ctxs)
    R.ctxs.append(self)
    R.cid[id(self)] = n
    self.opened_dependencies = LogList(self, "own")
    self.sub_contexts = LogList(self, "sub")
    R.ev("ctx", EXEC.get(), n, bool(self.propagate_excs))


def _traverse(self):
    if R is None:
        return (yield from _orig_traverse(self))
    e = EXEC.get()
    cid = R.cid.get(id(self))
    R.ev("traverse", e, cid)
    inner = _orig_traverse(self)
    R.src[e] = cid
    try:
        item = inner.send(None)
        while True:
            sent = yield item
            if getattr(item, "dep_graph", False) and len(self.sub_contexts):
                R.src[e] = R.cid.get(id(self.sub_contexts[-1]))
            else:
                R.src[e] = cid
            item = inner.send(sent)
    except StopIteration as stop:
        return stop.value


def _async_ctx(self, *a, **k):
    if R is not None:
        ic = a[0] if a else k.get("initial_cache")
        R.ev("begin", EXEC.get(), ic is R.broker.custom_dependency_context)
    return _orig_async_ctx(self, *a, **k)


def setup(opts):
    dctx.BaseResolveContext.__init__ = _init
    dctx.BaseResolveContext.traverse_deps = _traverse
    dgraph.DependencyGraph.async_ctx = _async_ctx


class Loop(vloop.VLoop):
    def run_in_executor(self, executor, func, *args):
        cv = contextvars.copy_context()
        return super().run_in_executor(executor, lambda: cv.run(func, *args))


# ---- deps11: the loop of a `listen` case (sync task functions in a vloop.VPool spend virtual time) ----------------------
class PoolLoop(vloop.PLoop):
    def run_in_executor(self, executor, func, *args):
        cv = contextvars.copy_context()
        return super().run_in_executor(executor, lambda: cv.run(func, *args))


def ending_feed(total):
    """the scripted broker.listen() of a `listen` case: cli_glue.FlakyFeed (put / take bookkeeping) whose listen() never
    fails and, when `total` is given, ENDS after that many items (the broker's queue is exhausted / was closed)"""
    import cli_glue

    class EndingFeed(cli_glue.FlakyFeed):
        async def listen(self):
            if self.queue is None:
                self.queue = asyncio.Queue()
            inc = self.listens
            self.listens += 1
            n = 0
            while total is None or n < total:
                key, obj = await self.queue.get()
                self.served[key] = inc
                self.handed.setdefault(id(obj), []).append(key)
                self.keep.append(obj)
                n += 1
                yield obj

    return EndingFeed([])
# ---- end deps11 -------------------------------------------------------------------------------------------------------


# --------------------------------------------------------------------------- helpers called by the generated bodies
def jsonable(v):
    if isinstance(v, Tags):
        return {"__tags__": jsonable(v.tags), "note": jsonable(v.note)}
    if isinstance(v, (Box, PBox)):
        return {"__box__": jsonable(v.n), "items": jsonable(v.items)}
    if isinstance(v, (set, frozenset)):
        items = [jsonable(x) for x in v]
        try:
            return {"__set__": sorted(items)}
        except TypeError:
            return {"__set__": sorted(items, key=repr)}
    if isinstance(v, dict):
        return {str(k): jsonable(x) for k, x in v.items()}
    if isinstance(v, (list, tuple)):
        return [jsonable(x) for x in v]
    return v if isinstance(v, (int, float, str, bool, type(None))) else repr(v)[:60]


def snapshot(m):
    """the whole message a reader holds, as it is at this moment"""
    return {"tid": m.task_id, "name": m.task_name, "args": jsonable(m.args), "kwargs": jsonable(m.kwargs),
            "labels": jsonable(m.labels)}


class MsgView:
    """a message that was obtained without its Context (TaskiqMessage through the resolver or through a provider)"""

    def __init__(self, message):
        self.message = message


class BrkView:
    """a broker that was obtained without a Context: there is no message to look at"""

    message = None

    def __init__(self, broker):
        self.broker = broker


def h_view(obj):
    """whatever a node / a task function obtained as its Context / message / broker, looked at through `.message`"""
    if obj is None or isinstance(obj, (Context, MsgView, BrkView)):
        return obj
    if isinstance(obj, AsyncBroker):
        return BrkView(obj)
    return MsgView(obj)


def echo(ctx):
    if ctx is None or isinstance(ctx, BrkView):
        return None
    m = ctx.message
    if not isinstance(m, TaskiqMessage):
        # neither a Context nor a message: reported as it is (it is nobody's message)
        return {"tid": None, "name": None, "args": [], "kwargs": {}, "labels": {}, "unexpected": type(m).__name__}
    return snapshot(m)


def note_broker(e, where, ctx):
    if isinstance(ctx, BrkView):
        R.ev("brk", e, where, ctx.broker is R.broker)


def apply_muts(e, at, ctx, node=None, pv=NOPV):
    """the scripted writes of execution e at this point, through the Context it was given or (task function, `val` /
    `valtmp`) through its own parameter - never through anything the harness holds.  `requeue` is not handled here
    (it is awaited by the task body)."""
    plan = R.plan(e)
    for mu in plan.get("muts") or []:
        if mu["at"] != at or mu.get("node") != node or mu["op"] == "requeue":
            continue
        op = mu["op"]
        if op in ("val", "valtmp"):
            # the object this execution received for its validated parameter
            if node is None:
                target = None if pv is NOPV else pv
            else:
                target = None if ctx is None or ctx.message is None else val_slot(ctx.message, plan)
            if not mark_val(target, e):
                continue
            if op == "valtmp":
                R.scratch[e] = target
            R.ev("mut", e, op, at, node)
            continue
        if ctx is None or not isinstance(getattr(ctx, "message", None), TaskiqMessage):
            continue
        if op == "setmsg":
            # the Context's message re-assigned to a private deep copy; later writes through ctx go to the copy
            ctx.message = ctx.message.model_copy(deep=True)
        elif op == "label":
            ctx.message.labels["w%d" % e] = e
        elif op == "arg":
            ctx.message.args.append(100 + e)
        elif op == "kwarg":
            ctx.message.kwargs["x%d" % e] = e
        else:
            raise ValueError(op)
        R.ev("mut", e, op, at, node)


def h_enter(node, ctx, ucfg=None):
    e = EXEC.get()
    R.tok += 1
    R.toksrc[R.tok] = R.src.get(e)
    R.ev("enter", e, node, R.tok, R.src.get(e), echo(ctx), None if ucfg is None else getattr(ucfg, "tag", "?"))
    note_broker(e, "node %d" % node, ctx)
    apply_muts(e, "node", ctx, node)
    return R.tok


def h_fail(node, tok, when):
    e = EXEC.get()
    f = R.plan(e).get("fail")
    if f is not None and f["node"] == node and f.get("when", "early") == when:
        R.ev("fail", e, node, tok)
        exc = DepFail("dependency %d fails" % node)
        if f.get("exc"):
            exc = make_exc(f["exc"], "dependency %d fails" % node, bool(f.get("exc_shared")))
        R.ev("raised", e, type(exc).__name__, "dep")
        raise exc


def next_pause(e):
    ps = R.plan(e).get("pauses") or [None]
    i = R.pause_i.get(e, 0)
    R.pause_i[e] = i + 1
    return ps[i % len(ps)]


async def h_pause(teardown=False):
    e = EXEC.get()
    # deps11: `tpause` of a message plan = how long every awaiting teardown step of that execution takes (a flush / commit
    # that takes a while); absent = the next of the plan's `pauses`, as everywhere else
    p = R.plan(e).get("tpause") if teardown else None
    if p is None:
        p = next_pause(e)
    if p is not None:
        await asyncio.sleep(p / 1_000_000)


async def h_pause_open(node, tok):
    """deps11: the await of a dependency (or provider: node None) that is being opened.  An execution that is cancelled here
    by whoever holds its task fails while its dependencies are resolved: logged like a scripted failure of that
    dependency (nothing else differs from h_pause)"""
    try:
        await h_pause()
    except asyncio.CancelledError:
        e = EXEC.get()
        if R is not None:
            R.ev("fail", e, node, tok)
            R.ev("raised", e, "CancelledError", "dep")
        raise


def h_prov(k, ctx):
    """provider k was called (with the Context the resolver gave it): a dependency's read like any other"""
    e = EXEC.get()
    R.ev("prov", e, k, R.src.get(e), echo(ctx))


def h_pick(get, ctx):
    return ctx if get == "ctx" else ctx.message if get == "msg" else ctx.broker


def h_ready(node, tok):
    R.pending[EXEC.get()] = (tok, node)


def h_close(node, tok, saw, ctx=None):
    e = EXEC.get()
    R.ev("close", e, node, tok, None if saw is None else type(saw).__name__, R.toksrc.get(tok), echo(ctx))
    if not isinstance(saw, GeneratorExit):
        apply_muts(e, "close", ctx, node)


def h_closed(node, tok):
    R.closed_toks.add(tok)
    R.ev("closed", EXEC.get(), node, tok)


def h_val(node, tok):
    return [node, tok]


def wants_requeue(plan, ctx):
    return isinstance(ctx, Context) and any(mu["op"] == "requeue" for mu in plan.get("muts") or [])


def end_scratch(e):
    if e in R.scratch:
        unmark_val(R.scratch.pop(e), e)
        R.ev("mut", e, "valtmp-undo", "end", None)


async def h_body(t, tok, kw, ctx, vals, pv=NOPV):
    e = EXEC.get()
    plan = R.plan(e)
    note_broker(e, "task", ctx)
    payload = {"arg": tok, "kw": kw, "echo": echo(ctx), "task": t}
    if pv is not NOPV:
        payload["pv"] = jsonable(pv)
    R.ev("task_start", e, t, payload, vals)
    apply_muts(e, "start", ctx, pv=pv)
    try:
        for d in plan.get("dur") or []:
            await asyncio.sleep(d / 1_000_000)
    except asyncio.CancelledError:
        end_scratch(e)
        R.ev("task_end", e, "cancelled")
        raise
    end_scratch(e)
    apply_muts(e, "end", ctx, pv=pv)
    if pv is not NOPV:
        R.ev("pread", e, "end", jsonable(pv))
    if echo(ctx) is not None:
        R.ev("read", e, "task", 0, echo(ctx))
    if wants_requeue(plan, ctx):
        # the built-in Context.requeue(): bumps X-Taskiq-requeue of ctx.message in place, kicks, raises NoResultError
        R.ev("mut", e, "requeue", "end", None)
        try:
            await ctx.requeue()
        except asyncio.CancelledError:
            R.ev("task_end", e, "cancelled")
            raise
        except NoResultError:
            R.ev("read", e, "task", 0, echo(ctx))
            R.ev("task_end", e, "noresult")
            raise
    return h_finish(e, plan, payload)


def h_body_sync(t, tok, kw, ctx, vals, pv=NOPV):
    e = EXEC.get()
    note_broker(e, "task", ctx)
    payload = {"arg": tok, "kw": kw, "echo": echo(ctx), "task": t}
    if pv is not NOPV:
        payload["pv"] = jsonable(pv)
    R.ev("task_start", e, t, payload, vals)
    apply_muts(e, "start", ctx, pv=pv)
    for d in R.plan(e).get("dur") or []:
        # deps11: virtual time spent inside the thread of a vloop.VPool (nothing in any other thread / pool)
        vloop.thread_vsleep(d)
    end_scratch(e)
    apply_muts(e, "end", ctx, pv=pv)
    if pv is not NOPV:
        R.ev("pread", e, "end", jsonable(pv))
    if echo(ctx) is not None:
        R.ev("read", e, "task", 0, echo(ctx))
    return h_finish(e, R.plan(e), payload)


def plan_exc(plan, payload):
    """(outcome, the object to raise or None) the plan asks of the task's own code"""
    o = plan.get("outcome", "return")
    exc = None
    if o != "return" and plan.get("exc"):
        if EXC_KINDS[plan["exc"]][1] != o:
            raise RuntimeError("harness: exception kind %r does not stand for outcome %r" % (plan["exc"], o))
        exc = make_exc(plan["exc"], payload, bool(plan.get("exc_shared")))
    elif o == "raise":
        exc = ValueError(payload)
    elif o == "base":
        exc = BodyBase(payload)
    elif o == "noresult":
        exc = NoResultError()
    return o, exc


def h_finish(e, plan, payload):
    o, exc = plan_exc(plan, payload)
    R.ev("task_end", e, o)
    if exc is None:
        return payload
    R.ev("raised", e, type(exc).__name__, "task")
    raise exc


# --------------------------------------------------------------------------- task callables of other kinds (`fn`)
# kinds whose registered callable does the work inside its own call (ordinary task_start / task_end events) ...
FN_INLINE = ("async_wraps_sync", "async_wraps_async", "partial_async", "partial_sync", "callable_sync")
# ... and kinds whose registered callable is not a coroutine function for asyncio but hands back an awaitable
FN_AWAITABLE = ("sync_wraps_async", "ret_coro", "ret_awaitable", "ret_future", "callable_async", "async_ret_coro")
FN_KINDS = FN_INLINE + FN_AWAITABLE
# kinds that never need the thread pool (awaited on the loop by run_task)
FN_ON_LOOP = ("async_wraps_sync", "async_wraps_async", "partial_async", "async_ret_coro")


class Lazy:
    """an awaitable that is neither a coroutine nor a Future: an object with __await__ (the work starts when awaited)"""

    def __init__(self, coro):
        self.coro = coro

    def __await__(self):
        return self.coro.__await__()


class HeldFuture(asyncio.Future):
    """an asyncio.Future that already holds the outcome of the task; says when somebody takes the outcome out by
    awaiting it (nothing of the task's code runs then)"""

    verif = None        # (run, execution, outcome, class name of the held exception or None)

    def __await__(self):
        run, e, o, cls = self.verif
        if R is run:
            who = EXEC.get()
            R.ev("future_awaited", e if who is None else who, o)
            if cls is not None:
                R.ev("future_raised", e if who is None else who, cls)
        return (yield from super().__await__())

    __iter__ = __await__


async def h_inner(t, tok, kw, ctx, vals, pv=NOPV):
    """the real work of a task whose registered callable only hands back an awaitable.  Runs when (if ever) somebody
    awaits that awaitable; says what it finds: which of the dependency values it holds are already finalised."""
    e = EXEC.get()
    plan = R.plan(e)
    payload = {"arg": tok, "kw": kw, "echo": echo(ctx), "task": t}

    def state():
        return [[v[0], bool(v[1] in R.closed_toks)] for v in vals if isinstance(v, list) and len(v) == 2]

    R.ev("inner_start", e, t, state())
    try:
        for d in plan.get("dur") or []:
            await asyncio.sleep(d / 1_000_000)
    except asyncio.CancelledError:
        R.ev("inner_end", e, "cancelled", state())
        raise
    o, exc = plan_exc(plan, payload)
    R.ev("inner_end", e, o, state())
    if exc is None:
        return payload
    R.ev("inner_raised", e, type(exc).__name__)
    raise exc


def h_outer(kind, t, tok, kw, ctx, vals, pv=NOPV, aw=None):
    """the call of a registered callable that hands back an awaitable: this call IS the task function for the framework
    (it is not a coroutine function).  Nothing of the awaitable runs here."""
    e = EXEC.get()
    payload = {"arg": tok, "kw": kw, "echo": echo(ctx), "task": t}
    if pv is not NOPV:
        payload["pv"] = jsonable(pv)
    R.ev("task_start", e, t, payload, vals)
    if aw is None:
        if kind == "ret_future":
            # an asyncio.Future that already holds the outcome (nothing is left to run; made in the worker thread,
            # no callbacks yet, so nothing of the loop is touched)
            aw = HeldFuture(loop=R.loop)
            o, exc = plan_exc(R.plan(e), payload)
            if exc is None:
                aw.set_result(payload)
            else:
                aw.set_exception(exc)
            aw.verif = (R, e, o, None if exc is None else type(exc).__name__)
            R.ev("future_holds", e, o, None if exc is None else type(exc).__name__)
        else:
            aw = h_inner(t, tok, kw, ctx, vals, pv)
            if kind == "ret_awaitable":
                aw = Lazy(aw)
    R.awaitables.append(aw)
    R.ev("returns_awaitable", e, kind, type(aw).__name__)
    R.ev("task_end", e, "return")
    return aw


def h_outer_wrapped(kind, t, fn, args, kwargs):
    """the same for a wrapper that only knows *args / **kwargs (a decorator that is not async-aware): the coroutine
    function `fn` is called - which runs nothing of it - and its coroutine handed back"""
    a = inspect.signature(fn).bind(*args, **kwargs).arguments
    vals = [a[k] for k in sorted((k for k in a if k[:1] == "d" and k[1:].isdigit()), key=lambda k: int(k[1:]))]
    return h_outer(kind, t, a["tok"], a.get("kw", -1), h_view(a.get("ctx")), vals, a.get("pv", NOPV), aw=fn(*args, **kwargs))


def not_async_aware(kind, t):
    """a decorator as they are written by people who have plain functions in mind"""
    def deco(fn):
        @functools.wraps(fn)
        def wrapper(*args, **kwargs):
            return h_outer_wrapped(kind, t, fn, args, kwargs)
        return wrapper
    return deco


def async_aware(fn):
    """a decorator whose wrapper is a coroutine function, around a plain or a coroutine function"""
    @functools.wraps(fn)
    async def wrapper(*args, **kwargs):
        res = fn(*args, **kwargs)
        if inspect.isawaitable(res):
            res = await res
        return res
    return wrapper


def settle_awaitables(run):
    """after the case: what nobody awaited is closed (a coroutine that never started runs no code when it is closed); a
    Future's stored exception is marked as looked at"""
    for aw in run.awaitables:
        co = aw.coro if isinstance(aw, Lazy) else aw
        if isinstance(co, asyncio.Future):
            if co.done() and not co.cancelled():
                co.exception()
        elif inspect.iscoroutine(co):
            co.close()


# --------------------------------------------------------------------------- generated code
def src_param(src):
    """the parameter `ctx` of a node / a task function: how it comes by its Context / message / broker"""
    if not src:
        return "ctx: Context = TaskiqDepends()"
    cached = bool(src.get("cached", True))
    if src["kind"] == "prov":
        return "ctx=TaskiqDepends(prov_%d, use_cache=%s)" % (src["prov"], cached)
    ann = {"ctx": "Context", "msg": "TaskiqMessage", "brk": "AsyncBroker"}[src["kind"]]
    return "ctx: %s = TaskiqDepends(use_cache=%s)" % (ann, cached)


def prov_src(k, p):
    head = "def prov_%d(ctx: Context = TaskiqDepends(use_cache=%s)):\n    h_prov(%d, ctx)\n" % (k, bool(p.get("pc", True)), k)
    pick = "h_pick(%r, ctx)" % p["get"]
    st = p["style"]
    if st == "plain":
        return head + "    return %s\n" % pick
    if st == "coro":
        return "async " + head + "    await h_pause_open(None, None)\n    return %s\n" % pick
    if st == "gen":
        return head + "    yield %s\n" % pick
    if st == "agen":
        return "async " + head + "    await h_pause_open(None, None)\n    yield %s\n" % pick
    raise ValueError(st)


def node_src(k, n):
    params = []
    if n.get("ctx"):
        params.append(src_param(n.get("src")))
    if n.get("user"):
        params.append("ucfg: UserCfg = TaskiqDepends()")
    vals = []
    for j, (child, cached) in enumerate(n.get("subs", [])):
        params.append("p%d=TaskiqDepends(node_%d, use_cache=%s)" % (j, child, bool(cached)))
        vals.append("p%d" % j)
    sig = ", ".join(params)
    cxo = ("h_view(ctx)" if n.get("src") else "ctx") if n.get("ctx") else "None"
    cx = cxo + (", ucfg" if n.get("user") else "")
    st = n["style"]
    swallow = bool(n.get("swallow"))
    tail = ("    h_close({k}, tok, saw, {cxo})\n{post}    h_closed({k}, tok)\n"
            "    if saw is not None and (not {sw} or isinstance(saw, GeneratorExit)):\n        raise saw\n")
    if st == "plain":
        return ("def node_{k}({sig}):\n    tok = h_enter({k}, {cx})\n    h_fail({k}, tok, 'early')\n"
                "    return h_val({k}, tok)\n").format(k=k, sig=sig, cx=cx)
    if st == "coro":
        return ("async def node_{k}({sig}):\n    tok = h_enter({k}, {cx})\n    h_fail({k}, tok, 'early')\n"
                "    await h_pause_open({k}, tok)\n    h_fail({k}, tok, 'late')\n    return h_val({k}, tok)\n").format(k=k, sig=sig, cx=cx)
    if st in ("gen", "cm"):
        deco = "@contextlib.contextmanager\n" if st == "cm" else ""
        return (deco + "def node_{k}({sig}):\n    tok = h_enter({k}, {cx})\n    h_fail({k}, tok, 'early')\n"
                "    saw = None\n    h_ready({k}, tok)\n    try:\n        yield h_val({k}, tok)\n"
                "    except BaseException as ex:\n        saw = ex\n" + tail).format(k=k, sig=sig, cx=cx, sw=swallow, post="", cxo=cxo)
    if st in ("agen", "acm"):
        deco = "@contextlib.asynccontextmanager\n" if st == "acm" else ""
        post = "    if not isinstance(saw, GeneratorExit):\n        await h_pause(True)\n"
        return (deco + "async def node_{k}({sig}):\n    tok = h_enter({k}, {cx})\n    h_fail({k}, tok, 'early')\n"
                "    await h_pause_open({k}, tok)\n    h_fail({k}, tok, 'late')\n"
                "    saw = None\n    h_ready({k}, tok)\n    try:\n        yield h_val({k}, tok)\n"
                "    except BaseException as ex:\n        saw = ex\n" + tail).format(k=k, sig=sig, cx=cx, sw=swallow, post=post, cxo=cxo)
    raise ValueError(st)


def task_src(t, spec):
    params = ["tok: int", "kw: int = -1"]
    if spec.get("val"):
        # second positional parameter: args = [tok, pv] or kwargs = {"pv": ...}
        params.insert(1, "pv: ANN_%s = None" % spec["val"])
    if spec.get("ctx"):
        params.append(src_param(spec.get("src")))
    vals = []
    for j, (child, cached) in enumerate(spec.get("deps", [])):
        params.append("d%d=TaskiqDepends(node_%d, use_cache=%s)" % (j, child, bool(cached)))
        vals.append("d%d" % j)
    cx = ("h_view(ctx)" if spec.get("src") else "ctx") if spec.get("ctx") else "None"
    pv = ", pv" if spec.get("val") else ""
    fn = spec.get("fn")
    if fn is not None:
        return fn_src(t, fn, params, "%d, tok, kw, %s, [%s]%s" % (t, cx, ", ".join(vals), pv))
    if spec.get("sync"):
        return "def task_%d(%s):\n    return h_body_sync(%d, tok, kw, %s, [%s]%s)\n" % (
            t, ", ".join(params), t, cx, ", ".join(vals), pv)
    return "async def task_%d(%s):\n    return await h_body(%d, tok, kw, %s, [%s]%s)\n" % (
        t, ", ".join(params), t, cx, ", ".join(vals), pv)


def fn_src(t, fn, params, call):
    """source of task_<t> for the callable kind `fn` (see the module docstring); same parameters as the ordinary forms"""
    sig = ", ".join(params)
    if fn == "async_wraps_sync":
        return "@async_aware\ndef task_%d(%s):\n    return h_body_sync(%s)\n" % (t, sig, call)
    if fn == "async_wraps_async":
        return "@async_aware\nasync def task_%d(%s):\n    return await h_body(%s)\n" % (t, sig, call)
    if fn == "sync_wraps_async":
        return "@not_async_aware('%s', %d)\nasync def task_%d(%s):\n    return await h_inner(%s)\n" % (fn, t, t, sig, call)
    if fn in ("ret_coro", "ret_awaitable", "ret_future"):
        return "def task_%d(%s):\n    return h_outer('%s', %s)\n" % (t, sig, fn, call)
    if fn == "async_ret_coro":
        # a coroutine function whose RESULT is another awaitable (it hands the coroutine of the real work back un-awaited)
        return "async def task_%d(%s):\n    return h_outer('%s', %s)\n" % (t, sig, fn, call)
    if fn in ("partial_async", "partial_sync"):
        # a partial object has no type hints of its own for the resolver to read (it looks at `__call__`): what `ctx` is
        # to be (Context / TaskiqMessage / AsyncBroker) is named explicitly instead of through the annotation
        sig2 = re.sub(r"ctx: (\w+) = TaskiqDepends\(", r"ctx: \1 = TaskiqDepends(\1, ", ", ".join(params + ["bound: int = 0"]))
        body = ("async def base_%d(%s):\n    return await h_body(%s)\n" if fn == "partial_async" else
                "def base_%d(%s):\n    return h_body_sync(%s)\n") % (t, sig2, call)
        return body + "task_%d = functools.update_wrapper(functools.partial(base_%d, bound=7), base_%d)\n" % (t, t, t)
    if fn in ("callable_sync", "callable_async"):
        sig3 = ", ".join(["self"] + params)
        head = ("class Job_%d:\n    attempts: int = 0\n\n    def __init__(self):\n        self.__name__ = 'job_%d'\n\n" % (t, t))
        if fn == "callable_sync":
            meth = "    def __call__(%s):\n        return h_body_sync(%s)\n" % (sig3, call)
        else:
            # `async def __call__`: asyncio.iscoroutinefunction(instance) is False, the call hands back the coroutine
            meth = ("    @not_async_aware('%s', %d)\n    async def __call__(%s):\n        return await h_inner(%s)\n"
                    % (fn, t, sig3, call))
        return head + meth + "task_%d = Job_%d()\n" % (t, t)
    raise ValueError(fn)


# --------------------------------------------------------------------------- the producer's side (`pobj` / `prod`)
# A message plan with `pobj` = {"obj": k, "after": None | "scribble" | "clear", "delay": microseconds} is not built before
# the case starts: the PRODUCER keeps argument object number k for the whole case, rewrites it in place to the value
# this message is to carry (`raw` of the plan) the moment the message is kicked, sends it through the real sending side
# (the task's kicker, or TaskiqMessage + the broker's own formatter), and - `after` - goes on using the object for its own
# purposes when it has control again (at once, or `delay` later).  What the message carried is what was serialized.
def refill(obj, target):
    """the producer rewrites its object in place to `target`; containers nested in it stay the objects they are wherever
    the shape allows (a reused buffer: `rows.clear(); rows.extend(...)`, `job["chunk"] = n`)"""
    import copy
    if isinstance(obj, dict):
        for k in [k for k in obj if k not in target]:
            del obj[k]
        for k, v in target.items():
            cur = obj.get(k)
            if k in obj and type(cur) is type(v) and isinstance(v, (dict, list)):
                refill(cur, v)
            else:
                obj[k] = copy.deepcopy(v)
    else:
        same = len(obj) == len(target) and all(type(a) is type(b) for a, b in zip(obj, target))
        if not same:
            obj[:] = copy.deepcopy(target)
            return
        for k, v in enumerate(target):
            if isinstance(v, (dict, list)):
                refill(obj[k], v)
            else:
                obj[k] = v


def scribble(obj):
    """the producer goes on working with its object after the kick: every field gets another value, something is added"""
    items = list(obj.items()) if isinstance(obj, dict) else list(enumerate(obj))
    for k, v in items:
        if isinstance(v, (dict, list)):
            scribble(v)
        elif isinstance(v, int) and not isinstance(v, bool):
            obj[k] = v + 500000
        elif isinstance(v, str):
            obj[k] = "dead:" + v
    if isinstance(obj, dict):
        obj["dead"] = 1
    else:
        obj.append(777000)


def produce_after(i, m):
    """what the producer does with its object once it has control again after kicking delivery i"""
    po = m["pobj"]
    how = po.get("after")
    if not how:
        return
    run = R

    def act():
        if R is not run:
            return
        obj = R.pobjs[po["obj"]]
        if how == "clear":
            obj.clear()
        else:
            scribble(obj)
        if R.pbufs is not None:
            for buf in R.pbufs:
                buf.clear()
        R.ev("prod_after", i, how)

    if po.get("delay"):
        R.loop.call_later(po["delay"] / 1_000_000, act)
    else:
        act()


# --------------------------------------------------------------------------- recording collaborators
def payload_of(err):
    """the payload the stored exception carries (the task function's, see h_finish); for an exception group that of
    its first sub-exception that carries one"""
    if err is None:
        return None
    if err.args and isinstance(err.args[0], dict):
        return err.args[0]
    if isinstance(err, BaseExceptionGroup):
        for sub in err.exceptions:
            got = payload_of(sub)
            if got is not None:
                return got
    return None


def summarize(result):
    err = result.error
    rv = result.return_value
    if inspect.isawaitable(rv):
        ret = "<awaitable %s>" % type(rv).__name__      # no addresses in an observation
    else:
        ret = rv if isinstance(rv, (dict, type(None))) else repr(rv)[:80]
    return {"is_err": bool(result.is_err), "ret": ret,
            "err": None if err is None else type(err).__name__,
            "err_payload": payload_of(err),
            "who": result.labels.get("who") if isinstance(result.labels, dict) else None,
            "labels": jsonable(result.labels) if isinstance(result.labels, dict) else repr(result.labels)[:60]}


class RecBackend(AsyncResultBackend):
    async def set_result(self, task_id, result):
        e = EXEC.get()
        R.ev("save", e, task_id, summarize(result))
        plan = R.plan(e)
        if plan.get("save_pause") is not None:
            await asyncio.sleep(plan["save_pause"] / 1_000_000)
        if plan.get("save_fail"):
            R.ev("save_fail", e)
            raise RuntimeError("backend down")
        R.ev("saved", e, task_id)

    async def is_result_ready(self, task_id):
        return False

    async def get_result(self, task_id, with_logs=False):
        raise KeyError(task_id)


class RecMiddleware(TaskiqMiddleware):
    async def pre_execute(self, message):
        R.ev("pre_execute", EXEC.get(), message.task_id)
        await h_pause()
        return message

    async def on_error(self, message, result, exception):
        R.ev("on_error", EXEC.get(), message.task_id, type(exception).__name__)
        await h_pause()

    def post_execute(self, message, result):
        R.ev("post_execute", EXEC.get(), message.task_id)

    async def post_save(self, message, result):
        R.ev("post_save", EXEC.get(), message.task_id)


ACK = {"when_received": AcknowledgeType.WHEN_RECEIVED, "when_executed": AcknowledgeType.WHEN_EXECUTED,
       "when_saved": AcknowledgeType.WHEN_SAVED}


def tree_of(c):
    return {"cid": R.cid[id(c)],
            "own": [R.objtok.get(id(d)) for d in c.opened_dependencies if not (codename(d) or "").startswith("prov_")],
            "subs": [tree_of(s) for s in c.sub_contexts]}


def run_case(case, opts):
    global R
    R = Run(case)
    try:
        return _run_case(case)
    finally:
        R = None


def _run_case(case):
    mod = types.ModuleType("verif_deps_generated")
    sys.modules[mod.__name__] = mod
    ns = mod.__dict__
    ns.update(TaskiqMessage=TaskiqMessage, AsyncBroker=AsyncBroker, h_view=h_view, h_prov=h_prov, h_pick=h_pick)
    ns.update(UserCfg=UserCfg, Context=Context, TaskiqDepends=TaskiqDepends, contextlib=contextlib, h_enter=h_enter, h_fail=h_fail,
              h_pause=h_pause, h_pause_open=h_pause_open, h_ready=h_ready, h_close=h_close, h_closed=h_closed, h_val=h_val, h_body=h_body,
              h_body_sync=h_body_sync, h_inner=h_inner, h_outer=h_outer, not_async_aware=not_async_aware,
              async_aware=async_aware, functools=functools)
    ns.update({"ANN_" + k: a for k, a in ANNS.items()})
    run = R

    def this_run_only(fn):
        # a dependency object the framework never finalised may be finalised by the garbage collector while a later
        # case runs in this process: that is not an event of the later case
        def guarded(*a, **k):
            return fn(*a, **k) if R is run else None
        return guarded

    ns.update(h_close=this_run_only(h_close), h_closed=this_run_only(h_closed))
    for k, p in enumerate(case.get("provs") or []):
        exec(prov_src(k, p), ns)
    for k, n in enumerate(case["nodes"]):
        exec(node_src(k, n), ns)
    validate = bool(case.get("validate", True))
    path = case.get("path") or {"kind": "direct"}
    kind = path["kind"]
    extra = {k: path[k] for k in ("max_async_tasks", "await_inplace", "sync_tasks_pool_size") if kind == "inmemory" and k in path}
    broker = InMemoryBroker(propagate_exceptions=bool(case.get("propagate", True)), cast_types=validate, **extra)
    broker.result_backend = RecBackend()

    def set_serializer():
        # one serializer object per case (per broker), used for every message of the case - both directions
        if case.get("ser") == "pickle":
            from taskiq.serializers import PickleSerializer
            broker.with_serializer(PickleSerializer())
        elif case.get("ser") == "json":
            from taskiq.serializers import JSONSerializer
            broker.with_serializer(JSONSerializer())
        elif case.get("ser") is not None:
            raise ValueError(case["ser"])

    if not case.get("ser_late"):
        set_serializer()
    if case.get("fmt") == "proxy":
        from taskiq.formatters.proxy_formatter import ProxyFormatter
        broker.with_formatter(ProxyFormatter(broker))
    elif case.get("fmt") == "json":
        from taskiq.formatters.json_formatter import JSONFormatter
        broker.with_formatter(JSONFormatter())
    if case.get("middleware", True):
        broker.add_middlewares(RecMiddleware())
    if case.get("user_ctx") is not None:
        broker.add_dependency_context({UserCfg: UserCfg(int(case["user_ctx"]))})
    R.broker = broker
    for t, spec in enumerate(case["tasks"]):
        exec(task_src(t, spec), ns)
        # labels a task is declared with (normally merged into the message by the kicker; a message built by another
        # client - as here - carries only what it was sent with)
        broker.register_task(ns["task_%d" % t], task_name=tname(case, t), **(spec.get("labels") or {}))
    if case.get("overrides"):
        # resolved per execution: async_ctx builds a new DependencyGraph(target, replaced_deps) for every message
        broker.dependency_overrides = {ns["node_%d" % a]: ns["node_%d" % b] for a, b in case["overrides"]}
    ack = case.get("ack", "when_saved")
    tasks_decl = [broker.find_task(tname(case, t)) for t in range(len(case["tasks"]))]
    live = None
    if kind == "inmemory":
        receiver = None                     # whatever receiver the broker holds when a delivery is kicked
    elif kind == "api" and path.get("run") is not None:
        import cli_glue
        receiver = None                     # whatever receiver run_receiver_task has built when a delivery is served
        live = cli_glue.FlakyFeed(path["run"].get("drops"))
        broker.listen = live.listen
    elif kind == "listen":
        # deps11: a worker that stops while executions are in flight (see main_listen)
        receiver = None
        stop_cfg = dict(path.get("stop") or {})
        live = ending_feed(len(case["msgs"]) if stop_cfg.get("how") == "exhausted" else None)
        broker.listen = live.listen
        if path.get("argv") is not None:
            import cli_glue
            listen_kw = cli_glue.receiver_kwargs_via_cli(list(path["argv"]), InMemoryBroker())
        else:
            listen_kw = dict(validate_params=validate, propagate_exceptions=bool(case.get("propagate", True)),
                             ack_type=ACK[ack], **(path.get("kwargs") or {}))
        listen_kw.setdefault("run_startup", False)
        budget = listen_kw.get("max_tasks_to_execute")
        if budget and budget < len(case["msgs"]):
            raise RuntimeError("harness: ill-formed case, max_tasks_to_execute %r < %d deliveries" % (budget, len(case["msgs"])))
    elif kind in ("cli", "api"):
        # the keyword arguments of the Receiver as the real command line / the real run_receiver_task compute them
        # (on a throw-away broker, before the virtual-time loop exists)
        import cli_glue
        if kind == "cli":
            kw = cli_glue.receiver_kwargs_via_cli(list(path["argv"]), InMemoryBroker())
        else:
            akw = dict(path["kwargs"])
            if akw.get("ack_time") is not None:
                akw["ack_time"] = ACK[akw["ack_time"]]
            kw = cli_glue.receiver_kwargs_via_api(akw, InMemoryBroker())
        kw.setdefault("run_startup", False)
        receiver = Receiver(broker=broker, executor=broker.executor, **kw)
    elif case.get("via_inmemory") and ack == "when_saved":
        receiver = broker.receiver          # the receiver InMemoryBroker builds itself (propagate flag plumbed by it)
    else:
        receiver = Receiver(broker=broker, executor=broker.executor, validate_params=validate, max_async_tasks=None,
                            propagate_exceptions=bool(case.get("propagate", True)), run_startup=False,
                            ack_type=ACK[ack])
    real_kick = broker.kick

    async def rec_kick(message):
        e = EXEC.get()
        if e in R.sending:
            # the delivery of execution e itself, sent by the driver through the real kicker: the broker's real kick()
            R.sending.discard(e)
            return await real_kick(message)
        # Context.requeue() ends here: nothing is executed again, the re-sent message is only recorded
        R.ev("kick", e, message.task_id, jsonable(message.labels))
        await asyncio.sleep(0)

    broker.kick = rec_kick
    datas, sent, calls = [], {}, []
    via_kicker = kind == "inmemory" and path.get("send", "kick") == "kicker"

    def fields_of(i, m, held=NOPV, bufs=None):
        # several deliveries may carry one task id (duplicate kick) or be the very same message (redelivery: same
        # content, the same bytes object); executions are identified by the delivery index
        c = m.get("content", i)
        labels, args, kwargs = bufs if bufs is not None else ({}, [], {})
        if not m.get("nolabels"):
            labels["who"] = c
        if m.get("timeout") is not None and not m.get("nolabels"):
            labels["timeout"] = m["timeout"] / 1_000_000
        # extra string labels, keys and values exactly as the plan has them
        labels.update(m.get("slabels") or {})
        args.append(c)
        if m.get("kw", True):
            kwargs["kw"] = c
        if m.get("raw") is not None and case["tasks"][m["task"]].get("val"):
            # the raw value of the validated parameter, exactly as generated (equal raw values on several messages
            # are frequent) - or the object the producer holds (`pobj`) -, second positional argument or keyword argument
            if m.get("by", "pos") == "pos":
                args.append(m["raw"] if held is NOPV else held)
            else:
                kwargs["pv"] = m["raw"] if held is NOPV else held
        # the task id the message carries: verbatim when the plan names one
        return dict(task_id=m["tids"] if "tids" in m else "m%d" % m.get("tid", i), task_name=tname(case, m["task"]),
                    labels=labels, labels_types=None, args=args, kwargs=kwargs)

    def dump(m, fields):
        w = m.get("wire") or {}
        if w.get("via") == "raw":
            # written by hand, as a producer that is not this client would: nothing of taskiq touches the strings
            # before the receiver parses the bytes
            d = dict(fields)
            if w.get("lt") == "omit":
                del d["labels_types"]
            elif w.get("lt") == "dict":
                d["labels_types"] = {}
            keys = list(d)
            random.Random(w.get("order", 0)).shuffle(keys)
            d = {k: d[k] for k in keys}
            return json.dumps(d, ensure_ascii=bool(w.get("ascii", True)),
                              separators=(",", ":") if w.get("compact") else (", ", ": ")).encode("utf-8")
        return broker.formatter.dumps(TaskiqMessage(**fields)).message

    if case.get("ser_late"):
        set_serializer()        # after the Receiver (and the broker's own one) exists, before anything is serialized
    for i, m in enumerate(case["msgs"]):
        if m.get("pobj") is not None:
            # built by the producer when it is kicked (produce)
            datas.append(None)
            calls.append(None)
            continue
        fields = fields_of(i, m)
        if m.get("refs") is not None:
            # equal parts of the message are one object / interned / objects of their own; the values stay what they are
            fields = share_fields(fields, m["refs"])
            R.ev("aliased", i, count_shared(fields))
        data = dump(m, fields)
        datas.append(sent.setdefault(data, data))
        calls.append(types.SimpleNamespace(**fields))

    def produce(i, m):
        """the producer's side of delivery i: its argument object rewritten in place to what this message is to carry,
        the message built around that very object and - unless the task's kicker does that - serialized by the broker's
        own formatter now; then the producer has control again"""
        po = m["pobj"]
        obj = R.pobjs.setdefault(po["obj"], type(m["raw"])())
        if type(obj) is not type(m["raw"]) or not isinstance(obj, (dict, list)):
            raise RuntimeError("harness: producer object %r cannot hold %r" % (po["obj"], m["raw"]))
        refill(obj, m["raw"])
        bufs = None
        if (case.get("prod") or {}).get("reuse"):
            # one labels dict / args list / kwargs dict for every kick
            if R.pbufs is None:
                R.pbufs = ({}, [], {})
            for buf in R.pbufs:
                buf.clear()
            bufs = R.pbufs
        fields = fields_of(i, m, obj, bufs)
        calls[i] = types.SimpleNamespace(**fields)
        R.ev("kicked", i, {"args": jsonable(fields["args"]), "kwargs": jsonable(fields["kwargs"]),
                           "labels": jsonable(fields["labels"])})
        if not via_kicker:
            datas[i] = dump(m, fields)
            produce_after(i, m)

    async def send(i, m):
        """delivery i handed to the InMemoryBroker: it spawns (or, await_inplace, awaits) the callback of the receiver
        it holds now.  The spawned task carries this runner's execution tag; it is awaited here."""
        msg = calls[i]
        R.ev("cb_start", i)
        err = None
        try:
            if path.get("send", "kick") == "kicker":
                decl = tasks_decl[m["task"]]
                if decl.labels:
                    # a task declared with labels: its own kicker would merge them into the message; the case says
                    # what the message carries
                    kicker = AsyncKicker(task_name=decl.task_name, broker=broker, labels={})
                else:
                    kicker = decl.kicker()
                R.sending.add(i)
                await kicker.with_task_id(msg.task_id).with_labels(**msg.labels).kiq(*msg.args, **msg.kwargs)
                if m.get("pobj") is not None:
                    produce_after(i, m)     # the kicker has serialized the message; the producer has control again
            else:
                await real_kick(BrokerMessage(task_id=msg.task_id, task_name=msg.task_name, message=datas[i],
                                              labels=msg.labels))
            me = asyncio.current_task()
            mine = [t for t in asyncio.all_tasks() if t is not me and t.get_context().get(EXEC) == i]
            for res in await asyncio.gather(*mine, return_exceptions=True):
                if isinstance(res, BaseException) and err is None:
                    err = type(res).__name__ + ": " + str(res)[:200]
        except BaseException as ex:  # noqa: B902 - an escaping exception is an observation
            err = type(ex).__name__ + ": " + str(ex)[:200]
        finally:
            R.sending.discard(i)
        R.ev("cb_done", i, err)

    built, executed_by, finished = [], {}, {}

    class LiveReceiver(Receiver):
        """the receiver class handed to run_receiver_task: construction and everything else is Receiver's own; callback()
        finds out which delivery it was given, tags the execution and calls the real callback()"""

        def __init__(self, *a, **kw):
            built.append(sorted(k for k in kw if k not in ("broker", "executor")))
            self.verif_no = len(built) - 1
            super().__init__(*a, **kw)

        async def callback(self, message, raise_err=False):
            i = live.take(message)
            EXEC.set(i)
            executed_by[i] = self.verif_no
            R.ev("cb_start", i)
            try:
                await super().callback(message=message, raise_err=raise_err)
                R.ev("cb_done", i, None)
            except BaseException as ex:  # noqa: B902 - an escaping exception is an observation
                R.ev("cb_done", i, type(ex).__name__ + ": " + str(ex)[:200])
            finally:
                if not finished[i].done():
                    finished[i].set_result(None)

    async def runner(i, m):
        EXEC.set(i)
        if m.get("start"):
            await asyncio.sleep(m["start"] / 1_000_000)
        if m.get("pobj") is not None:
            produce(i, m)
        if receiver is None and live is None:
            return await send(i, m)
        akind = m.get("ackable", "sync")
        if akind == "none":
            message = datas[i]
        elif akind == "sync":
            message = AckableMessage(data=datas[i], ack=lambda: R.ev("ack", i))
        else:
            async def aack():
                R.ev("ack", i)
                await asyncio.sleep(0)
            message = AckableMessage(data=datas[i], ack=aack)
        if live is not None:
            # handed to the scripted listen(); the receiver run_receiver_task holds when it is served executes it
            live.put(i, message)
            return await finished[i]
        R.ev("cb_start", i)
        try:
            await receiver.callback(message, raise_err=False)
            R.ev("cb_done", i, None)
        except BaseException as ex:  # noqa: B902 - an escaping exception is an observation
            R.ev("cb_done", i, type(ex).__name__ + ": " + str(ex)[:200])

    async def stop(worker):
        # A cancellation that reaches run_receiver_task in the very moment its listen() fails is lost: the task group
        # of Receiver.listen raises the group of its children's errors instead of CancelledError, run_receiver_task
        # takes that for one more failure of listen() and goes on with a new receiver.  So: cancel until it has ended.
        for _ in range(50):
            if worker.done():
                break
            worker.cancel()
            await asyncio.wait({worker}, timeout=1)
        if not worker.done():
            raise RuntimeError("run_receiver_task does not end when it is cancelled")
        await asyncio.gather(worker, return_exceptions=True)

    # ---- deps11 ------------------------------------------------------------------------------------------------------
    stop_info = {}

    async def main_listen(loop):
        """Receiver.listen() for real; the worker stops (budget / exhausted listen() / finish event) while executions are
        in flight, waits wait_tasks_timeout for them, returns - and the loop runs on until everything has settled"""
        n = len(case["msgs"])
        how = stop_cfg.get("how", "event")
        finish_event = asyncio.Event()
        pool = vloop.VPool(loop, max_workers=int(path.get("pool") or 2))
        stop_info.update(how=how, pool=pool, fallback=False, mark=None, at_us=None)

        def on_exit(rec):
            # called by Receiver.listen() right after its task group (prefetcher + runner) has ended
            stop_info["mark"] = len(R.log)
            stop_info["at_us"] = loop.time_us()

        for i in range(n):
            finished[i] = loop.create_future()
        rec = LiveReceiver(broker=broker, executor=pool, on_exit=on_exit, **listen_kw)
        stop_info.update(wait_tasks_timeout=rec.wait_tasks_timeout, budget=rec.max_tasks_to_execute)
        listener = asyncio.create_task(rec.listen(finish_event))

        async def stopper():
            while len(executed_by) < n:
                await asyncio.sleep(0.0005)
            await asyncio.sleep(int(stop_cfg.get("after") or 0) / 1_000_000)
            stop_info["event_set_us"] = loop.time_us()
            finish_event.set()

        stopping = asyncio.create_task(stopper()) if how == "event" else None
        runners = asyncio.gather(*[asyncio.create_task(runner(i, m)) for i, m in enumerate(case["msgs"])])
        # the executions go on whether or not listen() has returned
        await asyncio.wait({runners}, timeout=900)
        if not runners.done():
            state = "is still listening" if not listener.done() else "has returned"
            for f in finished.values():
                if not f.done():
                    f.set_result(None)
            await asyncio.gather(runners, return_exceptions=True)
            listener.cancel()
            await asyncio.gather(listener, return_exceptions=True)
            raise RuntimeError("deliveries %s handed to listen() were never executed to the end; listen() %s"
                               % ([i for i in range(n) if i not in executed_by], state))
        runners.result()
        # ... and so does whatever is still in the thread pool
        for _ in range(2_000_000):
            if not (pool.queued or pool.running or pool.parked or pool.delivering):
                break
            await asyncio.sleep(0.001)
        else:
            raise RuntimeError("the thread pool of the worker never became idle")
        await asyncio.sleep(1.0)
        if stopping is not None:
            await stopping
        if not listener.done():
            # the stop the case asked for did not come about (e.g. a budget larger than the number of deliveries after a
            # reduction): the finish event ends the worker now, nothing is in flight any more
            stop_info["fallback"] = True
            finish_event.set()
            await asyncio.wait({listener}, timeout=30)
        if not listener.done():
            listener.cancel()
            await asyncio.gather(listener, return_exceptions=True)
            raise RuntimeError("Receiver.listen() does not return after the finish event was set")
        if listener.cancelled() or listener.exception() is not None:
            raise RuntimeError("Receiver.listen() ended with %r" % ("cancelled" if listener.cancelled() else listener.exception(),))
    # ---- end deps11 --------------------------------------------------------------------------------------------------

    async def main(loop):
        if kind == "listen":
            return await main_listen(loop)
        if kind == "inmemory":
            for op in path.get("life") or []:
                await {"startup": broker.startup, "shutdown": broker.shutdown}[op]()
        worker = None
        if live is not None:
            from taskiq.api import run_receiver_task
            akw = dict(path["kwargs"])
            if akw.get("ack_time") is not None:
                akw["ack_time"] = ACK[akw["ack_time"]]
            for i in range(len(case["msgs"])):
                finished[i] = loop.create_future()
            worker = asyncio.create_task(run_receiver_task(broker, receiver_cls=LiveReceiver, **akw))
        runners = asyncio.gather(*[asyncio.create_task(runner(i, m)) for i, m in enumerate(case["msgs"])])
        if worker is None:
            await runners
        else:
            await asyncio.wait({worker, runners}, return_when=asyncio.FIRST_COMPLETED, timeout=900)
            if not runners.done():
                state = "is still listening"
                if worker.done():
                    state = "ended: %r" % (worker.exception() if not worker.cancelled() else "cancelled",)
                for f in finished.values():
                    if not f.done():
                        f.set_result(None)
                await asyncio.gather(runners, return_exceptions=True)
                await stop(worker)
                raise RuntimeError("deliveries %s handed to listen() were never executed to the end; run_receiver_task %s"
                                   % ([i for i in finished if i not in executed_by or not finished[i].done()], state))
            runners.result()
            await stop(worker)
        if kind == "inmemory":
            await broker.wait_all()

    loop = PoolLoop(0) if kind == "listen" else Loop(0)
    asyncio.set_event_loop(loop)
    R.loop = loop
    try:
        try:
            loop.run_until_complete(main(loop))
        finally:
            settle_awaitables(R)
        subs = {id(s) for c in R.ctxs for s in c.sub_contexts}
        trees = [tree_of(c) for c in R.ctxs if id(c) not in subs]
        log = list(R.log)
        # anything finalised only now (by the loop shutting down generators) was not finalised by taskiq
        R.ev("end_of_run")
        loop.run_until_complete(loop.shutdown_asyncgens())
        late = R.log[len(log) + 1:]
    finally:
        try:
            broker.executor.shutdown(wait=True)
            if stop_info.get("pool") is not None:
                stop_info["pool"].shutdown(wait=True)
        except BaseException:  # noqa: B902
            pass
        asyncio.set_event_loop(None)
        loop.close()
    out = {"log": log, "trees": trees, "late": late}
    if kind == "listen":
        # deps11: how the worker stopped
        out["stop"] = {"how": stop_info.get("how"), "mark": stop_info.get("mark"), "at_us": stop_info.get("at_us"),
                       "event_set_us": stop_info.get("event_set_us"), "fallback": bool(stop_info.get("fallback")),
                       "wait_tasks_timeout": stop_info.get("wait_tasks_timeout"), "budget": stop_info.get("budget"),
                       "receiver_kwargs": built[0] if built else None,
                       "served": sorted(live.served)}
    elif live is not None:
        n = len(case["msgs"])
        out["live"] = {"listens": live.listens, "faults": live.faults, "receivers": built,
                       "served_by_listen": [live.served.get(i) for i in range(n)],
                       "executed_by_receiver": [executed_by.get(i) for i in range(n)]}
    return out
