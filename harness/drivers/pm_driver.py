"""Implementation driver for C17/C18: the real ProcessManager.start() against process/OS fakes.

A case is {"n": workers, "mf": max_fails, "p0": first pid, "ticks": [{"sleep": [ev..], "drain": [[ev..]..],
"alive": [[ev..]..]}, ..]} with ev = ["die", slot] | ["hup"] | ["int"] | ["term"] | ["file"].
  sleep    : delivered inside the fake sleep(1) of that tick
  drain[k] : delivered inside the k-th action_queue.empty() call of that tick (before it answers)
  alive[j] : delivered inside the j-th Process.is_alive() call made by start() itself in that tick
             (the shutdown branch or the liveness scan), before it answers
Python signal handlers, the watchdog thread and worker deaths are asynchronous to the loop; these are
the points at which the fakes let them happen.  When the script is exhausted the next sleep() raises Stop.

Startup windows.  An event may carry a trailing marker {"at": "start" | "poll" | "wait", "j": k}: it happens EARLIER
than its home point, inside the startup window that precedes it -
  home = sleep of the first tick : inside prepare_workers - in Process.start() of worker k ("start"), in the
         is_alive() call of worker k's startup wait before it answers ("poll"), in the Event.wait() of that wait;
  home = drain[k'] of a tick     : inside the ReloadOneAction.handle that ran since the previous empty() call - in
         new_process.start(), in the is_alive() / Event.wait() of its startup wait ("j" is not looked at).
Marked events are a prefix of their list, in the order in which the points occur; whatever was not delivered early
(the window or the point did not occur - a wait whose process is already dead never calls Event.wait) is delivered
at the home point.  Nothing between a startup window and the home point that follows it looks at the queue or at a
worker, so for the statements (and for the model) early = at home - except that the is_alive() of a startup wait,
like every is_alive(), reaps: ["dies", slot] is a death that is polled right away (Live -> Reaped).  The fake
leaves the process a zombie when its startup poll is still to come (the code under test then reaps it itself) and
reaps it at once otherwise (any poll outside the manager's loop - multiprocessing polls all children in every
Process.start() / active_children()).  A "dies" listed in `alive` does not happen (no startup window there).
A death always hits the process most recently started under the name worker-<slot>, whatever the manager's own
list says.

Optional "slow": k (k >= 2): a worker whose pid is a multiple of k needs longer than any finite timeout to exit
after terminate(): it stays alive until somebody waits for it without a timeout (join()); join(timeout=x)
returns with the process still alive.  Deaths carry an exit status (0 = clean return of the worker function,
1 = crash, -9 = killed by a signal) chosen from (pid + tick) mod 3; the model does not look at it - the
statement says "every worker that died".

Optional "env": {"name": str, "child": bool}: the process the MANAGER itself runs in.  Default = the top-level
process (current_process().name == "MainProcess", parent_process() is None).  child = the manager was started by
multiprocessing (a supervisor doing Process(target=run_worker)): parent_process() is a process object,
current_process() has that name and a _parent_pid.  The statements do not depend on who started the manager.

Optional "cfg": the configuration the manager is built from (absent = WorkerArgs(workers, max_fails) built directly,
reload off, no observer - what every case was before):
  reload, no_gitignore : WorkerArgs.reload (--reload) / WorkerArgs.no_gitignore (--do-not-use-gitignore)
  extras    : the optional `reload` extra (watchdog + gitignore-parser) is importable: the module's FileWatcher /
              Observer names hold the real taskiq.cli.watcher.FileWatcher / an observer class; false = they are None
              (the ImportError branch of the module's try-import - the state of this verification environment)
  observer  : "none" | "rec" - the `observer` argument: None, or a recording stand-in for watchdog's Observer (only
              schedule() does anything; no thread, no inotify).  "rec" with reload needs extras (as the CLI guarantees)
  gitignore : a ./.gitignore exists in the manager's working directory (a private scratch directory of the driver)
  args      : further WorkerArgs fields (the manager hands them to its workers, never looks at them)
  via       : "direct" | "cli" - WorkerArgs(...) or the real WorkerArgs.from_cli(argv)
When the manager scheduled a handler on the recording observer, a ["file"] event is a file-system event of a source
file dispatched to that handler (the real FileWatcher.dispatch -> callback path, on the watchdog thread); otherwise
it is, as before, a direct call of schedule_workers_reload(action_queue).  The statements do not depend on cfg.
Every SIGINT / SIGTERM handed to the manager's handler is logged with the tick it fell in (`signals`).

Fakes: Process (new/live/zombie/reaped; is_alive()/join()/exitcode reap, as multiprocessing does), Event, a
synchronous FIFO Queue WITH multiprocessing.Queue's bound (maxsize <= 0 = unbounded; a blocking put() on a full
queue made by the manager's own thread - the drain loop, the scan, a signal handler - can never return because
that thread is the only consumer: PutBlocks; the watchdog thread's put() waits until a get() frees a slot),
sleep, os.kill (ProcessLookupError on a reaped pid, as POSIX does), signal.signal (captures the handlers),
current_process / parent_process / active_children.  Every other multiprocessing name the module under test
holds is replaced by a stub that raises OutsideModel when used (fail closed)."""
import multiprocessing as real_mp
import multiprocessing.process as real_mp_process
import os as real_os
import queue as real_queue
import signal as real_signal
import sys
import time as real_time
import types

import atexit
import fnmatch
import importlib
import shutil
import tempfile


def _missing(modname):
    try:
        importlib.import_module(modname)
        return False
    except ImportError:
        return True


def _stand_in_reload_extras():
    """The optional `reload` extra of taskiq (watchdog, gitignore-parser) is not installed here, so process_manager's
    try-import would always take the ImportError branch and taskiq.cli.watcher could never run.  Minimal stand-ins
    for the two third-party packages (only what taskiq.cli.watcher / process_manager import from them) are put into
    sys.modules of THIS driver process before the module under test is imported; whether a case sees the extra as
    installed is then decided per case (cfg.extras).  A package that is really installed is left alone."""
    made = []
    if _missing("watchdog.events") or _missing("watchdog.observers"):
        wd, ev, ob = (types.ModuleType(n) for n in ("watchdog", "watchdog.events", "watchdog.observers"))
        wd.__path__ = []

        class FileSystemEvent:
            event_type, is_directory, is_synthetic = "", False, False

            def __init__(self, src_path, dest_path="", is_synthetic=False):
                self.src_path, self.dest_path, self.is_synthetic = src_path, dest_path, is_synthetic

            def __repr__(self):
                return "<%s %s>" % (type(self).__name__, self.src_path)

        for cls, kind in (("FileModifiedEvent", "modified"), ("FileCreatedEvent", "created"),
                          ("FileDeletedEvent", "deleted"), ("FileMovedEvent", "moved")):
            setattr(ev, cls, type(cls, (FileSystemEvent,), dict(event_type=kind)))
        ev.FileSystemEvent = FileSystemEvent

        class Observer:                 # never instantiated by the driver: the `observer` argument is RecObserver
            def __init__(self, *a, **kw):
                raise OutsideModel("watchdog.observers.Observer()")

        Observer.__module__ = "watchdog.observers"
        ob.Observer = Observer
        wd.events, wd.observers = ev, ob
        sys.modules.update({"watchdog": wd, "watchdog.events": ev, "watchdog.observers": ob})
        made.append("watchdog")
    if _missing("gitignore_parser"):
        gp = types.ModuleType("gitignore_parser")

        def parse_gitignore(full_path, base_dir=None):
            pats = [ln.strip().rstrip("/") for ln in open(full_path) if ln.strip() and not ln.startswith("#")]

            def matches(path):
                parts = [x for x in str(path).replace("\\", "/").split("/") if x not in ("", ".")]
                return any(fnmatch.fnmatch(x, q) for x in parts for q in pats)
            return matches

        gp.parse_gitignore = parse_gitignore
        sys.modules["gitignore_parser"] = gp
        made.append("gitignore_parser")
    return made


class OutsideModel(BaseException):
    """the code under test used a multiprocessing facility the fakes do not provide"""


STAND_INS = _stand_in_reload_extras()

import taskiq.cli.worker.process_manager as pm  # noqa: E402
from taskiq.cli.worker.args import WorkerArgs  # noqa: E402

MANAGER_PID = 4000


class Stop(BaseException):
    pass


class JoinBlocks(BaseException):
    pass


class PutBlocks(BaseException):
    """a blocking put() on a full queue by the thread that is the queue's only consumer"""


class GetBlocks(BaseException):
    """a blocking get() on an empty queue by the manager's thread with nothing left in the script to fill it"""


class World:
    active = False
    pass


W = World()


def eff(*e):
    W.ticks[-1].append(list(e))


class FProc:
    def __init__(self, group=None, target=None, name=None, args=(), kwargs=None, daemon=None):
        self.name, self.pid, self.state, self.daemon = name, None, "new", daemon
        self.slot = int(name.split("-")[1])
        self.termed = False
        self.code = None
        self.startup_polled = False     # the is_alive() of its startup wait has answered
        self.started_key = None         # (tick, drain point) at which start() was called

    def start(self):
        assert self.state == "new"
        self.pid = W.next_pid
        W.next_pid += 1
        # independent observation for C17: processes of the same slot that are live / not waited for right now
        same = [p for p in W.all if p.slot == self.slot]
        W.start_info.append(dict(slot=self.slot, pid=self.pid,
                                 live=[p.pid for p in same if p.state == "live"],
                                 unreaped=[p.pid for p in same if p.state in ("live", "zombie")]))
        self.state = "live"
        self.started_key = (W.tick, W.drain_idx)
        W.procs[self.pid] = self
        W.all.append(self)
        W.slot_proc[self.slot] = self
        eff("start", self.slot, self.pid)
        if W.tick > 0:                  # a replacement: its window's events are the head of the next drain point
            W.win = dict(proc=self, key=(W.tick, W.drain_idx))
        early("start", self)

    def slow(self):
        return bool(W.slow) and self.pid % W.slow == 0

    def die(self, code):
        if self.state == "live":
            self.state = "zombie"
            self.code = code

    def terminate(self):
        eff("terminate", self.pid)
        self.termed = True
        if self.state == "live" and not self.slow():
            self.die(-15)               # SIGTERM: the fake worker dies at once

    def kill(self):
        eff("terminate", self.pid)
        self.termed = True
        self.die(-9)

    def join(self, timeout=None):
        eff("join", self.pid)
        if self.state == "live":
            if not self.termed:
                raise JoinBlocks(self.pid)  # join() on a process nobody terminated never returns
            if timeout is not None:
                return                  # slow worker: still shutting down when the timeout elapses
            self.die(-15)               # an unbounded join() waits until it has exited
        self.state = "reaped"

    @property
    def exitcode(self):
        if self.state == "zombie":
            self.state = "reaped"
        return None if self.state in ("new", "live") else self.code

    def is_alive(self):
        # Which poll is this?  Decided by WHEN it happens, not by the name of the calling function (helpers may be
        # extracted or renamed): the first is_alive() on a process after its start(), before the manager has reached its
        # next queue look (empty()) or sleep, is the poll of that process' startup wait; every other is_alive() is a poll of
        # the liveness scan / the shutdown branch and is a delivery point of the tick's `alive` list.
        startup = not self.startup_polled and self.started_key == (W.tick, W.drain_idx)
        if startup:
            W.last_polled = self
            early("poll", self)
        else:
            k = W.alive_idx
            W.alive_idx += 1
            if W.cur is not None and k < len(W.cur["alive"]):
                deliver([e for e in W.cur["alive"][k] if e[0] != "dies"])
        if self.state == "zombie":
            self.state = "reaped"
        if startup:
            self.startup_polled = True
            if self.state != "live":
                W.wait_skipped.add(self.slot)
        return self.state == "live"


class FEvent:
    def wait(self, timeout=None):
        if W.last_polled is not None:   # the startup wait of the process whose is_alive() was just asked
            early("wait", W.last_polled)
        return False

    def set(self):
        pass

    def is_set(self):
        return False


def describe(a):
    if isinstance(a, pm.ReloadAllAction):
        return ["all"]
    if isinstance(a, pm.ReloadOneAction):
        return ["one", a.worker_num, bool(a.is_reload_all)]
    if isinstance(a, pm.ShutdownAction):
        return ["shutdown"]
    return ["other", repr(a)]


class FQueue:
    """multiprocessing.Queue as the manager sees it: FIFO, put() visible to the next empty()/get(), bounded by
    maxsize when maxsize > 0 (multiprocessing turns maxsize <= 0 into SEM_VALUE_MAX)."""

    def __init__(self, maxsize=0, **kw):
        self.maxsize = maxsize if type(maxsize) is int and maxsize > 0 else 0
        self.items = []
        self.pending = []           # put() calls of the watchdog thread waiting for a free slot
        W.qmax.append(self.maxsize)

    def full(self):
        return bool(self.maxsize) and len(self.items) >= self.maxsize

    def qsize(self):
        return len(self.items)

    def put(self, x, block=True, timeout=None):
        if isinstance(x, pm.ReloadOneAction) and not x.is_reload_all:
            ws = W.mgr.workers
            W.puts.append(dict(tick=len(W.ticks) - 1, slot=x.worker_num,
                               state=ws[x.worker_num].state if 0 <= x.worker_num < len(ws) else None))
        if self.full():
            W.full_puts += 1
            if not block or timeout is not None:
                raise real_queue.Full       # nobody consumes while this thread waits for its timeout
            if W.in_watcher:
                self.pending.append(x)      # the watchdog thread blocks; the manager goes on
                return
            raise PutBlocks(describe(x), [describe(a) for a in self.items], self.maxsize)
        self.items.append(x)

    def put_nowait(self, x):
        return self.put(x, False)

    def get(self, block=True, timeout=None):
        if not self.items:
            if not block or timeout is not None:
                raise real_queue.Empty
            raise GetBlocks()
        a = self.items.pop(0)
        while self.pending and not self.full():
            self.items.append(self.pending.pop(0))
        eff("got", *describe(a))
        return a

    def get_nowait(self):
        return self.get(False)

    def empty(self):
        k = W.drain_idx
        W.drain_idx += 1
        if W.cur is not None and k < len(W.cur["drain"]):
            deliver(home((W.tick, k), W.cur["drain"][k]))
        W.win = None
        return not self.items

    def close(self):
        pass

    def join_thread(self):
        pass

    def cancel_join_thread(self):
        pass


def marker(ev):
    return ev[-1] if isinstance(ev[-1], dict) else None


def early(at, proc):
    """a point inside a startup window: deliver the leading marked events of the window's home list that are due"""
    if W.tick == 0:                     # prepare_workers: home = the first sleep
        if not W.script:
            return
        key, evs, here = (0, "sleep"), W.script[0]["sleep"], (at, proc.slot)
    else:
        if W.win is None or W.win["proc"] is not proc or W.cur is None:
            return
        t, k = W.win["key"]
        if t != W.tick or k != W.drain_idx or k >= len(W.cur["drain"]):
            return
        key, evs, here = (t, k), W.cur["drain"][k], (at,)
    i = W.early_done.get(key, 0)
    while i < len(evs):
        m = marker(evs[i])
        if m is None:
            break
        want = (m.get("at"), m.get("j")) if W.tick == 0 else (m.get("at"),)
        if want != here and not (m.get("at") == "wait" and W.tick == 0 and m.get("j") in W.wait_skipped):
            break
        W.early_done[key] = i = i + 1
        W.early_n["prepare" if W.tick == 0 else "reload"] += 1
        deliver([evs[i - 1]], early_point=at)


def home(key, evs):
    """the home point of a list: what its startup window did not deliver"""
    return evs[W.early_done.get(key, 0):]


def deliver(evs, early_point=None):
    S = real_signal
    for ev in evs:
        if ev[0] in ("die", "dies"):
            p = W.slot_proc.get(ev[1])
            if p is None:
                continue
            if p.state == "live":
                p.die((0, 1, -9)[(p.pid + W.tick) % 3])
                W.deaths["startup-window" if early_point else "tick"] += 1
            if ev[0] == "dies" and p.state == "zombie":
                if p.startup_polled:
                    p.state = "reaped"      # polled by somebody else
                    W.polled["elsewhere"] += 1
                else:
                    W.polled["by-startup-wait"] += 1
        elif ev[0] == "hup":
            W.handlers[S.SIGHUP](S.SIGHUP, None)
        elif ev[0] in ("int", "term"):
            W.signals.append(dict(sig=ev[0], tick=W.tick, point=early_point or "tick"))
            num = S.SIGINT if ev[0] == "int" else S.SIGTERM
            W.handlers[num](num, None)
        elif ev[0] == "file":
            W.in_watcher = True             # the watchdog observer's thread, not the manager's
            try:
                watches = W.observer.scheduled if W.observer is not None else []
                if watches:                 # the real FileWatcher.dispatch -> callback(**callback_kwargs) path
                    for handler, _path, _rec in watches:
                        handler.dispatch(fs_event())
                    W.file_via["watcher"] += 1
                else:
                    pm.schedule_workers_reload(W.mgr.action_queue)
                    W.file_via["direct"] += 1
            finally:
                W.in_watcher = False
        else:
            raise ValueError(ev)


FS_EVENTS = [("FileModifiedEvent", "./app/tasks.py"), ("FileCreatedEvent", "app/broker.py"),
             ("FileModifiedEvent", "pkg/sub/module.py"), ("FileDeletedEvent", "./old_tasks.py"),
             ("FileMovedEvent", "app/tasks.py")]


def fs_event():
    """a change of a source file (never a directory, never under .git, never matched by the scratch .gitignore)"""
    import watchdog.events as we
    cls, path = FS_EVENTS[W.file_n % len(FS_EVENTS)]
    W.file_n += 1
    return getattr(we, cls)(path, "app/tasks_renamed.py") if cls == "FileMovedEvent" else getattr(we, cls)(path)


class RecObserver:
    """stands for watchdog.observers.Observer as the CLI hands it to the manager: records schedule() calls"""

    def __init__(self):
        self.scheduled = []

    def schedule(self, event_handler, path, recursive=False, **kw):
        self.scheduled.append((event_handler, path, recursive))
        return ("watch", len(self.scheduled))

    def start(self):
        pass

    def stop(self):
        pass

    def join(self, timeout=None):
        pass

    def is_alive(self):
        return True


def snapshot():
    return [[p.pid, p.state] for p in W.mgr.workers]


def fsleep(secs):
    W.bounds.append(snapshot())
    if W.tick >= len(W.script):
        raise Stop
    W.cur = W.script[W.tick]
    W.tick += 1
    W.drain_idx = W.alive_idx = 0
    W.ticks.append([])
    W.win = None
    deliver(home((0, "sleep"), W.cur["sleep"]) if W.tick == 1 else W.cur["sleep"])


class FOs(types.ModuleType):
    def __getattr__(self, n):
        return getattr(real_os, n)

    def getpid(self):
        return MANAGER_PID

    def kill(self, pid, sig):
        p = W.procs.get(pid)
        eff("kill", pid)
        W.kills.append(dict(pid=pid, state=p.state if p else None, sig=int(sig),
                            current=any(w.pid == pid for w in W.mgr.workers)))
        if pid == MANAGER_PID:
            return
        if p is None or p.state == "reaped":
            raise ProcessLookupError(pid)


class FSignal(types.ModuleType):
    def __getattr__(self, n):
        return getattr(real_signal, n)

    def signal(self, num, h):
        W.handlers[num] = h


MANAGER_PARENT_PID = 3000


class FSelf:
    """what multiprocessing.current_process() / parent_process() return (the attributes of BaseProcess)"""

    def __init__(self, name, pid, parent_pid):
        self.name, self.pid, self.ident, self.daemon = name, pid, pid, False
        self._parent_pid = parent_pid
        self.exitcode = None
        self.authkey = b"k"

    def is_alive(self):
        return True

    def __repr__(self):
        return "<FSelf %s %s>" % (self.name, self.pid)


def fcurrent_process():
    return W.me


def fparent_process():
    return W.parent


def factive_children():
    for p in W.all:                 # multiprocessing.active_children() polls (reaps) finished children
        if p.state == "zombie":
            p.state = "reaped"
    return [p for p in W.all if p.state == "live"]


class Stub:
    """stands for a multiprocessing name without a fake: any use is an observation outside the model"""

    def __init__(self, name):
        object.__setattr__(self, "_stub_name", name)

    def __call__(self, *a, **kw):
        raise OutsideModel(self._stub_name)

    def __getattr__(self, a):
        raise OutsideModel(self._stub_name + "." + a)


MP_FAKES = dict(Process=FProc, Event=FEvent, Queue=FQueue, current_process=fcurrent_process,
                parent_process=fparent_process, active_children=factive_children)


class FMp(types.ModuleType):
    """`import multiprocessing` / `import multiprocessing as mp` inside the module under test"""

    def __getattr__(self, n):
        if n in MP_FAKES:
            return MP_FAKES[n]
        raise OutsideModel("multiprocessing." + n)


class FTime(types.ModuleType):
    def __getattr__(self, n):
        return fsleep if n == "sleep" else getattr(real_time, n)


def _mp_origin(v):
    if isinstance(v, types.ModuleType):
        return v.__name__
    m = getattr(v, "__module__", None)
    if not isinstance(m, str):
        m = getattr(type(v), "__module__", "") or ""
    return m


def setup(opts):
    # by identity: whatever name the module bound the real object to (from x import y as z)
    by_id = [(getattr(real_mp, k), f) for k, f in MP_FAKES.items()]
    by_id += [(real_time.sleep, fsleep), (real_os, FOs("os")), (real_signal, FSignal("signal")),
              (real_time, FTime("time")), (real_os.kill, FOs("os").kill), (real_os.getpid, FOs("os").getpid),
              (real_signal.signal, FSignal("signal").signal)]
    W.unmodelled = []
    W.all, W.parent, W.me = [], None, FSelf("MainProcess", MANAGER_PID, None)
    # ... in process_manager AND in every other module of taskiq.cli.worker that is loaded by now: the action classes or
    # the manager's helpers may live in a module of their own (moved code must meet the same fake environment)
    for mod in [m for n, m in sorted(sys.modules.items())
                if m is not None and m is not pm and n.startswith("taskiq.cli.worker.")]:
        for name, v in list(vars(mod).items()):
            if name.startswith("__"):
                continue
            for real, fake in by_id:
                if v is real or (callable(v) and not isinstance(v, type) and v == real):
                    setattr(mod, name, fake)
                    break
    for name, v in list(vars(pm).items()):
        if name.startswith("__"):
            continue
        for real, fake in by_id:
            if v is real or (callable(v) and not isinstance(v, type) and v == real):
                setattr(pm, name, fake)
                break
        else:
            org = _mp_origin(v)
            if org == "multiprocessing" or org.startswith("multiprocessing."):
                if isinstance(v, types.ModuleType) and org == "multiprocessing":
                    setattr(pm, name, FMp("multiprocessing"))
                else:       # e.g. EventType (annotations only), get_context, Pipe, a context object
                    W.unmodelled.append(name)
                    setattr(pm, name, Stub(name))
    # the optional `reload` extra as the module saw it at import: names holding the FileWatcher / Observer classes
    W.extras_names = [(name, v) for name, v in vars(pm).items()
                      if isinstance(v, type) and (_mp_origin(v) == "taskiq.cli.watcher" or _mp_origin(v).startswith("watchdog"))]
    for k in ("FileWatcher", "Observer"):
        if not any(name == k for name, _ in W.extras_names):
            W.extras_names.append((k, getattr(pm, k, None)))
    # a private working directory (FileWatcher looks for ./.gitignore)
    W.cwd = tempfile.mkdtemp(prefix="pmcwd_", dir=real_os.getcwd())
    real_os.chdir(W.cwd)
    atexit.register(shutil.rmtree, W.cwd, True)
    # (no unconditional `pm.Process = FProc` ... any more: every binding of the real objects was replaced by identity above,
    # and a by-name assignment could clobber a name the module binds to something else)
    # a function-local `import multiprocessing` / `from multiprocessing import ...` sees the same environment
    for m in (real_mp, real_mp_process):
        for k in ("current_process", "parent_process", "active_children"):
            if hasattr(m, k):
                setattr(m, k, MP_FAKES[k])
    # ... and so do the other names: Process / Event / Queue, os.kill / os.getpid, signal.signal, time.sleep reached through an
    # import statement that runs inside a function (or in a module of the package that is first imported during a case) lead to
    # the stand-ins while a case runs, to the real objects otherwise (a real Process must never be started, a real pid never be
    # signalled from here)
    fos, fsig = FOs("os"), FSignal("signal")
    for m, k, fake in [(real_mp, "Process", FProc), (real_mp, "Event", FEvent), (real_mp, "Queue", FQueue),
                       (real_os, "kill", fos.kill), (real_os, "getpid", fos.getpid), (real_signal, "signal", fsig.signal),
                       (real_time, "sleep", fsleep)]:
        setattr(m, k, _at_source(getattr(m, k), fake))


def _at_source(real, fake):
    def during_a_case(*a, **kw):
        return (fake if W.active else real)(*a, **kw)
    during_a_case.__name__ = getattr(real, "__name__", "during_a_case")
    return during_a_case


CLI_OPTS = dict(shutdown_timeout="--shutdown-timeout", max_async_tasks="--max-async-tasks", max_prefetch="--max-prefetch",
                hardkill_count="--hardkill-count", max_tasks_per_child="--max-tasks-per-child",
                wait_tasks_timeout="--wait-tasks-timeout", max_threadpool_threads="--max-threadpool-threads",
                log_level="--log-level")
CLI_FLAGS = dict(use_process_pool="--use-process-pool", no_parse="--no-parse", fs_discover="--fs-discover",
                 no_propagate_errors="--no-propagate-errors")


def build_args(c, cfg):
    extra = dict(cfg.get("args") or {})
    if cfg.get("via") == "cli":
        argv = ["x:y", "--workers", str(c["n"]), "--max-fails=%d" % c["mf"]]
        argv += ["--reload"] if cfg.get("reload") else []
        argv += ["--do-not-use-gitignore"] if cfg.get("no_gitignore") else []
        for k, v in extra.items():
            if k in CLI_FLAGS:
                argv += [CLI_FLAGS[k]] if v else []
            elif k == "configure_logging":
                argv += [] if v else ["--no-configure-logging"]
            else:
                argv += ["%s=%s" % (CLI_OPTS[k], v)]
        return WorkerArgs.from_cli(argv)
    if "log_level" in extra:
        from taskiq.cli.common_args import LogLevel
        extra["log_level"] = LogLevel[extra["log_level"]]
    return WorkerArgs(broker="x:y", modules=[], workers=c["n"], max_fails=c["mf"], reload=bool(cfg.get("reload")),
                      no_gitignore=bool(cfg.get("no_gitignore")), **extra)


def run_case(c, opts):
    W.script = c["ticks"]
    W.tick = 0
    W.cur = None
    W.drain_idx = W.alive_idx = 0
    W.ticks = [[]]          # ticks[0] = prepare_workers
    W.procs, W.all, W.slot_proc = {}, [], {}
    W.win, W.last_polled, W.wait_skipped, W.early_done = None, None, set(), {}
    W.early_n, W.deaths = dict(prepare=0, reload=0), {"startup-window": 0, "tick": 0}
    W.polled = {"by-startup-wait": 0, "elsewhere": 0}
    W.next_pid = c["p0"]
    W.slow = c.get("slow") or 0
    W.handlers = {}
    W.bounds, W.puts, W.kills, W.start_info = [], [], [], []
    W.qmax, W.full_puts, W.in_watcher = [], 0, False
    env = c.get("env") or {}
    child = bool(env.get("child"))
    W.parent = FSelf("MainProcess", MANAGER_PARENT_PID, None) if child else None
    W.me = FSelf(env.get("name") or "MainProcess", MANAGER_PID, MANAGER_PARENT_PID if child else None)
    W.signals, W.file_via, W.file_n = [], dict(watcher=0, direct=0), 0
    cfg = c.get("cfg") or {}
    for name, v in W.extras_names:
        setattr(pm, name, v if cfg.get("extras") else None)
    gi = real_os.path.join(W.cwd, ".gitignore")
    if cfg.get("gitignore"):
        open(gi, "w").write("# scratch\n*.pyc\n__pycache__/\nbuild/\n.venv\n")
    elif real_os.path.exists(gi):
        real_os.remove(gi)
    W.observer = RecObserver() if cfg.get("observer") == "rec" else None
    args = build_args(c, cfg)
    W.active = True         # (the at-source stand-ins of setup(): from the construction of the manager to the end of start())
    if W.observer is not None:
        W.mgr = pm.ProcessManager(args, worker_function=lambda args: None, observer=W.observer)
    elif cfg.get("observer") == "none":
        W.mgr = pm.ProcessManager(args=args, worker_function=lambda args: None, observer=None)
    else:
        W.mgr = pm.ProcessManager(args, worker_function=lambda args: None)
    try:
        rv = W.mgr.start()
        if rv is None:
            res = ["exit", "none"]
            eff("exit", "none")
        elif type(rv) is int and rv == -1:
            res = ["exit", "fail"]
            eff("exit", "fail")
        else:
            res = ["exit-other", repr(rv)]
    except Stop:
        res = ["running"]
    except JoinBlocks as e:
        res = ["join-blocks", e.args[0]]
    except PutBlocks as e:
        res = ["put-blocks", dict(action=e.args[0], queue=e.args[1], maxsize=e.args[2])]
    except GetBlocks:
        res = ["get-blocks"]
    except OutsideModel as e:
        res = ["outside-model", e.args[0]]
    except ProcessLookupError as e:
        res = ["crash", e.args[0]]
    except BaseException as e:  # anything else escaping start() (KeyboardInterrupt and SystemExit included)
        res = ["exc", repr(e)]
    finally:
        W.active = False
    q = W.mgr.action_queue
    if not isinstance(q, FQueue):
        return dict(_crash="action_queue is not the fake queue: %r" % (q,))
    return dict(ticks=W.ticks, result=res, final=snapshot(), queue=[describe(a) for a in q.items + q.pending],
                qmax=W.qmax, full_puts=W.full_puts, unmodelled=W.unmodelled,
                bounds=W.bounds, puts=W.puts, kills=W.kills, start_info=W.start_info,
                handlers=sorted(int(k) for k in W.handlers),
                early=W.early_n, deaths=W.deaths, polled=W.polled,
                signals=W.signals, file_via=W.file_via,
                watches=[[type(h).__name__, path, bool(rec)] for h, path, rec in W.observer.scheduled] if W.observer else None,
                args=dict(workers=args.workers, max_fails=args.max_fails, reload=bool(args.reload),
                          no_gitignore=bool(args.no_gitignore)),
                exitcodes=[[p.pid, p.code] for p in W.all if p.code is not None])
