"""Implementation driver for C17/C18: the real ProcessManager.start() against process/OS fakes.

A case is {"n": workers, "mf": max_fails, "p0": first pid, "ticks": [{"sleep": [ev..], "drain": [[ev..]..],
"alive": [[ev..]..]}, ..]} with ev = ["die", slot] | ["hup"] | ["int"] | ["term"] | ["file"].
  sleep    : delivered inside the fake sleep(1) of that tick
  drain[k] : delivered inside the k-th action_queue.empty() call of that tick (before it answers)
  alive[j] : delivered inside the j-th Process.is_alive() call made by start() itself in that tick
             (the shutdown branch or the liveness scan), before it answers
Python signal handlers, the watchdog thread and worker deaths are asynchronous to the loop; these are
the points at which the fakes let them happen.  When the script is exhausted the next sleep() raises Stop.

Optional "slow": k (k >= 2): a worker whose pid is a multiple of k needs longer than any finite timeout to exit
after terminate(): it stays alive until somebody waits for it without a timeout (join()); join(timeout=x)
returns with the process still alive.  Deaths carry an exit status (0 = clean return of the worker function,
1 = crash, -9 = killed by a signal) chosen from (pid + tick) mod 3; the model does not look at it - the
statement says "every worker that died".

Fakes: Process (new/live/zombie/reaped; is_alive()/join()/exitcode reap, as multiprocessing does), Event, a
synchronous FIFO Queue, sleep, os.kill (ProcessLookupError on a reaped pid, as POSIX does),
signal.signal (captures the handlers), current_process."""
import signal as real_signal
import sys
import types

import taskiq.cli.worker.process_manager as pm
from taskiq.cli.worker.args import WorkerArgs

MANAGER_PID = 4000


class Stop(BaseException):
    pass


class JoinBlocks(BaseException):
    pass


class World:
    pass


W = World()


def eff(*e):
    W.ticks[-1].append(list(e))


class FProc:
    def __init__(self, group=None, target=None, name=None, args=(), kwargs=None, daemon=None):
        self.name, self.pid, self.state, self.daemon = name, None, "new", daemon
        self.slot = int(name.split("-")[1])
        self.termed = False
        self.code = None

    def start(self):
        assert self.state == "new"
        self.pid = W.next_pid
        W.next_pid += 1
        # independent observation for C17: processes of the same slot that are live / not waited for right now
        same = [p for p in W.all if p.slot == self.slot]
        W.start_info.append(dict(slot=self.slot, pid=self.pid,
                                 live=[p.pid for p in same if p.state == "live"],
                                 unreaped=[p.pid for p in same if p.state in ("live", "zombie")]))
        self.state = "live"
        W.procs[self.pid] = self
        W.all.append(self)
        eff("start", self.slot, self.pid)

    def slow(self):
        return bool(W.slow) and self.pid % W.slow == 0

    def die(self, code):
        if self.state == "live":
            self.state = "zombie"
            self.code = code

    def terminate(self):
        eff("terminate", self.pid)
        self.termed = True
        if self.state == "live" and not self.slow():
            self.die(-15)               # SIGTERM: the fake worker dies at once

    def kill(self):
        eff("terminate", self.pid)
        self.termed = True
        self.die(-9)

    def join(self, timeout=None):
        eff("join", self.pid)
        if self.state == "live":
            if not self.termed:
                raise JoinBlocks(self.pid)  # join() on a process nobody terminated never returns
            if timeout is not None:
                return                  # slow worker: still shutting down when the timeout elapses
            self.die(-15)               # an unbounded join() waits until it has exited
        self.state = "reaped"

    @property
    def exitcode(self):
        if self.state == "zombie":
            self.state = "reaped"
        return None if self.state in ("new", "live") else self.code

    def is_alive(self):
        if sys._getframe(1).f_code.co_name == "start":   # not the call made by _wait_for_worker_startup
            k = W.alive_idx
            W.alive_idx += 1
            if W.cur is not None and k < len(W.cur["alive"]):
                deliver(W.cur["alive"][k])
        if self.state == "zombie":
            self.state = "reaped"
        return self.state == "live"


class FEvent:
    def wait(self, timeout=None):
        return False

    def set(self):
        pass

    def is_set(self):
        return False


def describe(a):
    if isinstance(a, pm.ReloadAllAction):
        return ["all"]
    if isinstance(a, pm.ReloadOneAction):
        return ["one", a.worker_num, bool(a.is_reload_all)]
    if isinstance(a, pm.ShutdownAction):
        return ["shutdown"]
    return ["other", repr(a)]


class FQueue:
    def __init__(self, maxsize=0):
        pass

    def put(self, x, block=True, timeout=None):
        if isinstance(x, pm.ReloadOneAction) and not x.is_reload_all:
            ws = W.mgr.workers
            W.puts.append(dict(tick=len(W.ticks) - 1, slot=x.worker_num,
                               state=ws[x.worker_num].state if 0 <= x.worker_num < len(ws) else None))
        W.queue.append(x)

    def get(self, block=True, timeout=None):
        a = W.queue.pop(0)
        eff("got", *describe(a))
        return a

    def empty(self):
        k = W.drain_idx
        W.drain_idx += 1
        if W.cur is not None and k < len(W.cur["drain"]):
            deliver(W.cur["drain"][k])
        return not W.queue


def deliver(evs):
    S = real_signal
    for ev in evs:
        if ev[0] == "die":
            ws = W.mgr.workers
            if ev[1] < len(ws) and ws[ev[1]].state == "live":
                ws[ev[1]].die((0, 1, -9)[(ws[ev[1]].pid + W.tick) % 3])
        elif ev[0] == "hup":
            W.handlers[S.SIGHUP](S.SIGHUP, None)
        elif ev[0] == "int":
            W.handlers[S.SIGINT](S.SIGINT, None)
        elif ev[0] == "term":
            W.handlers[S.SIGTERM](S.SIGTERM, None)
        elif ev[0] == "file":
            pm.schedule_workers_reload(W.mgr.action_queue)
        else:
            raise ValueError(ev)


def snapshot():
    return [[p.pid, p.state] for p in W.mgr.workers]


def fsleep(secs):
    W.bounds.append(snapshot())
    if W.tick >= len(W.script):
        raise Stop
    W.cur = W.script[W.tick]
    W.tick += 1
    W.drain_idx = W.alive_idx = 0
    W.ticks.append([])
    deliver(W.cur["sleep"])


class FOs(types.ModuleType):
    def __getattr__(self, n):
        import os
        return getattr(os, n)

    def getpid(self):
        return MANAGER_PID

    def kill(self, pid, sig):
        p = W.procs.get(pid)
        eff("kill", pid)
        W.kills.append(dict(pid=pid, state=p.state if p else None, sig=int(sig),
                            current=any(w.pid == pid for w in W.mgr.workers)))
        if pid == MANAGER_PID:
            return
        if p is None or p.state == "reaped":
            raise ProcessLookupError(pid)


class FSignal(types.ModuleType):
    def __getattr__(self, n):
        return getattr(real_signal, n)

    def signal(self, num, h):
        W.handlers[num] = h


class FCur:
    name = "MainProcess"


def setup(opts):
    pm.Process = FProc
    pm.Event = FEvent
    pm.Queue = FQueue
    pm.sleep = fsleep
    pm.os = FOs("os")
    pm.signal = FSignal("signal")
    pm.current_process = lambda: FCur


def run_case(c, opts):
    W.script = c["ticks"]
    W.tick = 0
    W.cur = None
    W.drain_idx = W.alive_idx = 0
    W.ticks = [[]]          # ticks[0] = prepare_workers
    W.procs, W.all = {}, []
    W.next_pid = c["p0"]
    W.slow = c.get("slow") or 0
    W.handlers, W.queue = {}, []
    W.bounds, W.puts, W.kills, W.start_info = [], [], [], []
    W.mgr = pm.ProcessManager(WorkerArgs(broker="x:y", modules=[], workers=c["n"], max_fails=c["mf"]),
                              worker_function=lambda args: None)
    try:
        rv = W.mgr.start()
        if rv is None:
            res = ["exit", "none"]
            eff("exit", "none")
        elif type(rv) is int and rv == -1:
            res = ["exit", "fail"]
            eff("exit", "fail")
        else:
            res = ["exit-other", repr(rv)]
    except Stop:
        res = ["running"]
    except JoinBlocks as e:
        res = ["join-blocks", e.args[0]]
    except ProcessLookupError as e:
        res = ["crash", e.args[0]]
    except Exception as e:  # anything else escaping start()
        res = ["exc", repr(e)]
    return dict(ticks=W.ticks, result=res, final=snapshot(), queue=[describe(a) for a in W.queue],
                bounds=W.bounds, puts=W.puts, kills=W.kills, start_info=W.start_info,
                handlers=sorted(int(k) for k in W.handlers),
                exitcodes=[[p.pid, p.code] for p in W.all if p.code is not None])
